#!/bin/sh
# Build the fact extractor (rustc_private driver) offline with the pre-installed nightly.
set -e
cd "$(dirname "$0")/sa/mirfacts"
CARGO_NET_OFFLINE=true cargo +nightly build --release --offline
test -x target/release/mirfacts
echo "mirfacts driver built"
