import json,sys
pid=sys.argv[1]
AVOID=json.load(open('/tmp/seed-out/avoid.json')).get(pid, [])
for l in open('/verif/properties.jsonl'):
    p=json.loads(l)
    if p['id']==pid:
        wt=f"/tmp/wt-{pid.lower()}"
        out=f"/tmp/seed-out/{pid}"
        print(f"""You are helping test a verification framework by writing a realistic, subtle BUG INJECTION for an open-source Rust project (MarcusGrass/tiny-std: a no-libc Rust standard library for Linux: crates rusl, tiny-start, tiny-std, tiny-cli).

You have your own scratch git worktree of the repository at {wt} (a detached checkout; build there with `cargo ... --offline`; there is no network). Work ONLY inside {wt} and {out}/ . Never touch /repo or /verif, never commit, never push.

The property the project is supposed to satisfy:

  id: {p['id']}
  title: {p['title']}
  statement: {p['statement']}
  quantified over: {p['quantifier']['text']}
  why the existing tests cannot settle it: {p['why_tests_cant']}
  files the property is anchored in: {', '.join(p['anchors']['files'])}

TASK: produce TWO independent source changes (variant A and variant B, different mechanisms, each a small patch a careless-but-plausible refactor or "optimisation" could introduce) to the library source in {wt}, each of which
  1. BREAKS the property above,
  2. still COMPILES (`cargo build --workspace --offline` and `cargo check --offline -p tiny-std --features threaded,symbols,executable,global-allocator,cli`),
  3. still PASSES the existing test suite: `cd {wt} && flock /tmp/cargo-test.lock timeout 900 cargo nextest run --workspace --no-fail-fast --test-threads 8 --offline 2>&1 | cat` (186 tests, all pass on the clean checkout, the run itself takes seconds once built. ALWAYS take that flock AND a timeout around any `cargo test`/`cargo nextest` run, including your own demonstration tests, and always pipe the output through `| cat` rather than redirecting it to a file: several people run this suite on this machine, the rusl network/io_uring tests hang or fail when two suites run at once, and some epoll tests fail when stdout is a regular file. Never leave a test process running in the background; if one hangs, kill it - it holds the lock for everybody),
  4. needs something SPECIFIC to manifest - a particular interleaving, a fault/error at a particular point, a multi-step sequence of operations, an unusual input, or two cooperating sites that each look fine alone - NOT something ordinary use would expose at once. Do not change tests. Do not just delete obviously essential code in a way every user would hit immediately.
For each variant also write a DEMONSTRATION: a test or small program (e.g. an extra #[test] added in a separate file/patch, or a small bin/example crate under {out}/<variant>/demo that path-depends on {wt}) that FAILS (or hangs/crashes, with a timeout) with the change applied and PASSES without it. Some features (threads, start, allocator) only build into no-std binaries; see {wt}/test-runners for how such binaries are built if you need them; demonstrations for purely concurrent bugs may instead force the bad schedule deterministically (e.g. by calling the internal functions in the bad order from a unit test inside the crate) - explain what you did.

""" + ("The following mechanisms have ALREADY been used by others for this property - do NOT reuse them or close relatives, find genuinely different ones (different function, different clause of the property, different kind of mistake):\n" + "".join(f"  - {a}\n" for a in AVOID) + "\n" if AVOID else "") + f"""DELIVERABLES, per variant V in {{A,B}}, in {out}/V/ :
  - patch.diff : `git diff` of ONLY the library source change (apply-able with `git apply` on a clean checkout of the same commit)
  - demo.diff or demo/ : the demonstration (a diff adding a test, or a standalone crate/script), plus run.sh which runs the demonstration against WHATEVER STATE of the library is currently checked out in {wt} (it must not apply or revert patch.diff itself; if the demonstration is an added test it may apply demo.diff at the start and must remove it again at the end) and exits 0 when the property held and non-zero (or times out, use `timeout`) when it was violated
  - notes.md : what the change is, why it breaks the property, what it needs in order to manifest, the commands you ran and their results (tests pass with change; demo fails with change; demo passes without)
Verify all of this yourself before finishing, then restore the worktree to clean (`git -C {wt} checkout -- . && git -C {wt} clean -fdq -e target`) . Keep build output small; you may delete {wt}/target at the end. Finish with a brief summary of the two variants.""")
