#!/bin/bash
# verify.sh Cxx V  -> prints a summary line; logs to /tmp/seed-out/Cxx/V/verify.log
P=$1; V=$2
c=$(echo $P | tr A-Z a-z)
WT=/tmp/wt-$c
D=/tmp/seed-out/$P/$V
LOG=$D/verify.log
: > $LOG
patch=$D/patch.diff
[ -f $D/patch.rebased.diff ] && patch=$D/patch.rebased.diff
clean() { git -C $WT checkout -q -- . ; git -C $WT clean -fdq -e target; }
clean
case $P-$V in
 C02-[AB]|C10-[AB]) WITH="with"; WITHOUT="without"; SELF=1;;
 C11-[AB]) WITH="patched"; WITHOUT="clean"; SELF=1;;
 *) SELF=0;;
esac
# 1. suite with patch
git -C $WT apply $patch || { echo "$P/$V: PATCH DOES NOT APPLY"; exit 1; }
echo "### suite with patch" >> $LOG
(cd $WT && CARGO_NET_OFFLINE=true flock /tmp/cargo-test.lock timeout 1500 cargo nextest run --workspace --no-fail-fast --tool-config-file pb:/w/lib/nextest.toml --profile pb --test-threads 8 --offline 2>&1 | cat >> $LOG)
suite=$(grep -E "Summary \[" $LOG | tail -1)
# 2. demo with patch
echo "### demo with patch" >> $LOG
if [ $SELF = 1 ]; then clean; WT=$WT bash $D/run.sh $WITH >> $LOG 2>&1; rcw=$?; else bash $D/run.sh >> $LOG 2>&1; rcw=$?; fi
clean
echo "### demo without patch" >> $LOG
if [ $SELF = 1 ]; then WT=$WT bash $D/run.sh $WITHOUT >> $LOG 2>&1; rco=$?; else bash $D/run.sh >> $LOG 2>&1; rco=$?; fi
clean
echo "$P/$V: suite=[$suite] demo_with_rc=$rcw demo_without_rc=$rco"
