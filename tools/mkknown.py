#!/usr/bin/env python3
"""Regenerate sa/known_fns.json: every function path of the workspace crates in every analysed configuration of the PINNED tree.
Run only on the unchanged tree (it defines which helper functions count as 'new' for the inlining normalisation)."""
import json, os, sys
V = os.path.dirname(os.path.dirname(os.path.abspath(__file__)))
sys.path.insert(0, os.path.join(V, "sa"))
os.environ["VERIF_NO_INLINE"] = "1"
from engine import facts, inline
paths = set()
sigs = {}
adts = {}
consts = {}
for cfg in ("A", "B", "C", "D", "R", "X"):
    prog = facts.extract_many([cfg], sys.argv[1] if len(sys.argv) > 1 else "/repo")[cfg]
    paths |= set(prog.fns)
    for p, f in prog.fns.items():
        if f.get("kind") != "Closure" and "{closure" not in p:
            callees = sorted({(b["term"].get("callee") or "?") for b in f["blocks"] if b["term"]["k"] == "call"})
            sigs.setdefault(p, {"sig": f.get("sig"), "argc": f.get("argc"), "crate": f.get("crate"), "nblocks": len(f["blocks"]), "callees": callees, "fp": inline.fingerprint(f)})
    for a, d in prog.adts.items():
        if d.get("variants") and a.split("::")[0] in prog.crates:
            adts.setdefault(a, [[[fl["name"], fl["ty"]] for fl in v["fields"]] for v in d["variants"]])
    for c, d in prog.consts.items():
        if c.split("::")[0] in prog.crates and d.get("value") not in (None, "indirect", "slice", "zst"):
            consts.setdefault(c, [d.get("ty"), d.get("value")])
        elif c.split("::")[0] in prog.crates and d.get("mem"):
            consts.setdefault(c, [d.get("ty"), "mem:" + ",".join(str(x) for x in d["mem"])])
json.dump(sorted(paths), open(os.path.join(V, "sa", "known_fns.json"), "w"), indent=0)
json.dump({"fns": sigs, "adts": adts, "consts": consts}, open(os.path.join(V, "sa", "known_shapes.json"), "w"), indent=0, sort_keys=True)
print(len(paths), "known function paths;", len(sigs), "signatures;", len(adts), "adts;", len(consts), "consts")
