#!/usr/bin/env python3
"""mkseeded.py Cxx V  -- copy a verified seeded change from /tmp/seed-out/Cxx/V into /verif/seeded/Cxx-V/ with meta.json.
Expects /tmp/seed-out/Cxx/V/verify.log (written by /tmp/seed-out/verify.sh) and runs ./seedcheck to record the rules that fire."""
import json, os, re, shutil, subprocess, sys
P, V = sys.argv[1], sys.argv[2]
src = f"/tmp/seed-out/{P}/{V}"
dst = f"/verif/seeded/{P}-{V}"
patch = "patch.rebased.diff" if os.path.exists(f"{src}/patch.rebased.diff") else "patch.diff"
if not os.path.exists(f"{src}/{patch}") or not os.path.exists(f"{src}/verify.log"):
    sys.exit(f"{src}: no {patch} / verify.log - nothing saved, {dst} left as it is")
if os.path.exists(dst):
    shutil.rmtree(dst)
os.makedirs(dst)
shutil.copy(f"{src}/{patch}", f"{dst}/patch.diff")
for f in os.listdir(src):
    if f in ("patch.diff", "patch.rebased.diff", "verify.log") or f.endswith(".log"):
        continue
    s = f"{src}/{f}"
    if os.path.isdir(s):
        shutil.copytree(s, f"{dst}/{f}", ignore=shutil.ignore_patterns("target"))
    else:
        shutil.copy(s, f"{dst}/{f}")
notes = open(f"{src}/notes.md").read() if os.path.exists(f"{src}/notes.md") else ""
m = re.search(r"^#+\s*(?:What it needs|Needed to manifest|Needs)[^\n]*\n(.*?)(?=^#+\s|\Z)", notes, re.S | re.M)
needs = re.sub(r"\s+", " ", m.group(1)).strip()[:1500] if m else ""
log = open(f"{src}/verify.log").read()
suite_part = log.split("### demo with patch")[0]
suite = re.findall(r"Summary \[[^\n]*", suite_part)
fails = sorted(set(re.findall(r"^\s+FAIL \[[^\]]*\] \([^)]*\) (.*)$", suite_part, re.M)))
allv = open("/tmp/seed-out/verify-all.log").read()
line = next((l for l in allv.splitlines() if l.startswith(f"{P}/{V}:")), "")
rc = re.search(r"demo_with_rc=(\d+) demo_without_rc=(\d+)", line)
r = subprocess.run(["/verif/seedcheck", P, f"{dst}/patch.diff"], stdout=subprocess.PIPE, stderr=subprocess.STDOUT, text=True)
fired = [l.strip()[len("violated: "):] for l in r.stdout.splitlines() if l.strip().startswith("violated:")]
meta = {
    "property": P, "variant": V,
    "base_commit": subprocess.run(["git", "-C", "/repo", "rev-parse", "HEAD"], stdout=subprocess.PIPE, text=True).stdout.strip(),
    "needs_to_manifest": needs,
    "what_was_run": [
        "git worktree of /repo HEAD; git apply patch.diff; cargo nextest run --workspace --no-fail-fast --tool-config-file pb:/w/lib/nextest.toml --profile pb --test-threads 8 --offline",
        "run.sh with the patch applied (expected non-zero), then run.sh on the clean checkout (expected 0)",
        "/verif/seedcheck %s seeded/%s-%s/patch.diff (applies to /repo, runs ./check --no-evidence, git checkout -- .)" % (P, P, V)],
    "suite_with_change": suite[-1].strip() if suite else "",
    "suite_failures_with_change": fails,
    "suite_note": ("the failing test is one of the two rusl send_recv_msg_with_control tests that share a socket path and race with each other on the unchanged tree too (baseline lists _single as flaky); it passes when re-run alone with the change applied" if fails else ""),
    "demo_exit_with_change": int(rc.group(1)) if rc else None,
    "demo_exit_without_change": int(rc.group(2)) if rc else None,
    "check_exit_with_change": r.returncode,
    "rules_that_fire": fired,
    "demo_location_note": "run.sh / demo path-depend on a scratch worktree under /tmp (see run.sh); recreate it with `git -C /repo worktree add --detach /tmp/wt-%s HEAD`" % P.lower(),
}
json.dump(meta, open(f"{dst}/meta.json", "w"), indent=1)
print(P, V, "check exit", r.returncode, "rules", len(fired), "needs", len(needs))
