#!/usr/bin/env python3
"""tools/mk_sqe_abi.py -- print the field -> source table of every IoUringSubmissionQueueEntry::new_* constructor of the tree
(leaf fields of io_uring_sqe; sources = parameter indices, or a constant).  The output was REVIEWED by hand against the kernel's
io_*_prep functions (which sqe field each operation reads its arguments from) and frozen as sa/rules/c18_abi.json; rule C18.4
compares the tree with that table on every run.  Re-run and re-review only when a constructor is added or its signature changes."""
import json, re, sys
sys.path.insert(0, "/verif")
from sa.engine import facts
from sa.rules.c18 import sqe_field_sources
prog = facts.extract_many(["A"], sys.argv[1] if len(sys.argv) > 1 else None)["A"]
print(json.dumps(sqe_field_sources(prog), indent=1, sort_keys=True))
