import json,sys
pid=sys.argv[1]
for l in open('/verif/properties.jsonl'):
    p=json.loads(l)
    if p['id']==pid:
        wt=f"/tmp/wt-{pid.lower()}"
        out=f"/tmp/seed-out/{pid}"
        print(f"""You are helping test a verification framework for an open-source Rust project (MarcusGrass/tiny-std: a no-libc Rust standard library for Linux: crates rusl, tiny-start, tiny-std, tiny-cli) by writing BEHAVIOUR-PRESERVING refactorings: changes a maintainer might plausibly make that must NOT break anything. (The framework should stay silent on them; we are looking for false alarms.)

You have your own scratch git worktree of the repository at {wt} (a detached checkout; build there with `cargo ... --offline`; there is no network). Work ONLY inside {wt} and {out}/ . Never touch /repo or /verif, never commit, never push.

The property the code satisfies and must keep satisfying:

  id: {p['id']}
  title: {p['title']}
  statement: {p['statement']}
  files the property is anchored in: {', '.join(p['anchors']['files'])}

TASK: produce FOUR independent refactorings (R1, R2, R3, R4), each a separate patch against the clean checkout, each touching the functions in the files above that are most central to the property, each of a DIFFERENT kind, for example:
  - restructure control flow without changing behaviour (invert an if/else, early return instead of nesting, `match` <-> `if let`, `while` <-> `loop` + `break`, merge or split conditions keeping exactly the same truth table),
  - extract a private helper function, or inline a small private helper into its caller,
  - rename local variables / private functions / private fields, reorder independent statements or independent items,
  - replace an expression by an equivalent one (`a + 1 > b` <-> `a >= b` on values that cannot overflow, `x.is_none()` <-> `matches!(x, None)`, iterator form <-> index loop, `?` <-> explicit match that returns the same error),
  - introduce a named constant for a literal, add `#[inline]`, add or reword comments, add a debug_assert! that always holds.
Each refactoring must be of moderate size (touching real logic, not only comments - at most one of the four may be trivial), must keep every observable behaviour relevant to the property EXACTLY the same on every input, schedule and error path (same system calls in the same order with the same arguments, same atomic operations and orderings, same results and errors), must compile (`cargo build --workspace --offline` and `cargo check --offline -p tiny-std --features threaded,symbols,executable,global-allocator,cli`) and must pass the test suite: `cd {wt} && flock /tmp/cargo-test.lock timeout 900 cargo nextest run --workspace --no-fail-fast --test-threads 8 --offline 2>&1 | cat` (186 tests; ALWAYS take that flock and a timeout around any test run and pipe through `| cat`; the two rusl tests network::test::send_recv_msg_with_control_single/_multi share a socket path and occasionally fail or hang when run together - if one of them fails, re-run it alone; if a run hangs kill it, it holds the lock for everybody).

DELIVERABLES in {out}/ : R1.diff, R2.diff, R3.diff, R4.diff (each `git diff` of one refactoring alone against the clean checkout, apply-able with `git apply`), and notes.md with, per patch, one paragraph: what was changed and the argument why behaviour is exactly preserved, plus the test result. Restore the worktree to clean at the end (`git -C {wt} checkout -- . && git -C {wt} clean -fdq -e target`). Keep every single response short: think briefly, write files with tools in small pieces, never print long analyses. Finish with a brief summary.""")
