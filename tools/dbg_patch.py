#!/usr/bin/env python3
"""tools/dbg_patch.py PATCH CONFIG FN_SUBSTRING [--blocks]  -- development aid: apply PATCH to a scratch copy of /repo (outside /repo and
/verif, removed afterwards), extract CONFIG with the normaliser on, and print the calls and switch-edge facts of every function
whose path contains FN_SUBSTRING. PATCH may be '-' for the unchanged tree."""
import os, shutil, subprocess, sys, tempfile
V = os.path.dirname(os.path.dirname(os.path.abspath(__file__)))
sys.path.insert(0, V)
from sa.engine.facts import extract_many  # noqa: E402
from sa.engine.prov import show  # noqa: E402

patch, cfgname, sub = sys.argv[1], sys.argv[2], sys.argv[3]
scratch = tempfile.mkdtemp(prefix="verif-dbg-")
try:
    repo = "/repo"
    if patch != "-":
        repo = os.path.join(scratch, "repo")
        subprocess.run(["rsync", "-a", "--exclude", "target", "--exclude", ".git", "/repo/", repo + "/"], check=True)
        subprocess.run(["patch", "-p1", "-s", "-i", os.path.abspath(patch)], cwd=repo, check=True)
    P = extract_many([cfgname], repo)[cfgname]
    for p, fn in P.fns.items():
        if sub not in p:
            continue
        ctx = P.ctx(fn)
        print("==", p, "blocks", len(fn["blocks"]), "inlined" if fn.get("inlined") else "")
        for bb, t in ctx.cfg.calls():
            print("  call", bb, t.get("resolved") or t.get("callee"), [show(a)[:100] for a in ctx.args(bb)], "->", t["dst"].get("l"))
        for sb in sorted(ctx.cfg.live_blocks()):
            if ctx.cfg.term(sb)["k"] == "switch":
                for e in ctx.cfg.succ[sb]:
                    print("  edge", sb, "->", e.dst, [(f[0],) + tuple(show(x)[:90] if isinstance(x, tuple) else x for x in f[1:]) for f in ctx.edge_facts(e)])
        print("  ret", {k: show(v)[:120] for k, v in ctx.ret_expr().items()})
        if "--blocks" in sys.argv:
            for b in fn["blocks"]:
                if b["id"] in ctx.cfg.live_blocks() and not b.get("cleanup"):
                    for i, s in enumerate(b["stmts"]):
                        if s["k"] == "assign":
                            print("   ", b["id"], i, s["dst"], "=", show(ctx.prov.rvalue(s["rv"], (b["id"], i)))[:110])
                    print("   ", b["id"], "term", b["term"]["k"], b["term"].get("t"), b["term"].get("targets"), b["term"].get("otherwise"))
finally:
    shutil.rmtree(scratch, ignore_errors=True)
