#!/bin/bash
# tools/benign_all.sh -- run every stored behaviour-preserving refactoring (benign/Cxx/R*.diff) against its property's quick check;
# prints one line per patch and a total. A non-zero exit of a check here is a false alarm (the patches pass the repo's test suite
# and were argued behaviour-preserving by their authors; see benign/Cxx/notes.md).
cd "$(dirname "$0")/.."
pass=0; fail=0
for d in benign/C*; do P=$(basename $d)
  for f in $d/R*.diff; do
    out=$(./seedcheck $P $(pwd)/$f 2>&1); rc=$(echo "$out" | sed -n 's/^check exit=//p')
    if [ "$rc" = 0 ]; then pass=$((pass+1)); echo "silent  $P $(basename $f)"; else fail=$((fail+1)); echo "ALARM   $P $(basename $f): $(echo "$out" | grep -m2 'violated:' | sed 's/ *violated: //' | tr '\n' ';' | cut -c1-160)"; fi
  done
done
echo "silent on $pass of $((pass+fail)) behaviour-preserving refactorings"
