#!/bin/bash
# tools/benign_check.sh Cxx DIR  -- run the property's quick check against every R*.diff in DIR (behaviour-preserving refactorings);
# any violation is a false alarm of the checker (or the refactoring is not behaviour-preserving after all: read it).
P=$1; D=$2
for f in $D/R*.diff; do
  out=$(/verif/seedcheck $P $f 2>&1); rc=$(echo "$out" | sed -n 's/^check exit=//p')
  echo "== $P $(basename $f): exit=$rc"
  echo "$out" | grep -E "violated:|patch does not apply|BROKEN" | head -6 | cut -c1-260
done
