"""C17 — io_uring rings: wrapping counter discipline, capacity/index formulae, orderings, no release before last use."""
from ..engine.prov import const_value, strip_casts, walk, walk_deep, show
from ..engine.atomics import inventory, is_acquire, is_release
from ..engine.dtable import canon
from ..engine.fold import fold
from ..engine.cfg import span_str
from ..engine import panics
from .c12 import mentions

CONFIGS_QUICK = ["A", "B"]
CONFIGS_THOROUGH = ["A", "B", "C", "R", "X"]

EXPLANATION = (
    "Decided (static, MIR): C17.1 free-running ring counters (the local head/tail fields and every load of a kernel head/tail word, closed under arithmetic) are only combined with wrapping_add/wrapping_sub, masked with `& ring_mask`, "
    "compared with ==/!=, or - as a wrapping difference - ordered against the ring size; a plain +/- (overflow panic in debug builds when the 32-bit index wraps) or an ordered comparison of two raw counters (wrong for ever after a wrap) is a violation; "
    "C17.2 a submission slot is handed out only under (tail+1) - head <= entries (wrapping), its index is (tail & mask) << shift, the completion index is (head & mask) << shift, flush publishes exactly the local tail and leaves it unpublished only on the edge where the private head EQUALS the private tail (not a masked distance, which is 0 for a full ring too); "
    "C17.3 orderings on the shared words: the completion tail is loaded with >= Acquire before the entry is read, the completion head is advanced with >= Release, under SQPOLL the submission tail is published with >= Release and the kernel head loaded with >= Acquire, "
    "and the branch choosing them tests the SQPOLL flag; C17.4 the function that returns a reference into the completion array does not advance the completion head before returning it; "
    "C17.5 the cursors have one writer each: local tail only in get_next_sqe_slot, local head only in flush, the kernel tail only through the two sync_ktail_* helpers, the completion head only through advance; the cursor fields are not public. "
    "C17.7 the slot -> entry index array is initialised as the identity over the ring size the kernel reports (not the requested size), so each submitted entry is consumed exactly once, and every ring word (head, tail, flags, dropped/overflow, mask, entries) is located through its own ring's offset table under its own name; "
    "C17.6 type-level witnesses: the ring cursors (submission_queue / completion_queue) cannot be reached from outside rusl; "
    "C17.2 also: the submission shift is decided by IORING_SETUP_SQE128 alone and the completion shift by IORING_SETUP_CQE32 alone. "
    "C17.2 also: the free-slot bound is the submission ring's own size. C17.2 also: the private submission tail moves only on a way that hands a slot out. NOT decided: the kernel's side of the protocol, interleavings with a concurrent kernel beyond these ordering obligations, that submitted entries are consumed.")
ASSUMPTIONS = ["io_uring ABI: head/tail are free-running u32 indices, masked by ring_mask on use", "without SQPOLL the kernel reads the submission tail during io_uring_enter (Relaxed suffices)"]

Q = "rusl::platform::compat::io_uring::"
URING = Q + "IoUring::"
COUNTER_LOADERS = ("UringSubmissionQueue::get_khead_relaxed", "UringSubmissionQueue::acquire_khead", "UringCompletionQueue::acquire_ktail", "UringCompletionQueue::acquire_khead", "UringCompletionQueue::get_khead_relaxed")
COUNTER_FIELDS = {("UringSubmissionQueue", "head"), ("UringSubmissionQueue", "tail")}


def run(ck, progs, tier):
    from .c18 import check_index_array, check_ring_geometry
    for cfgname, prog in progs.items():
        ck.set_config(prog)
        run_one(ck, prog)
        # C17.7 every submission slot maps to its own entry (sq_array is the identity over the kernel's ring)
        check_index_array(ck, prog, "C17.7")
        check_ring_geometry(ck, prog, "C17.7")
    # type-level witnesses (compile_fail doctests with compiling twins) against the public API of the tree under analysis
    from ..engine import witness
    witness.check(ck, ck.repo, "C17", "C17.6")


def is_counter(e, prov, depth=0):
    """expression is (derived by arithmetic from) a free-running ring counter."""
    e = strip_casts(e)
    if not isinstance(e, tuple) or depth > 12:
        return False
    k = e[0]
    if k == "field" and (str(e[3]).split("::")[-1], e[2]) in COUNTER_FIELDS:
        return True
    if k == "call":
        n = e[1] or ""
        if n.endswith(COUNTER_LOADERS):
            return True
        if n.endswith(("u32>::wrapping_add", "u32>::wrapping_sub")):
            return False     # a wrapping result is a difference/next index handled explicitly by the rules
        return False
    if k == "bin" and e[1] in ("Add", "Sub"):
        return is_counter(e[2], prov, depth + 1) or is_counter(e[3], prov, depth + 1)
    if k == "var":
        return any(is_counter(d, prov, depth + 1) for d in prov.expand(e))
    return False


def all_defs(e, prov, pred, depth=0):
    """pred holds for the expression on every reaching definition (merged locals are expanded)."""
    e = strip_casts(e)
    if isinstance(e, tuple) and e and e[0] == "var" and depth < 8:
        ds = prov.expand(e)
        return bool(ds) and all(all_defs(d, prov, pred, depth + 1) for d in ds)
    return bool(pred(e))


def is_wrapping_next_or_diff(e, prov):
    """wrapping_add(counter, c) or wrapping_sub(x, counter-ish)"""
    e = strip_casts(e)
    if isinstance(e, tuple) and e[0] == "call" and (e[1] or "").endswith(("u32>::wrapping_add", "u32>::wrapping_sub")):
        return True
    if isinstance(e, tuple) and e[0] == "var":
        ds = prov.expand(e)
        return bool(ds) and all(is_wrapping_next_or_diff(d, prov) for d in ds)
    return False


def run_one(ck, prog):
    fns = {n: prog.fns.get(URING + n) for n in ("get_next_sqe_slot", "flush_submission_queue", "get_next_cqe")}
    for n, f in fns.items():
        ck.anchor("C17.1", n, f)
    if not all(fns.values()):
        return
    # ---- C17.1 counter discipline ------------------------------------------------------------------------------------
    n_arith = n_cmp = 0
    for n, fn in fns.items():
        ctx = prog.ctx(fn)
        for b in fn["blocks"]:
            if b.get("cleanup") or b["id"] not in ctx.cfg.live_blocks():
                continue
            for i, s in enumerate(b["stmts"]):
                if s["k"] != "assign" or s["rv"]["k"] != "binop":
                    continue
                op = s["rv"]["op"].replace("WithOverflow", "")
                at = (b["id"], i)
                a, c = ctx.prov.operand(s["rv"]["a"], at), ctx.prov.operand(s["rv"]["b"], at)
                ca, cc = is_counter(a, ctx.prov), is_counter(c, ctx.prov)
                if op in ("Add", "Sub", "Mul") and (ca or cc):
                    n_arith += 1
                    ck.ob("C17.1", f"{n}|plain-{op.lower()}|{canon(a)},{canon(c)}", False, fn=fn["path"], site=span_str(s["sp"]),
                          detail=f"`{show(a)} {op} {show(c)}` on a free-running 32-bit ring index: overflows (debug panic / wrong value) when the index wraps; use wrapping arithmetic")
                if op in ("Lt", "Le", "Gt", "Ge") and (ca or cc):
                    n_cmp += 1
                    ck.ob("C17.1", f"{n}|ordered-comparison|{canon(a)},{canon(c)}", False, fn=fn["path"], site=span_str(s["sp"]),
                          detail=f"`{show(a)} {op} {show(c)}` orders two raw ring indices: after the tail wraps it is numerically below the head and the ring looks empty/full for ever")
        # wrapping calls present where counters are combined
        for bb, t in ctx.cfg.calls(lambda t: (t.get("callee") or "").endswith(("u32>::wrapping_add", "u32>::wrapping_sub"))):
            a = ctx.args(bb)
            if any(is_counter(x, ctx.prov) for x in a):
                n_arith += 1
                ck.ob("C17.1", f"{n}|wrapping|{t['callee'].split('::')[-1]}({','.join(canon(x) for x in a)})", True, fn=fn["path"], site=ctx.site(bb), detail="wrapping arithmetic on ring indices")
        # any other numeric method on a raw index (saturating_*, checked_*, abs_diff, min/max, cmp ...) is not modular either
        for bb, t in ctx.cfg.calls(lambda t: "core::num::<impl u32>::" in (t.get("callee") or "") or (t.get("callee") or "").endswith(("cmp::min", "cmp::max", "Ord::cmp", "PartialOrd::partial_cmp", "Ord::min", "Ord::max", "PartialOrd::lt", "PartialOrd::le", "PartialOrd::gt", "PartialOrd::ge"))):
            if (t.get("callee") or "").endswith(("u32>::wrapping_add", "u32>::wrapping_sub")):
                continue
            a = ctx.args(bb)
            if any(is_counter(x, ctx.prov) for x in a):
                n_arith += 1
                ck.ob("C17.1", f"{n}|non-modular-call|{t['callee'].split('::')[-1]}({','.join(canon(x) for x in a)})", False, fn=fn["path"], site=ctx.site(bb),
                      detail=f"`{t['callee'].split('::')[-1]}` on free-running 32-bit ring indices is not modular: once the tail has wrapped past u32::MAX and the head has not, the distance is wrong (e.g. saturates to 0: the ring looks empty for ever)")
    ck.floor("C17.1", "counter arithmetic sites", n_arith, 3)

    # ---- C17.2 capacity and index formulae --------------------------------------------------------------------------------
    check_slot_capacity(ck, prog, "C17.2")
    c = prog.ctx(fns["get_next_cqe"])
    check_cqe_index(ck, prog, "C17.2")
    check_completion_head(ck, prog, "C17.2")
    check_flush_publishes(ck, prog, "C17.2")
    for helper in ("sync_ktail_release", "sync_ktail_relaxed"):
        hf = prog.fns.get(Q + "UringSubmissionQueue::" + helper)
        if ck.anchor("C17.2", helper, hf):
            hc = prog.ctx(hf)
            ops = [op for op in inventory(hf, hc.cfg, hc.prov) if op.op == "store"]
            v0 = strip_casts(ops[0].args[0]) if len(ops) == 1 and ops[0].args else None
            ok = len(ops) == 1 and isinstance(v0, tuple) and v0[0] == "field" and v0[2] == "tail" and \
                mentions(ops[0].recv, hc.prov, lambda z: z[0] == "field" and z[2] == "kernel_tail")
            ck.ob("C17.2", f"{helper}|publishes-local-tail", ok, fn=hf["path"], detail="flush must publish exactly the local tail to the kernel tail word")

    # ---- C17.3 orderings -----------------------------------------------------------------------------------------------------
    want = {"UringCompletionQueue::acquire_ktail": ("load", is_acquire, "kernel_tail"), "UringCompletionQueue::advance": ("fetch_add", is_release, "kernel_head"),
            "UringSubmissionQueue::sync_ktail_release": ("store", is_release, "kernel_tail"), "UringSubmissionQueue::acquire_khead": ("load", is_acquire, "kernel_head")}
    n_at = 0
    for nm, (opk, pred, word) in want.items():
        hf = prog.fns.get(Q + nm)
        if not ck.anchor("C17.3", nm, hf):
            continue
        hc = prog.ctx(hf)
        ops = [op for op in inventory(hf, hc.cfg, hc.prov)]
        n_at += len(ops)
        ok = len(ops) == 1 and ops[0].op == opk and pred(ops[0].success_order) and mentions(ops[0].recv, hc.prov, lambda z: z[0] == "field" and z[2] == word)
        ck.ob("C17.3", f"{nm}|ordering", ok, fn=hf["path"], detail=f"{nm} must be one `{opk}` on {word} with the required ordering; found {[(o.op, o.orderings) for o in ops]}")
    # users: get_next_cqe uses acquire_ktail before reading the entry and advance() to release
    kt = [bb for bb, t in c.cfg.calls(lambda t: (t.get("callee") or "").endswith("UringCompletionQueue::acquire_ktail"))]
    ck.ob("C17.3", "cqe-tail-acquired", len(kt) == 1, fn=c.path, detail="get_next_cqe must load the completion tail through the Acquire loader")
    # SQPOLL branch selection
    for n, loaders in (("get_next_sqe_slot", ("acquire_khead", "get_khead_relaxed")), ("flush_submission_queue", ("sync_ktail_release", "sync_ktail_relaxed"))):
        x = prog.ctx(fns[n])
        strong = [bb for bb, t in x.cfg.calls(lambda t: (t.get("callee") or "").endswith("UringSubmissionQueue::" + loaders[0]))]
        weak = [bb for bb, t in x.cfg.calls(lambda t: (t.get("callee") or "").endswith("UringSubmissionQueue::" + loaders[1])) ]
        ok = False
        for sb in strong:
            facts = panics.dominating_facts(x, sb)
            ok = any(f[0] == "truth" and f[2] is True and isinstance(f[1], tuple) and f[1][0] == "call" and (f[1][1] or "").endswith("::contains") and
                     mentions(f[1], x.prov, lambda z: z[0] == "const" and z[2] and z[2].endswith("IORING_SETUP_SQPOLL")) for f in facts)
        ck.ob("C17.3", f"{n}|sqpoll-uses-strong-ordering", bool(strong) and ok, fn=x.path, detail=f"under IORING_SETUP_SQPOLL the kernel thread runs concurrently: `{loaders[0]}` must be used on the SQPOLL == true edge")
    ck.floor("C17.3", "atomic ops on ring words", n_at, 4)

    # the completion ring is empty exactly when the two indices are equal: the only comparisons guarding None / Some in get_next_cqe
    is_kt = lambda z: isinstance(z, tuple) and z[0] == "call" and (z[1] or "").endswith("acquire_ktail")  # noqa: E731
    is_kh = lambda z: isinstance(z, tuple) and z[0] == "call" and (z[1] or "").endswith("acquire_khead")  # noqa: E731
    for kind, want in (("None", "Eq"), ("Some", "Ne")):
        blocks = []
        for b in fns["get_next_cqe"]["blocks"]:
            if b["id"] not in c.cfg.live_blocks() or b.get("cleanup"):
                continue
            if kind == "None" and any(s2["k"] == "assign" and s2["dst"]["l"] == 0 and s2["rv"]["k"] == "agg" and s2["rv"].get("variant") == "None" for s2 in b["stmts"]):
                blocks.append(b["id"])
            if kind == "Some" and ((b["term"]["k"] == "call" and b["term"]["dst"]["l"] == 0) or any(s2["k"] == "assign" and s2["dst"]["l"] == 0 and s2["rv"]["k"] == "agg" and s2["rv"].get("variant") == "Some" for s2 in b["stmts"])):
                blocks.append(b["id"])
        for bid in blocks:
            fs = [f for f in panics.dominating_facts(c, bid) if f[0] == "cmp" or (f[0] == "truth" and mentions(f[1], c.prov, lambda z: is_kt(z) or is_kh(z)))]
            def tail_vs_head(a, b):
                a, b = strip_casts(a), strip_casts(b)
                if (is_kt(a) and is_kh(b)) or (is_kh(a) and is_kt(b)):
                    return True
                # the wrapping distance compared with zero says the same
                for d, z in ((a, b), (b, a)):
                    if const_value(z) == 0 and isinstance(d, tuple) and d[0] == "call" and (d[1] or "").endswith("u32>::wrapping_sub") and len(d[2]) == 2:
                        x, y = strip_casts(d[2][0]), strip_casts(d[2][1])
                        if (is_kt(x) and is_kh(y)) or (is_kh(x) and is_kt(y)):
                            return True
                return False
            exact = len(fs) == 1 and fs[0][0] == "cmp" and fs[0][1] == want and tail_vs_head(fs[0][2], fs[0][3])
            ck.ob("C17.2", f"cqe-{kind.lower()}-iff-tail{'==' if want == 'Eq' else '!='}head", exact, fn=c.path, site=c.site(bid),
                  detail=f"get_next_cqe must return {kind} exactly when kernel tail {'==' if want == 'Eq' else '!='} kernel head (free-running indices: equality is the only wrap-safe emptiness test); guarding comparisons found: {[(f[1], show(f[2]), show(f[3])) if f[0] == 'cmp' else ('truth', show(f[1]), f[2]) for f in fs]}")

    # ---- C17.4 no release before last use -----------------------------------------------------------------------------------------
    adv = [bb for bb, t in c.cfg.calls(lambda t: (t.get("callee") or "").endswith("UringCompletionQueue::advance"))]
    refs = [bb for bb, t in c.cfg.calls(lambda t: (t.get("callee") or "").endswith(("::as_ref", "NonNull::<T>::as_ref"))) if t["dst"]["l"] == 0 or True]
    ret_ref = [bb for bb in refs if mentions(c.args(bb)[0], c.prov, lambda z: z[0] == "field" and z[2] == "entries")]
    ok = True
    for a in adv:
        for r in ret_ref:
            if c.cfg.dominates(a, r) and a != r:
                ok = False
    if "&" in fns["get_next_cqe"]["locals"][0]["ty"] and adv:
        # a reference into the ring is returned: the head must not have been advanced on any path to the return
        r0 = c.cfg.reachable_from(0, avoid=set(adv))
        somes_c = [b["id"] for b in fns["get_next_cqe"]["blocks"] if b["id"] in c.cfg.live_blocks() and (b["term"]["k"] == "call" and b["term"]["dst"]["l"] == 0 and (b["term"].get("callee") or "").endswith("as_ref"))]
        ok = ok and all(s in r0 for s in somes_c)
    ck.ob("C17.4", "entry-not-released-while-referenced", ok, fn=c.path, site=c.site(adv[0]) if adv else None,
          detail="get_next_cqe advances the completion head BEFORE handing out the reference to the entry: with a full completion ring the kernel may overwrite the slot while the caller still reads it")

    # ---- C17.5 who moves the cursors ----------------------------------------------------------------------------------------------
    writers = {"tail": set(), "head": set()}
    for p, fn in prog.fns.items():
        if fn["crate"] != "rusl" or fn.get("is_test"):
            continue
        for b in fn["blocks"]:
            if b.get("cleanup"):
                continue
            for s in b["stmts"]:
                if s["k"] == "assign" and s["dst"].get("p"):
                    for pe in s["dst"]["p"]:
                        if pe["k"] == "field" and (pe.get("adt") or "").endswith("UringSubmissionQueue") and pe.get("n") in writers and pe is s["dst"]["p"][-1]:
                            writers[pe["n"]].add(p)
    ck.ob("C17.5", "local-tail-writer", writers["tail"] == {URING + "get_next_sqe_slot"}, detail=f"functions assigning submission_queue.tail: {sorted(writers['tail'])}")
    ck.ob("C17.5", "local-head-writer", writers["head"] == {URING + "flush_submission_queue"}, detail=f"functions assigning submission_queue.head: {sorted(writers['head'])}")
    cg = prog.callgraph()
    storers = set()
    adders = set()
    for p, fn in prog.fns.items():
        if fn["crate"] != "rusl" or "io_uring::test" in p:
            continue
        if not any(b["term"]["k"] == "call" and (b["term"].get("callee") or "").startswith("core::sync::atomic::") for b in fn["blocks"]):
            continue
        x = prog.ctx(fn)
        for op in inventory(fn, x.cfg, x.prov):
            if op.op in ("store", "swap", "fetch_add", "fetch_sub", "compare_exchange") and mentions(op.recv, x.prov, lambda z: z[0] == "field" and z[2] == "kernel_tail" and (z[3] or "").endswith("UringSubmissionQueue")):
                storers.add(p)
            if op.op in ("store", "swap", "fetch_add", "fetch_sub", "compare_exchange") and mentions(op.recv, x.prov, lambda z: z[0] == "field" and z[2] == "kernel_head" and (z[3] or "").endswith("UringCompletionQueue")):
                adders.add(p)
    ck.ob("C17.5", "kernel-tail-writers", storers == {Q + "UringSubmissionQueue::sync_ktail_release", Q + "UringSubmissionQueue::sync_ktail_relaxed"}, detail=f"functions storing the kernel submission tail: {sorted(storers)}")
    ck.ob("C17.5", "completion-head-writers", adders == {Q + "UringCompletionQueue::advance"}, detail=f"functions moving the completion head: {sorted(adders)}")
    for adt in ("UringSubmissionQueue", "UringCompletionQueue"):
        a = prog.adts.get(Q + adt)
        if ck.anchor("C17.5", adt, a):
            pub = [f["name"] for v in a["variants"] for f in v["fields"] if "Public" in f["vis"]]
            ck.ob("C17.5", f"cursor-fields-not-public|{adt}", not pub and "Public" not in a["vis"], detail=f"public fields {pub}, type visibility {a['vis']}")
    iu = prog.adts.get(Q + "IoUring")
    if iu is not None:
        pub = [f["name"] for v in iu["variants"] for f in v["fields"] if "Public" in f["vis"] and f["name"] in ("submission_queue", "completion_queue")]
        ck.ob("C17.5", "queues-not-public", not pub, detail=f"public queue fields of IoUring: {pub}")


def shape_masked_shift(e, prov, field, loader=None, flag=None, ctx=None):
    """(X & ring_mask) << shift   (cast to usize allowed); with `flag`, the shift must be decided by that set-up flag (the submission
    entries are doubled by SQE128, the completion entries by CQE32 - independently of each other)"""
    e = strip_casts(e)
    if not (isinstance(e, tuple) and e[0] == "bin" and e[1] in ("Shl", "ShlUnchecked")):
        return False
    if flag is not None:
        named = {str(z[2]).rsplit("::", 1)[-1] for z in walk_deep(e[3], prov) if z[0] == "const" and z[2] and "IORING_SETUP_" in str(z[2])}
        sh = strip_casts(e[3])
        if not named and ctx is not None and isinstance(sh, tuple) and sh[0] == "var" and len(sh) > 3:
            # the branch form: `if flags.contains(FLAG) { 1 } else { 0 }` - each constant is assigned under the matching outcome of the test
            ok = True
            for (db, di) in sh[3]:
                blk = ctx.cfg.block(db)
                if not isinstance(di, int) or di >= len(blk["stmts"]):
                    ok = False
                    break
                v = fold(prov.rvalue(blk["stmts"][di]["rv"], (db, di)))
                tests = [f for f in panics.dominating_facts(ctx, db) if f[0] == "truth" and isinstance(f[1], tuple) and f[1][0] == "call" and (f[1][1] or "").endswith("::contains")]
                flags_tested = {str(z[2]).rsplit("::", 1)[-1]: f[2] for f in tests for z in walk_deep(f[1], prov) if z[0] == "const" and z[2] and "IORING_SETUP_" in str(z[2])}
                if v not in (0, 1) or flags_tested != {flag: bool(v)}:
                    ok = False
            if not ok:
                return False
        elif named != {flag}:
            return False
    inner = strip_casts(e[2])
    if not (isinstance(inner, tuple) and inner[0] == "bin" and inner[1] == "BitAnd"):
        return False
    sides = [inner[2], inner[3]]
    has_mask = any(mentions(x, prov, lambda z: z[0] == "field" and z[2] == "ring_mask") for x in sides)
    if field:
        has_src = any(mentions(x, prov, lambda z: z[0] == "field" and z[2] == field) and not mentions(x, prov, lambda z: z[0] == "bin") for x in sides)
    else:
        has_src = any(mentions(x, prov, lambda z: z[0] == "call" and (z[1] or "").endswith(loader)) for x in sides)
    return has_mask and has_src


def check_flush_publishes(ck, prog, rule):
    """flush leaves the kernel tail unpublished only when nothing was queued: the only way round the sync_ktail_* helpers is the
    edge on which the private head EQUALS the private tail (free-running counters - a masked distance is 0 for a full ring too).
    Shared by C17.2 and C18.6."""
    f = prog.fns.get(URING + "flush_submission_queue")
    if not ck.anchor(rule, "flush_submission_queue", f):
        return
    c = prog.ctx(f)
    pubs = {bb for bb, t in c.cfg.calls(lambda t: (t.get("callee") or "").endswith(("sync_ktail_release", "sync_ktail_relaxed")))}
    ck.ob(rule, "flush|anchor|publish-sites", len(pubs) >= 1, fn=c.path, detail=f"calls of the kernel-tail publishers: {len(pubs)}")

    def raw(e, field):
        e = strip_casts(e)
        return isinstance(e, tuple) and mentions(e, c.prov, lambda z: z[0] == "field" and z[2] == field and (z[3] or "").endswith("UringSubmissionQueue")) and \
            not mentions(e, c.prov, lambda z: z[0] in ("bin", "call"))

    def equal_fact(fct):
        if fct[0] != "cmp" or fct[1] != "Eq":
            return False
        a, b = fct[2], fct[3]
        if (raw(a, "head") and raw(b, "tail")) or (raw(a, "tail") and raw(b, "head")):
            return True
        for x, y in ((a, b), (b, a)):
            d = strip_casts(x)
            if const_value(y) == 0 and isinstance(d, tuple) and d[0] == "call" and (d[1] or "").endswith("u32>::wrapping_sub") and \
                    {True} == {(raw(d[2][0], "head") and raw(d[2][1], "tail")) or (raw(d[2][0], "tail") and raw(d[2][1], "head"))}:
                return True
        return False
    eq_edges = set()
    for sb in c.cfg.live_blocks():
        if c.cfg.term(sb)["k"] != "switch":
            continue
        for e in c.cfg.succ[sb]:
            if any(equal_fact(fct) for fct in c.edge_facts(e)):
                eq_edges.add((e.src, e.dst))
    r = c.cfg.reachable_from(0, avoid=pubs, avoid_edges=eq_edges)
    bad = [rb for rb in c.cfg.return_blocks() if rb in r]
    path = c.cfg.find_path(0, lambda b: b in bad, avoid=pubs) if bad else None
    ck.ob(rule, "flush|tail-unpublished-only-when-head-equals-tail", bool(pubs) and not bad, fn=c.path, path=c.cfg.render_path(path) if path else None,
          detail="flush_submission_queue can return without publishing the tail although head == tail was not established: queued entries (for instance a completely filled ring, whose masked distance is 0) are never shown to the kernel")


def check_slot_capacity(ck, prog, rule):
    """a submission slot is handed out only when the KERNEL's head shows room; slot index = (tail & mask) << shift (shared by C17.2 and C18.6)"""
    fns = {n: prog.fns.get(URING + n) for n in ("get_next_sqe_slot",)}
    if not ck.anchor(rule, "get_next_sqe_slot", fns["get_next_sqe_slot"]):
        return
    g = prog.ctx(fns["get_next_sqe_slot"])
    somes = [b["id"] for b in fns["get_next_sqe_slot"]["blocks"] if b["id"] in g.cfg.live_blocks() and any(s["k"] == "assign" and s["dst"]["l"] == 0 and s["rv"]["k"] == "agg" and s["rv"].get("variant") == "Some" for s in b["stmts"])]
    ck.ob(rule, "anchor|slot-returned", len(somes) == 1, fn=g.path, detail=f"Some(..) returns: {len(somes)}")
    for sb in somes:
        facts = panics.dominating_facts(g, sb)
        cap = False
        is_wsub = lambda x: isinstance(x, tuple) and x[0] == "call" and (x[1] or "").endswith("u32>::wrapping_sub")      # noqa: E731
        is_wadd1 = lambda x: isinstance(x, tuple) and x[0] == "call" and (x[1] or "").endswith("u32>::wrapping_add") and fold(x[2][1]) == 1   # noqa: E731
        is_tail = lambda x: mentions(x, g.prov, lambda w: w[0] == "field" and w[2] == "tail") and not mentions(x, g.prov, lambda w: w[0] == "call" and (w[1] or "").endswith(("acquire_khead", "get_khead_relaxed")))  # noqa: E731
        is_khead = lambda x: all_defs(x, g.prov, lambda z: isinstance(z, tuple) and z[0] == "call" and (z[1] or "").endswith(("acquire_khead", "get_khead_relaxed")))   # noqa: E731

        def distance(d):
            """(tail + 1) - kernel_head in wrapping arithmetic, in either association"""
            d = strip_casts(d)
            if is_wsub(d):                                   # (tail + 1) - head
                a = strip_casts(d[2][0])
                if mentions(a, g.prov, lambda z: is_wadd1(z) and is_tail(z[2][0])) and is_khead(d[2][1]):
                    return True
            if is_wadd1(d):                                  # (tail - head) + 1
                a = strip_casts(d[2][0])
                inner = [z for z in walk_deep(a, g.prov, limit=60) if is_wsub(z)]
                if inner and is_tail(inner[0][2][0]) and is_khead(inner[0][2][1]):
                    return True
            return False

        def is_entries(x):
            # the bound is the SUBMISSION ring's size (the completion ring is twice as large by default: slots still waiting for the kernel would be handed out again)
            return mentions(x, g.prov, lambda z: z[0] == "field" and z[2] == "ring_entries") and mentions(x, g.prov, lambda z: z[0] == "field" and z[2] == "submission_queue") and \
                not mentions(x, g.prov, lambda z: z[0] == "field" and z[2] == "completion_queue")
        for f in facts:
            if f[0] == "cmp" and f[1] in ("Le", "Ge"):
                lo, hi = (f[2], f[3]) if f[1] == "Le" else (f[3], f[2])
                if distance(lo) and is_entries(hi):
                    cap = True
            # ring_entries.checked_sub(distance) is Some exactly when distance <= ring_entries
            if f[0] == "variant" and f[2] in ("Continue", "Some"):
                for z in walk_deep(f[1], g.prov, limit=80):
                    if z[0] == "call" and (z[1] or "").endswith("u32>::checked_sub") and len(z[2]) == 2 and is_entries(z[2][0]) and distance(z[2][1]):
                        cap = True
        ck.ob(rule, "slot-only-when-space", cap, fn=g.path, detail="a slot may be handed out only under (tail + 1) - kernel_head <= submission_queue.ring_entries, computed with wrapping arithmetic, where kernel_head is on every path the head word the KERNEL publishes (a private copy of what was flushed says nothing about what the kernel has consumed)")
        # index formula
        idx_ok = False
        for bb, t in g.cfg.calls(lambda t: (t.get("callee") or "").endswith("::add")):
            a = g.args(bb)
            if mentions(a[0], g.prov, lambda z: z[0] == "field" and z[2] == "entries"):
                e = strip_casts(a[1])
                idx_ok = shape_masked_shift(e, g.prov, "tail", flag="IORING_SETUP_SQE128", ctx=g)
        ck.ob(rule, "sqe-index=(tail&mask)<<shift", idx_ok, fn=g.path, detail="the slot index must be (tail & ring_mask) << shift, the shift decided by IORING_SETUP_SQE128 alone")
    # the private tail moves only together with a slot being handed out: a refused request (None: ring full) that has moved the tail
    # all the same makes the next flush publish a slot nobody filled - the kernel then runs whatever operation that slot held before
    fnq = fns["get_next_sqe_slot"]
    nones = [b["id"] for b in fnq["blocks"] if b["id"] in g.cfg.live_blocks() and any(s["k"] == "assign" and s["dst"]["l"] == 0 and not s["dst"].get("p") and s["rv"]["k"] == "agg" and s["rv"].get("variant") == "None" for s in b["stmts"])]
    nones += [bb for bb, t in g.cfg.calls(lambda t: (t.get("callee") or "").endswith("from_residual") and t["dst"]["l"] == 0 and not t["dst"].get("p"))]     # `?` on an Option
    moved = []
    for b in fnq["blocks"]:
        if b.get("cleanup") or b["id"] not in g.cfg.live_blocks():
            continue
        for s in b["stmts"]:
            if s["k"] == "assign" and s["dst"].get("p") and s["dst"]["p"][-1].get("k") == "field" and s["dst"]["p"][-1].get("n") == "tail" and (s["dst"]["p"][-1].get("adt") or "").endswith("UringSubmissionQueue"):
                moved.append(b["id"])
    if ck.anchor(rule, "get_next_sqe_slot moves the tail and can refuse", (moved and nones) or None):
        bad = [b for b in moved if set(nones) & g.cfg.reachable_from(b)]
        ck.ob(rule, "tail-moves-only-with-a-slot-handed-out", not bad, fn=g.path, site=g.site(bad[0]) if bad else None,
              detail="submission_queue.tail is advanced on a way that can still answer None (no room): the next flush then publishes an entry nobody wrote")


def check_cqe_index(ck, prog, rule):
    """the completion entry read is entries + ((kernel_head & ring_mask) << shift) (shared by C17.2 and C18.6)"""
    f = prog.fns.get(URING + "get_next_cqe")
    if not ck.anchor(rule, "get_next_cqe", f):
        return
    c = prog.ctx(f)
    idx_ok = False
    for bb, t in c.cfg.calls(lambda t: (t.get("callee") or "").endswith("::add")):
        a = c.args(bb)
        if mentions(a[0], c.prov, lambda z: z[0] == "field" and z[2] == "entries"):
            idx_ok = shape_masked_shift(strip_casts(a[1]), c.prov, None, loader="acquire_khead", flag="IORING_SETUP_CQE32", ctx=c)
    ck.ob(rule, "cqe-index=(head&mask)<<shift", idx_ok, fn=c.path, detail="the completion index must be (kernel_head & ring_mask) << shift: masking after the shift reads already-consumed slots on rings with 32-byte completions")


def check_completion_head(ck, prog, rule):
    """the completion head is a free-running counter of ENTRIES: one completion handed out moves it by one (whatever the entry width),
    and what is published is head + n - never a masked index (a head that wraps to 0 while the kernel's tail runs on makes the ring look
    full to the kernel and old completions look new to us). Shared by C17.2 and C18.6."""
    f = prog.fns.get(URING + "get_next_cqe")
    if ck.anchor(rule, "get_next_cqe", f):
        c = prog.ctx(f)
        adv = [bb for bb, t in c.cfg.calls(lambda t: (t.get("callee") or "").endswith("UringCompletionQueue::advance"))]
        ck.ob(rule, "one-completion-moves-the-head-by-one", bool(adv) and all(len(c.args(bb)) == 2 and fold(c.args(bb)[1]) == 1 for bb in adv), fn=c.path, site=c.site(adv[0]) if adv else None,
              detail=f"get_next_cqe hands out one completion and must advance the head by exactly 1 (found {[show(c.args(bb)[1]) for bb in adv]}); the head counts entries, not 16-byte slots")
    a = prog.fns.get(Q + "UringCompletionQueue::advance")
    if ck.anchor(rule, "UringCompletionQueue::advance", a):
        ac = prog.ctx(a)
        ops = [op for op in inventory(a, ac.cfg, ac.prov) if op.op not in ("load",)]
        ok = len(ops) == 1 and mentions(ops[0].recv, ac.prov, lambda z: z[0] == "field" and z[2] == "kernel_head")
        if ok:
            v = ops[0].args[0] if ops[0].args else None
            masked = v is not None and mentions(v, ac.prov, lambda z: (z[0] == "bin" and z[1] in ("BitAnd", "Rem")) or (z[0] == "field" and z[2] == "ring_mask"))
            uses_n = v is not None and mentions(v, ac.prov, lambda z: z[0] == "param" and z[1] == 2)
            if ops[0].op == "fetch_add":
                vs = strip_casts(v)
                ok = isinstance(vs, tuple) and vs[0] == "param" and vs[1] == 2
            elif ops[0].op == "store":
                reads_head = mentions(v, ac.prov, lambda z: (z[0] == "field" and z[2] == "kernel_head") or (z[0] == "call" and (z[1] or "").endswith(("get_khead_relaxed", "acquire_khead"))))
                ok = uses_n and reads_head and not masked
            else:
                ok = False
        ck.ob(rule, "published-head-is-head-plus-n-unmasked", ok, fn=a["path"], detail="advance must publish (head + n) as a free-running 32-bit counter: fetch_add(n), or a store of head.wrapping_add(n) - never masked with ring_mask")

