"""C12 — descriptors: creation->ownership typestate, no adoption of borrowed descriptors, owners close once."""
from ..engine.prov import const_value, strip_casts, walk, walk_deep, show
from ..engine.cfg import is_raw_syscall, span_str
from ..engine.dtable import canon

CONFIGS_QUICK = ["A", "B", "C"]
CONFIGS_THOROUGH = ["A", "B", "C", "R", "X"]

EXPLANATION = (
    "Decided (static, MIR, every path including `?` early returns): C12.1 for every call site in tiny-std (and rusl's io_uring set-up) of a descriptor *creator* "
    "(rusl wrappers whose raw syscall is OPEN/OPENAT/SOCKET/ACCEPT4/PIPE2/EPOLL_CREATE1/IO_URING_SETUP/..., derived from the syscall-number constants, plus tiny-std functions that hand raw descriptors to their caller), "
    "from the creator's success edge to every function exit each created descriptor is disposed of exactly once: moved into an OwnedFd (or a function summarised as taking ownership), closed with rusl::unistd::close, "
    "or returned to the caller inside the result; an exit reached with the descriptor still live is a leak (reported per failing callee), a second disposal on one path is a double close; "
    "code dominated by the forked child's branch is exempt (C13). C12.2 the same rule for the ring mappings of io_uring set-up (mmap -> munmap / stored in the returned IoUring). "
    "C12.3 an OwnedFd is only ever built from a descriptor created in the same function, received from an unsafe constructor's caller, or taken from another owner - never from a Copy field or plain parameter in safe code. "
    "C12.4 Drop for OwnedFd closes its field on every path exactly once; OwnedFd is neither Clone nor Copy; IoUring's Drop closes its fd once. C12.5 rusl::unistd::close is never applied to the field of a live OwnedFd outside its Drop. "
    "C12.6 type-level witnesses: OwnedFd is neither Clone nor Copy, its descriptor field is private, creating an owner from a raw descriptor is unsafe; "
    "NOT decided: descriptors the kernel creates for io_uring SQEs (numbers arrive at run time), the forked child's table, /proc truth.")
ASSUMPTIONS = ["creator table derived from syscall numbers at the wrappers' raw syscall sites", "unwinding is not considered (the library aborts on panic)",
               "a callee that merely receives a raw descriptor (Copy) does not take ownership unless its summary says so"]

FD_TY = "rusl::platform::numbers::non_negative_i32::NonNegativeI32"
OWNED = "tiny_std::unix::fd::OwnedFd"
CLOSE = "rusl::unistd::close::close"
FD_SYSCALLS = {"OPEN", "OPENAT", "OPENAT2", "CREAT", "SOCKET", "ACCEPT", "ACCEPT4", "PIPE", "PIPE2", "EPOLL_CREATE", "EPOLL_CREATE1",
               "IO_URING_SETUP", "DUP", "EVENTFD", "EVENTFD2", "TIMERFD_CREATE", "SIGNALFD", "SIGNALFD4", "MEMFD_CREATE", "INOTIFY_INIT", "INOTIFY_INIT1",
               "SOCKETPAIR", "PIDFD_OPEN", "USERFAULTFD", "FANOTIFY_INIT", "PERF_EVENT_OPEN"}
MMAP_CREATOR = "rusl::unistd::mmap::mmap"
MUNMAP = "rusl::unistd::mmap::munmap"


def run(ck, progs, tier):
    for cfgname, prog in progs.items():
        ck.set_config(prog)
        run_one(ck, prog)
    # type-level witnesses (compile_fail doctests with compiling twins) against the public API of the tree under analysis
    from ..engine import witness
    witness.check(ck, ck.repo, "C12", "C12.6")


def syscall_names_in(prog, fn):
    out = set()
    for b in fn["blocks"]:
        t = b["term"]
        if t["k"] == "call" and is_raw_syscall(t.get("callee")) and t["args"]:
            a0 = t["args"][0]
            if a0.get("k") == "const" and a0.get("path"):
                out.add(a0["path"].split("::")[-1])
    return out


def find_creators(prog):
    """rusl functions whose own raw syscall creates a descriptor."""
    cr = {}
    for p, fn in prog.fns.items():
        if fn["crate"] != "rusl" or fn["kind"] == "Closure":
            continue
        names = syscall_names_in(prog, fn) & FD_SYSCALLS
        if names:
            cr[p] = sorted(names)
    return cr


def mentions(e, prov, pred):
    for x in walk_deep(e, prov):
        if pred(x):
            return True
    return False


class Flow:
    """Typestate of the resources created at one creator call site inside one function."""

    ambiguous = False

    def __init__(self, prog, ctx, site_bb, creator, summaries, kind="fd"):
        self.prog, self.ctx, self.site, self.creator, self.summaries, self.kind = prog, ctx, site_bb, creator, summaries, kind
        self.cfg = ctx.cfg

    def derives(self, e):
        """The value of e is (structurally) the created resource: reached through copies, casts, fields, aggregates,
        `?` (Try::branch) and Result/Option plumbing - but not merely an argument of some other call."""
        return self._derives(e, 0, set())

    def derives_raw(self, e):
        """like derives(), but a value already wrapped in an owning type no longer counts (it is owned)."""
        self._stop = True
        try:
            return self._derives(e, 0, set())
        finally:
            self._stop = False

    _stop = False

    def _derives(self, e, depth, seen, through_owner=False):
        e = strip_casts(e)
        if not isinstance(e, tuple) or depth > 30:
            return False
        k = e[0]
        if k == "call":
            if e[3] == self.site and e[1] == self.creator:
                return True
            n = e[1] or ""
            if (n, self.kind) in self.summaries["takes"] and n != CLOSE and n != MUNMAP and e[2]:
                # an owner constructor (OwnedFd::from_raw ...): the result owns the resource
                if self._stop and not through_owner:
                    return False
                return any(self._derives(a, depth + 1, seen) for a in e[2])
            if n.endswith(MAPPERS) and len(e[2]) == 2 and adopting_closure(self.prog, e[2][1], self.summaries, self.kind):
                # res.map(|fd| Owner(fd)): the result owns the resource
                if self._stop and not through_owner:
                    return False
                return self._derives(e[2][0], depth + 1, seen)
            if n.endswith(("Try::branch", "::map_err", "::ok", "::unwrap", "::unwrap_unchecked", "::expect", "Into::into", "From::from",
                           "::as_ptr", "::cast", "::add", "::cast_mut", "::cast_const", "NonNull::<T>::new_unchecked", "NonNull::<T>::new", "::as_raw_fd")) and e[2]:
                return self._derives(e[2][0], depth + 1, seen)
            return False
        if k == "field":
            # reading the raw resource out of an owner (`owner.0`) yields the raw resource again
            return self._derives(e[1], depth + 1, seen, through_owner=True)
        if k in ("downcast", "deref", "discr"):
            return self._derives(e[1], depth + 1, seen, through_owner)
        if k in ("ref", "addr"):
            return self._derives(e[2], depth + 1, seen, through_owner)
        if k == "agg":
            if self._stop and not through_owner and e[1] in self.summaries["owner_adts"] and self.kind in self.summaries["owner_adts"][e[1]]:
                return False
            return any(self._derives(o, depth + 1, seen) for o in e[3])
        if k == "bin":
            return self._derives(e[2], depth + 1, seen) or self._derives(e[3], depth + 1, seen)
        if k == "var":
            key = (e[1], e[3])
            if key in seen:
                return False
            seen.add(key)
            return any(self._derives(d, depth + 1, seen) for d in self.ctx.prov.expand(e))
        if k == "phi":
            return any(self._derives(d, depth + 1, seen) for d in e[1])
        if k == "place":
            # a local that is also borrowed mutably (an owner whose `&mut self` helper was expanded): everything assigned to it
            key = ("place", e[1])
            if key in seen:
                return False
            seen.add(key)
            prov = self.ctx.prov
            return any(self._derives(prov.def_expr(d, k2, 0, frozenset()), depth + 1, seen, through_owner) for k2, ds in prov.defs.items() if k2[0] == e[1] and k2[1] is None for d in ds)
        return False

    def subs_of(self, e):
        """sub-resource names (struct fields of a multi-descriptor creator result) mentioned by expression e."""
        subs = set()
        for x in walk_deep(e, self.ctx.prov):
            if x[0] == "field" and x[2] in ("in_pipe", "out_pipe"):
                inner = x[1]
                if self.derives(inner):
                    subs.add(x[2])
        return subs or {None}

    def success_edges(self):
        cfg, ctx = self.cfg, self.ctx
        succ, fail = [], []
        for sb in cfg.live_blocks():
            if cfg.term(sb)["k"] != "switch":
                continue
            for e in cfg.succ[sb]:
                for f in ctx.edge_facts(e):
                    if f[0] == "variant" and f[2] in ("Ok", "Continue", "Err", "Break", "Some", "None"):
                        x = strip_casts(f[1])
                        direct = isinstance(x, tuple) and x[0] == "call" and ((x[3] == self.site and x[1] == self.creator) or
                                                                               ((x[1] or "").endswith("Try::branch") and x[2] and isinstance(strip_casts(x[2][0]), tuple)
                                                                                and strip_casts(x[2][0])[0] == "call" and strip_casts(x[2][0])[3] == self.site and strip_casts(x[2][0])[1] == self.creator))
                        if direct:
                            (succ if f[2] in ("Ok", "Continue", "Some") else fail).append(e)
        return succ, fail

    def events(self):
        """{bb: [(order, sub, what)]} disposal events; order = stmt index or large for terminator."""
        if not getattr(self, "_second_pass", False):
            # first pass only to learn which owners receive the resource through a field store (block order is not program order)
            self._second_pass = True
            self._stored_known = set()
            self.events()
        ctx, cfg = self.ctx, self.cfg
        ev = {}
        stored_into = self._stored_known
        owned_adts = self.summaries["owner_adts"]
        for b in ctx.fn["blocks"]:
            bid = b["id"]
            if bid not in cfg.live_blocks():
                continue
            for i, s in enumerate(b["stmts"]):
                if s["k"] != "assign" or s["rv"]["k"] != "agg":
                    continue
                rv = s["rv"]
                if rv.get("ak") == "adt" and rv.get("adt") in owned_adts and self.kind in owned_adts[rv["adt"]]:
                    got = set()
                    for o in rv["ops"]:
                        e = ctx.prov.operand(o, (bid, i))
                        if self._is_res_operand(o) and self.derives_raw(e):
                            got |= self.subs_of(e)
                    for sub in got:   # one aggregate statement = one disposal per sub-resource, however many fields alias it
                        ev.setdefault(bid, []).append((i, sub, f"moved into {rv['adt'].split('::')[-1]}", 1))
                    if len(got) > 1:
                        self.ambiguous = True
            for i, s in enumerate(b["stmts"]):
                # a raw resource stored into a field/slot of a live owner (e.g. guard.maps[i] = (ptr, len))
                if s["k"] == "assign" and s["dst"].get("p") and s["dst"]["l"] != 0:
                    lty = ctx.prov.local_ty.get(s["dst"]["l"], "").split("<")[0]
                    proj = s["dst"]["p"]
                    via_ref_owner = None
                    if lty.startswith("&mut ") and proj and proj[0]["k"] == "deref" and lty[5:] in owned_adts:
                        # a store through `&mut owner` (the body of an expanded `fn track(&mut self, ..)` helper): a store into that owner
                        lty, proj = lty[5:], proj[1:]
                        tgt = strip_casts(ctx.prov.operand({"k": "copy", "p": {"l": s["dst"]["l"]}}, (bid, i)))
                        n_ = 0
                        while isinstance(tgt, tuple) and tgt[0] in ("ref", "deref", "addr") and n_ < 6:
                            tgt = strip_casts(tgt[2] if tgt[0] in ("ref", "addr") else tgt[1])
                            n_ += 1
                        if isinstance(tgt, tuple) and tgt[0] in ("place", "var") and isinstance(tgt[1], int):
                            via_ref_owner = tgt[1]
                    if lty in owned_adts and self.kind in owned_adts[lty] and not any(pe["k"] == "deref" for pe in proj):
                        e = ctx.prov.rvalue(s["rv"], (bid, i))
                        # an update of the owner's own bookkeeping from its own fields (`self.count += 1`) stores no new resource
                        own = via_ref_owner if via_ref_owner is not None else s["dst"]["l"]
                        self_update = mentions(e, ctx.prov, lambda z: z[0] == "field" and mentions(z[1], ctx.prov, lambda w: w[0] in ("place", "var") and w[1] == own)) and \
                            not any(z[0] == "call" and z[3] == self.site for z in walk(e))     # (shallow: the owner itself was built from the resource)
                        if self.derives_raw(e) and not self_update:
                            for sub in self.subs_of(e):
                                ev.setdefault(bid, []).append((i, sub, f"stored into {lty.split('::')[-1]}", 1))
                                stored_into.add(via_ref_owner if via_ref_owner is not None else s["dst"]["l"])
            for i, s in enumerate(b["stmts"]):
                if s["k"] == "assign" and s["dst"]["l"] == 0:
                    e = ctx.prov.rvalue(s["rv"], (bid, i))
                    if self.derives_raw(e):
                        for sub in self.subs_of(e):
                            ev.setdefault(bid, []).append((i, sub, "returned to the caller", 1))
            t = b["term"]
            adopted_here = False
            if t["k"] == "call" and (t.get("callee") or "").endswith(MAPPERS) and len(t["args"]) == 2 and bid != self.site:
                at = (bid, len(b["stmts"]))
                if adopting_closure(self.prog, ctx.prov.operand(t["args"][1], at), self.summaries, self.kind):
                    e = ctx.prov.operand(t["args"][0], at)
                    if self.derives_raw(e):
                        adopted_here = True
                        for sub in self.subs_of(e):
                            ev.setdefault(bid, []).append((10 ** 6, sub, "moved into an owner by the mapped closure", 1))
            if t["k"] == "call" and t["dst"]["l"] == 0 and bid != self.site and not adopted_here:
                n = t.get("callee") or ""
                if n.endswith(("::map", "::map_err", "::and_then", "::ok", "Into::into", "From::from")) and t["args"]:
                    e = ctx.prov.operand(t["args"][0], (bid, len(b["stmts"])))
                    if self.derives_raw(e):
                        for sub in self.subs_of(e):
                            ev.setdefault(bid, []).append((10 ** 6, sub, f"returned to the caller through {n.split('::')[-1]}", 1))
            if t["k"] == "call" and t.get("callee") in ("core::mem::forget", "core::mem::manually_drop::ManuallyDrop::<T>::new") and t["args"]:
                # forgetting an owner releases the resource again (it must be re-owned or handed on afterwards)
                e = ctx.prov.operand(t["args"][0], (bid, len(b["stmts"])))
                a0 = t["args"][0]
                holder = ctx.prov.root_local(a0) in stored_into
                if (self.derives(e) and not self.derives_raw(e)) or holder:
                    for sub in self.subs_of(e):
                        ev.setdefault(bid, []).append((10 ** 6, sub, "owner forgotten", -1))
            if t["k"] == "call":
                c = t.get("resolved") or t.get("callee")
                takes = self.summaries["takes"].get((c, self.kind)) or self.summaries["takes"].get((t.get("callee"), self.kind))
                if takes is not None:
                    at = (bid, len(b["stmts"]))
                    for ai in takes:
                        if ai < len(t["args"]):
                            e = ctx.prov.operand(t["args"][ai], at)
                            if self.derives_raw(e):
                                for sub in self.subs_of(e):
                                    ev.setdefault(bid, []).append((10 ** 6, sub, f"passed to {c.split('::')[-1]}", 1))
        return ev

    def _is_res_operand(self, o):
        """Operand is the raw resource itself (not an owner that already holds it)."""
        if o.get("k") not in ("copy", "move"):
            return False
        ty = o["p"].get("ty") or self.ctx.prov.local_ty.get(o["p"]["l"], "")
        if self.kind == "fd":
            return ty == FD_TY
        return True

    def returned_subs(self, rb):
        """sub-resources handed to the caller at return block rb (value flows into _0)."""
        if self.cfg.term(self.site)["dst"]["l"] == 0:
            return {None}   # the creator's Result is the function's result
        return set()


def run_one(ck, prog):
    creators = find_creators(prog)
    ck.floor("C12.1", "descriptor creators in rusl", len(creators), 6)
    ck.extra.setdefault("creators", {})[ck.config] = {k: v for k, v in sorted(creators.items())}
    # owning ADTs: OwnedFd (fd) and anything that has OwnedFd by value; IoUring owns fd + mappings
    # owning ADTs are discovered, not listed: a local type whose Drop impl closes (fd) / unmaps (map) something of its own
    owner_adts = {}
    for p, fn in prog.fns.items():
        if fn.get("impl_trait") != "core::ops::drop::Drop" or not p.endswith("::drop"):
            continue
        adt = (fn.get("impl_self") or "").split("<")[0]
        kinds = set()
        for b in fn["blocks"]:
            t = b["term"]
            if t["k"] == "call" and not b.get("cleanup"):
                if t.get("callee") == CLOSE:
                    kinds.add("fd")
                if t.get("callee") == MUNMAP:
                    kinds.add("map")
        if kinds and adt in prog.adts:
            owner_adts[adt] = kinds
    ck.ob("C12.4", "anchor|OwnedFd is an owner", "fd" in owner_adts.get(OWNED, ()), detail=f"owner types discovered: {owner_adts}")
    ck.extra.setdefault("owner_types", {})[ck.config] = {k: sorted(v) for k, v in owner_adts.items()}
    takes = {(CLOSE, "fd"): [0], (OWNED + "::from_raw", "fd"): [0], (MUNMAP, "map"): [0]}
    summaries = {"owner_adts": owner_adts, "takes": takes}
    # tiny-std functions that take ownership of an Fd parameter on every path (computed once, one level)
    for p, fn in prog.fns.items():
        if fn["crate"] != "tiny_std" or fn["kind"] == "Closure":
            continue
        for ai in range(1, fn["argc"] + 1):
            if fn["locals"][ai]["ty"] != FD_TY:
                continue
            if param_owned_everywhere(prog, fn, ai, summaries):
                takes[(p, "fd")] = sorted(set(takes.get((p, "fd"), []) + [ai - 1]))
    ck.extra.setdefault("ownership_taking_functions", {})[ck.config] = sorted(f"{k[0]}#{v}" for k, v in takes.items())

    # secondary creators: tiny-std functions returning raw descriptors created inside
    secondary = {}
    n_sites = 0
    all_sites = []
    for rnd in range(2):
        cr_all = dict(creators)
        cr_all.update(secondary)
        for p, fn in sorted(prog.fns.items()):
            if not (fn["crate"] == "tiny_std" or p == "rusl::io_uring::setup_io_uring"):
                continue
            ctx = None
            for b in fn["blocks"]:
                t = b["term"]
                if t["k"] != "call" or b.get("cleanup"):
                    continue
                c = t.get("callee")
                if c in cr_all:
                    ctx = ctx or prog.ctx(fn)
                    if b["id"] not in ctx.cfg.live_blocks():
                        continue
                    if rnd == 0:
                        # does this function return the raw descriptor to its caller?
                        fl = Flow(prog, ctx, b["id"], c, summaries)
                        evs = fl.events()
                        if any(w.startswith("returned to the caller") for lst in evs.values() for _, _, w, _p in lst) and not returns_owner(prog, fn):
                            secondary[p] = ["returns raw descriptor from " + c.split("::")[-1]]
                    else:
                        all_sites.append((ctx, b["id"], c))
    cr_all = dict(creators)
    cr_all.update(secondary)
    ck.extra.setdefault("secondary_creators", {})[ck.config] = sorted(secondary)

    for ctx, bb, c in all_sites:
        n_sites += 1
        analyse_site(ck, prog, ctx, bb, c, summaries, "fd", "C12.1")
    ck.floor("C12.1", "creator call sites", n_sites, {"A": 22, "B": 22, "C": 18}.get(ck.config, 18))

    # ---- C12.2 ring mappings -----------------------------------------------------------------------------
    f = prog.fns.get("rusl::io_uring::setup_io_uring")
    if ck.anchor("C12.2", "setup_io_uring", f):
        ctx = prog.ctx(f)
        n = 0
        for bb, t in ctx.cfg.calls(lambda t: t.get("callee") == MMAP_CREATOR):
            n += 1
            analyse_site(ck, prog, ctx, bb, MMAP_CREATOR, summaries, "map", "C12.2")
        ck.floor("C12.2", "ring mmap sites", n, 3)

    # ---- C12.3 no adoption of a borrowed descriptor ------------------------------------------------------------
    n_own = 0
    for p, fn in sorted(prog.fns.items()):
        if fn["crate"] != "tiny_std":
            continue
        ctx = None
        for b in fn["blocks"]:
            if b.get("cleanup"):
                continue
            cands = []
            for i, s in enumerate(b["stmts"]):
                if s["k"] == "assign" and s["rv"]["k"] == "agg" and s["rv"].get("adt") == OWNED:
                    cands.append((i, s["rv"]["ops"][0], s["sp"]))
            t = b["term"]
            if t["k"] == "call" and t.get("callee") == OWNED + "::from_raw":
                cands.append((len(b["stmts"]), t["args"][0], t["sp"]))
            for i, o, sp in cands:
                ctx = ctx or prog.ctx(fn)
                if b["id"] not in ctx.cfg.live_blocks():
                    continue
                n_own += 1
                e = ctx.prov.operand(o, (b["id"], i))
                src, ok = adoption_source(prog, ctx, fn, e, cr_all)
                if not ok and fn["kind"] == "Closure" and src.startswith("safe-fn-parameter") and closure_fed_by_creator(prog, fn, cr_all):
                    src, ok = "created-by-the-mapped-call", True
                ck.ob("C12.3", f"{p}|{src}", ok, fn=p, site=span_str(sp),
                      detail=f"an OwnedFd is built from {show(e)} ({src}): the descriptor is not created here and not received through an unsafe contract, so a borrowed/Copy descriptor gets closed by this owner (and again by every other copy)")
    ck.floor("C12.3", "OwnedFd construction sites", n_own, 15 if ck.config != "C" else 10)

    # ---- C12.4 owners close once ---------------------------------------------------------------------------------------
    d = prog.fns.get(f"<{OWNED} as core::ops::drop::Drop>::drop")
    if ck.anchor("C12.4", "Drop for OwnedFd", d):
        ctx = prog.ctx(d)
        closes = [bb for bb, t in ctx.cfg.calls(lambda t: t.get("callee") == CLOSE)]
        ok = len(closes) == 1 and all(ctx.cfg.dominates(closes[0], rb) for rb in ctx.cfg.return_blocks()) and not ctx.cfg.in_cycle(closes[0])
        if ok:
            e = strip_casts(ctx.args(closes[0])[0])
            ok = isinstance(e, tuple) and e[0] == "field" and e[3] == OWNED
        ck.ob("C12.4", "ownedfd-drop-closes-field-once", ok, fn=d["path"], detail="Drop for OwnedFd must call close(self.0) exactly once on every path")
    bad = [i for i in prog.impls if i["self"].startswith(OWNED) and i.get("trait") in ("core::clone::Clone", "core::marker::Copy")]
    ck.ob("C12.4", "ownedfd-not-clone-copy", not bad, detail=f"OwnedFd must not be Clone/Copy: {[i['trait'] for i in bad]}")
    a = prog.adts.get(OWNED)
    if ck.anchor("C12.4", "OwnedFd", a):
        ck.ob("C12.4", "ownedfd-field-not-public", all("Public" not in f_["vis"] for v in a["variants"] for f_ in v["fields"]), detail="OwnedFd's descriptor field must not be public")
    ud = prog.fns.get("<rusl::platform::compat::io_uring::IoUring as core::ops::drop::Drop>::drop")
    if ck.anchor("C12.4", "Drop for IoUring", ud):
        ctx = prog.ctx(ud)
        closes = [bb for bb, t in ctx.cfg.calls(lambda t: t.get("callee") == CLOSE)]
        ok = len(closes) == 1 and all(ctx.cfg.dominates(closes[0], rb) for rb in ctx.cfg.return_blocks())
        ck.ob("C12.4", "iouring-drop-closes-fd-once", ok, fn=ud["path"], detail=f"Drop for IoUring must close the ring descriptor exactly once on every path (close calls: {len(closes)})")

    # ---- C12.5 explicit close never on an owned field ----------------------------------------------------------------------
    # accessors that lend out the raw descriptor of an owner reached through a reference parameter (as_raw_fd, ChildStdio::fd, ...)
    lenders = set()
    for p, fn in prog.fns.items():
        if fn["crate"] != "tiny_std" or fn["kind"] == "Closure" or p.endswith("::drop"):
            continue
        rt = fn["locals"][0]["ty"]
        if FD_TY not in rt:
            continue
        c = prog.ctx(fn)
        for rb, e in c.ret_expr().items():
            if mentions(e, c.prov, lambda x: x[0] == "field" and x[3] == OWNED) and mentions(e, c.prov, lambda x: x[0] == "param"):
                lenders.add(p)
    ck.extra.setdefault("lending_accessors", {})[ck.config] = sorted(lenders)
    n_close = 0
    for p, fn in sorted(prog.fns.items()):
        if fn["crate"] != "tiny_std":
            continue
        ctx = None
        for b in fn["blocks"]:
            t = b["term"]
            if t["k"] == "call" and t.get("callee") == CLOSE and not b.get("cleanup"):
                ctx = ctx or prog.ctx(fn)
                if b["id"] not in ctx.cfg.live_blocks():
                    continue
                n_close += 1
                e = ctx.args(b["id"])[0]
                owned = mentions(e, ctx.prov, lambda x: (x[0] == "field" and x[3] == OWNED) or (x[0] == "call" and x[1] in lenders))
                in_drop = p == f"<{OWNED} as core::ops::drop::Drop>::drop"
                ck.ob("C12.5", f"{p}|close({canon(e)})", (not owned) or in_drop, fn=p, site=ctx.site(b["id"]),
                      detail="rusl::unistd::close is applied to the descriptor of a live OwnedFd: it will be closed again when the owner drops")
    ck.floor("C12.5", "explicit close sites in tiny-std", n_close, 8)


def returns_owner(prog, fn):
    """The function's return type is (or wraps) an owning type -> descriptors inside are owned, not raw."""
    ret = fn["locals"][0]["ty"]
    owning = ("OwnedFd", "UnixStream", "UnixListener", "TcpStream", "TcpListener", "File", "Directory", "EpollDriver", "Child", "AnonPipe", "IoUring", "TcpStreamInProgress",
              "StdioPipes", "ChildPipes", "ReadDir")
    return any(o in ret for o in owning)


def param_owned_everywhere(prog, fn, ai, summaries):
    """Parameter local ai (an Fd) is moved into an owner or closed on every path to return."""
    ctx = prog.ctx(fn)
    cfg = ctx.cfg
    disposing = set()
    for b in fn["blocks"]:
        bid = b["id"]
        if bid not in cfg.live_blocks():
            continue
        for i, s in enumerate(b["stmts"]):
            if s["k"] == "assign" and s["rv"]["k"] == "agg" and s["rv"].get("adt") in summaries["owner_adts"]:
                for o in s["rv"]["ops"]:
                    e = ctx.prov.operand(o, (bid, i))
                    if isinstance(e, tuple) and e[0] == "param" and e[1] == ai:
                        disposing.add(bid)
        t = b["term"]
        if t["k"] == "call" and (t.get("callee"), "fd") in summaries["takes"]:
            for k in summaries["takes"][(t["callee"], "fd")]:
                if k < len(t["args"]):
                    e = ctx.prov.operand(t["args"][k], (bid, len(b["stmts"])))
                    if isinstance(e, tuple) and e[0] == "param" and e[1] == ai:
                        disposing.add(bid)
    if not disposing:
        return False
    r = cfg.reachable_from(0, avoid=disposing)
    return not any(rb in r for rb in cfg.return_blocks())


MAPPERS = ("Result::<T, E>::map", "Option::<T>::map", "Result::<T, E>::and_then", "Option::<T>::and_then")


def adopting_closure(prog, e, summaries, kind):
    """e is a closure value whose body moves its (only) argument into an owning type: `res.map(|fd| File(OwnedFd(fd)))`"""
    e = strip_casts(e)
    if not (isinstance(e, tuple) and e[0] == "agg" and isinstance(e[2], str) and "{closure#" in e[2]):
        return False
    f = prog.fns.get(e[2])
    if f is None or f["argc"] != 2:
        return False
    c = prog.ctx(f)
    owned = summaries["owner_adts"]
    for b in f["blocks"]:
        if b.get("cleanup"):
            continue
        for i, st in enumerate(b["stmts"]):
            if st["k"] == "assign" and st["rv"]["k"] == "agg" and st["rv"].get("adt") in owned and kind in owned[st["rv"]["adt"]]:
                if any(mentions(c.prov.operand(o, (b["id"], i)), c.prov, lambda z: z[0] == "param" and z[1] == 2) for o in st["rv"]["ops"]):
                    return True
        t = b["term"]
        if t["k"] == "call" and (t.get("callee"), kind) in summaries["takes"] and t.get("callee") not in (CLOSE, MUNMAP):
            if any(mentions(a, c.prov, lambda z: z[0] == "param" and z[1] == 2) for a in c.args(b["id"])):
                return True
    return False


def closure_fed_by_creator(prog, fn, creators):
    """fn is a closure used only as the mapper of `creator(..).map(closure)`: its argument is the descriptor just created"""
    cg = prog.callgraph()
    parents = sorted(cg.callers.get(fn["path"], ()))
    ok = False
    for q in parents:
        pc = prog.ctx(prog.fns[q])
        for bb, t in pc.cfg.calls(lambda t: (t.get("callee") or "").endswith(MAPPERS)):
            a = pc.args(bb)
            if len(a) == 2 and isinstance(strip_casts(a[1]), tuple) and strip_casts(a[1])[0] == "agg" and strip_casts(a[1])[2] == fn["path"]:
                if mentions(a[0], pc.prov, lambda x: x[0] == "call" and x[1] in creators):
                    ok = True
                else:
                    return False
    return ok


def adoption_source(prog, ctx, fn, e, creators):
    """Classify where the operand of an OwnedFd construction comes from."""
    e0 = strip_casts(e)
    # the operand is the raw descriptor read out of an existing owner: fine only if that owner was taken by value (see below);
    # read through a reference it makes a SECOND owner of the same descriptor, wherever the first one came from
    t0 = e0
    for _ in range(4):
        if isinstance(t0, tuple) and t0[0] == "var":
            ds = list(ctx.prov.expand(t0))
            if len(ds) == 1:
                t0 = strip_casts(ds[0])
                continue
        break
    if isinstance(t0, tuple) and t0[0] == "field" and t0[3] == OWNED and mentions(t0[1], ctx.prov, lambda z: z[0] == "deref") and not fn.get("unsafe"):
        return "from-a-borrowed-owner", False
    if mentions(e0, ctx.prov, lambda x: x[0] == "call" and (x[1] in creators)):
        return "created-here", True
    if mentions(e0, ctx.prov, lambda x: x[0] == "call" and (x[1] or "").startswith("tiny_std::") and "fd" not in (x[1] or "").split("::")[-1] and returns_fd_fresh(prog, x[1], creators)):
        return "created-by-callee", True
    if fn.get("unsafe"):
        if mentions(e0, ctx.prov, lambda x: x[0] == "param"):
            return "param-of-unsafe-fn", True
    # created by a closure handed to a helper that calls it (`sock_nonblock_op_poll_if_not_ready(.., |fd| accept(fd, ..))`)
    def closure_creates(x):
        if not (x[0] == "call" and (x[1] or "").startswith("tiny_std::")):
            return False
        for a in x[2]:
            a = strip_casts(a)
            if isinstance(a, tuple) and a[0] == "agg" and isinstance(a[2], str) and "{closure#" in a[2] and a[2] in prog.fns:
                cc = prog.ctx(prog.fns[a[2]])
                if any(mentions(r, cc.prov, lambda z: z[0] == "call" and z[1] in creators) for r in cc.ret_expr().values()):
                    return True
        return False
    if mentions(e0, ctx.prov, closure_creates):
        return "created-by-the-closure-a-callee-runs", True
    # destructured from another owner BY VALUE (into_raw / the field of an owner that was moved out): the operand is the owner's
    # field itself - not something merely computed from it - and the owner is not behind a reference (a borrowed owner still closes)
    def owner_field_by_value(x, depth=0):
        x = strip_casts(x)
        if not isinstance(x, tuple) or depth > 8:
            return False
        if x[0] == "field" and x[3] == OWNED:
            return not mentions(x[1], ctx.prov, lambda z: z[0] == "deref")
        if x[0] in ("field", "downcast"):
            return owner_field_by_value(x[1], depth + 1)
        if x[0] == "var":
            defs = list(ctx.prov.expand(x))
            return bool(defs) and all(owner_field_by_value(d, depth + 1) for d in defs)
        return False
    if owner_field_by_value(e0):
        return "from-another-owner", True
    if mentions(e0, ctx.prov, lambda x: x[0] == "field" and x[3] == OWNED) and not mentions(e0, ctx.prov, lambda x: x[0] == "call"):
        return "from-a-borrowed-owner", False
    if mentions(e0, ctx.prov, lambda x: x[0] == "param"):
        pn = [x[2] for x in walk_deep(e0, ctx.prov) if x[0] == "param"]
        return f"safe-fn-parameter:{pn[0]}", False
    return "unknown-source", False


def returns_fd_fresh(prog, callee, creators):
    f = prog.fns.get(callee)
    if f is None:
        return False
    ctx = prog.ctx(f)
    for rb, e in ctx.ret_expr().items():
        if mentions(e, ctx.prov, lambda x: x[0] == "call" and x[1] in creators):
            return True
    return False


def child_region(prog, ctx):
    """Blocks dominated by the `pid == 0` edge of a fork/clone result (a different process)."""
    cfg = ctx.cfg
    region = set()
    for sb in cfg.live_blocks():
        if cfg.term(sb)["k"] != "switch":
            continue
        for e in cfg.succ[sb]:
            for f in ctx.edge_facts(e):
                if f[0] == "cmp" and f[1] == "Eq":
                    for x, y in ((f[2], f[3]), (f[3], f[2])):
                        if const_value(y) == 0 and mentions(x, ctx.prov, lambda z: z[0] == "call" and ("::fork" in (z[1] or "") or "::clone" in (z[1] or ""))):
                            for b in cfg.live_blocks():
                                if cfg.edge_dominates(e, b):
                                    region.add(b)
    return region


def analyse_site(ck, prog, ctx, bb, creator, summaries, kind, rule):
    cfg = ctx.cfg
    fl = Flow(prog, ctx, bb, creator, summaries, kind)
    succ, fail = fl.success_edges()
    t = cfg.term(bb)
    short = creator.split("::")[-1]
    nth = [b for b, tt in ctx.cfg.calls(lambda tt: tt.get("callee") == creator)].index(bb)
    base = f"{ctx.path}|creator={short}#{nth}"
    if t["dst"]["l"] == 0 and not t["dst"].get("p"):
        ck.ob(rule, f"{base}|all-exits", True, fn=ctx.path, site=ctx.site(bb), detail="the creator's result is the function's result")
        return
    if not succ and not fail:
        starts = [t.get("t")] if t.get("t") is not None else []
    else:
        starts = [e.dst for e in succ]
    events = fl.events()
    exempt = child_region(prog, ctx)
    subs = {None}
    if creator.endswith("::pipe2") or creator.endswith("::pipe"):
        subs = {"in_pipe", "out_pipe"}
    if fl.ambiguous and len(subs) > 1:
        group_analysis(ck, rule, ctx, fl, base, starts, events, exempt, len(subs), short, kind, bb)
        return
    noun = "descriptor" if kind == "fd" else "mapping"
    for sub in sorted(subs, key=str):
        key = base + (f".{sub}" if sub else "")

        def evs_of(b):
            return sorted([ev for ev in events.get(b, []) if ev[1] in (sub, None) or sub is None], key=lambda ev: ev[0])

        doubles = []

        def transfer(b, st, record=False):
            for order, sb_, what, pol in evs_of(b):
                if pol > 0:
                    if st == "D" and record:
                        doubles.append((b, what))
                    st = "D"
                else:
                    st = "L"
            return st
        IN = {}
        work = [(s0, "L") for s0 in starts]
        while work:
            b, st = work.pop()
            if b in exempt or b in cfg.unreachable_blocks or b == bb:
                continue
            if st in IN.setdefault(b, set()):
                continue
            IN[b].add(st)
            out = transfer(b, st, record=True)
            for e in cfg.succ[b]:
                work.append((e.dst, out))
        Lin = {b for b, sts in IN.items() if "L" in sts}
        Lstop = {b for b in Lin if transfer(b, "L") != "L"}
        leaks = [rb for rb in cfg.return_blocks() if rb in Lin and rb not in Lstop]
        named = set()
        if leaks:
            err_edges = []
            for sb in Lin:
                if cfg.term(sb)["k"] != "switch" or sb in Lstop:
                    continue
                for e in cfg.succ[sb]:
                    if e.dst not in Lin:
                        continue
                    for f in ctx.edge_facts(e):
                        if f[0] == "variant" and f[2] in ("Break", "Err", "None"):
                            who = failing_callee(f[1])
                            r = reach_in(cfg, e.dst, Lin, Lstop)
                            if any(rb in r for rb in leaks):
                                err_edges.append((e, who))
            cut = {(e.src, e.dst) for e, _ in err_edges}
            cnt = {}
            for e, who in sorted(err_edges, key=lambda x: x[0].src):
                i = cnt.get(who, 0)
                cnt[who] = i + 1
                k2 = f"{key}|exit={who}#{i}"
                if k2 in named:
                    continue
                named.add(k2)
                path = cfg.find_path(starts[0] if starts else 0, lambda b_: b_ == e.src)
                ck.ob(rule, k2, False, fn=ctx.path, site=ctx.site(e.src),
                      detail=f"the {noun} created by {short} is still live (not owned, not closed, not returned) when the function exits because `{who}` failed",
                      path=cfg.render_path(path) if path else None)
            r = set()
            for s0 in starts:
                r |= reach_in(cfg, s0, Lin, Lstop, cut)
            still = [rb for rb in leaks if rb in r]
            if still:
                ck.ob(rule, f"{key}|exit=return", False, fn=ctx.path, site=ctx.site(still[0]),
                      detail=f"the {noun} created by {short} is still live when the function returns on a non-error path (leaked on every such call)")
        if not leaks:
            ck.ob(rule, f"{key}|all-exits", True, fn=ctx.path, site=ctx.site(bb), detail="disposed of exactly once on every exit")
        for db, what in doubles[:1]:
            ck.ob(rule, f"{key}|double-disposal", False, fn=ctx.path, site=ctx.site(db),
                  detail=f"the {noun} created by {short} is disposed of a second time here ({what}) on a path where it was already owned/closed: double close")


def reach_in(cfg, start, L, disp_blocks, cut=frozenset()):
    seen = set()
    work = [start]
    while work:
        b = work.pop()
        if b in seen or b not in L:
            continue
        seen.add(b)
        if b in disp_blocks:
            continue
        for e in cfg.succ[b]:
            if (e.src, e.dst) in cut:
                continue
            work.append(e.dst)
    return seen


def failing_callee(x):
    x = strip_casts(x)
    seen = 0
    while isinstance(x, tuple) and seen < 6:
        seen += 1
        if x[0] == "call":
            n = x[1] or "?"
            if n.endswith("Try::branch") and x[2]:
                x = strip_casts(x[2][0])
                continue
            if n.endswith("::map_err") and x[2]:
                x = strip_casts(x[2][0])
                continue
            return n.split("::")[-1]
        if x[0] in ("ref", "deref"):
            x = x[2] if x[0] == "ref" else x[1]
            continue
        if x[0] in ("field", "downcast"):
            x = x[1]
            continue
        break
    return "cond"


def group_analysis(ck, rule, ctx, fl, base, starts, events, exempt, n, short, kind, site_bb):
    """Fallback when a disposal cannot be attributed to one sub-resource (e.g. `(ours, theirs) = if r {(out,in)} else {(in,out)}`):
    every path from the success edge to a return must perform exactly n disposals in total."""
    cfg = ctx.cfg
    per_block = {}
    for b, evs in events.items():
        # events were recorded once per candidate sub; an ambiguous statement lists every sub: count distinct statements
        stmts = {}
        for order, sub, what, pol in evs:
            if pol > 0:
                stmts.setdefault(order, set()).add(sub)
        per_block[b] = len(stmts)
    counts = {}
    work = [(s, 0) for s in starts]
    while work:
        b, c = work.pop()
        if b in exempt or b in cfg.unreachable_blocks:
            continue
        if c in counts.setdefault(b, set()):
            continue
        counts[b].add(c)
        c2 = min(c + per_block.get(b, 0), n + 1)
        for e in cfg.succ[b]:
            work.append((e.dst, c2))
    leak = dbl = False
    for rb in cfg.return_blocks():
        for c in counts.get(rb, ()):
            c2 = c + per_block.get(rb, 0)
            if c2 < n:
                leak = True
            if c2 > n:
                dbl = True
    ck.ob(rule, base + "|group|all-exits", not leak, fn=ctx.path, site=ctx.site(site_bb),
          detail=f"{short} creates {n} descriptors; some exit is reached with fewer than {n} of them owned/closed/returned")
    ck.ob(rule, base + "|group|no-double", not dbl, fn=ctx.path, site=ctx.site(site_bb),
          detail=f"{short} creates {n} descriptors; some path disposes of more than {n}: double close")


def check_ring_setup_release(ck, prog, rule):
    """the failure edges of setup_io_uring release what was acquired: the ring descriptor and every mapping made so far are disposed of
    exactly once on every exit (the C12.1 / C12.2 typestate analysis, run on this one function under the caller's rule id - C18.3)"""
    f = prog.fns.get("rusl::io_uring::setup_io_uring")
    if not ck.anchor(rule, "setup_io_uring", f):
        return
    owner_adts = {}
    for p, fn in prog.fns.items():
        if fn.get("impl_trait") != "core::ops::drop::Drop" or not p.endswith("::drop"):
            continue
        adt = (fn.get("impl_self") or "").split("<")[0]
        kinds = set()
        for b in fn["blocks"]:
            t = b["term"]
            if t["k"] == "call" and not b.get("cleanup"):
                if t.get("callee") == CLOSE:
                    kinds.add("fd")
                if t.get("callee") == MUNMAP:
                    kinds.add("map")
        if kinds and adt in prog.adts:
            owner_adts[adt] = kinds
    summaries = {"owner_adts": owner_adts, "takes": {(CLOSE, "fd"): [0], (OWNED + "::from_raw", "fd"): [0], (MUNMAP, "map"): [0]}}
    ctx = prog.ctx(f)
    creators = find_creators(prog)
    n = 0
    for bb, t in ctx.cfg.calls(lambda t: t.get("callee") in creators):
        n += 1
        analyse_site(ck, prog, ctx, bb, t["callee"], summaries, "fd", rule)
    for bb, t in ctx.cfg.calls(lambda t: t.get("callee") == MMAP_CREATOR):
        n += 1
        analyse_site(ck, prog, ctx, bb, MMAP_CREATOR, summaries, "map", rule)
    ck.floor(rule, "resources acquired by set-up", n, 4)
