"""C07 — start-up: argv/env/aux delivered; exact-name env lookup; statics written once; vDSO clock id agreement."""
import re

from ..engine.prov import const_value, strip_casts, walk, walk_deep, show
from ..engine.dtable import canon
from ..engine.fold import fold
from ..engine import panics
from ..engine.cfg import span_str
from .c12 import mentions

CONFIGS_QUICK = ["A"]
CONFIGS_THOROUGH = ["A", "R", "X"]

EXPLANATION = (
    "Decided (static, MIR): C07.1 exact-name match: in env::var and env::var_unix the successful return is dominated by BOTH the '=' test on the entry byte at the matched length AND an equality between the matched length and the key's length "
    "(otherwise a key of which an entry's name is a proper prefix finds that entry); C07.2 raw reads in the prefix matchers stay inside a non-terminated slice (shared with C11.2); "
    "C07.3 the captured statics ENV, AUX_VALUES and VDSO_CLOCK_GET_TIME are written only in the entry point (and the vDSO initialiser it alone calls), before main is called; "
    "C07.4 stack-walk formulae in linear normal form: argv = sp + 8, envp = sp + 8*argc + 16, auxv = envp + 8*(n_env + 1), aux and dyn walks step by two words and read the value at key + 1; "
    "C07.5 aux key -> field table: each `AT_X =>` arm assigns the like-named field and the tiny-std getters read the like-named field; "
    "C07.6 nothing relocated is used before relocation: the call-graph closure of tiny_start::start::resolve contains no virtual call, no call through a function pointer, no read of a static, no call that lowers to a mem* symbol, and tiny-start is #![no_builtins]; "
    "C07.7 relocation arithmetic: REL adds the base to the word at base + r_offset, RELA stores base + r_addend, only entries whose type equals R_*_RELATIVE are touched, loop bounds are size / size_of(entry); "
    "C07.8 the vDSO call and the syscall fallback use the same clock id (MONOTONIC / REALTIME) and the fallback is taken exactly when the function pointer is None. "
    "C07.7 argument delivery: ArgsOs::next yields argv[ind] under ind < num_args and the null tests only (never depending on the argument's bytes), the slot is arg_v + ind and ind advances by one; env values are split at the first '='. "
    "C07.5 also: every AuxValues field holds a whole word and the id getters convert to at least 32 bits; C07.6 also: every call on the pre-relocation path goes to an #[inline(always)] function or an intrinsic (anything else is a call through the unrelocated GOT in an unoptimised static-PIE); C07.7 also: whichever method moves the argument cursor moves it relative to its position. "
    "C07.5 also: an aux getter consults nothing but its aux field. "
    "C07.4 also: strlen, which measures every argument and environment string, answers the index of the first byte compared equal to NUL, counting from 0 by 1 (no bound after which it gives up). NOT decided: the delivered values as observed in the three link modes (linker, loader, code generation), ELF/vDSO parsing against real images, numerical agreement of the clocks.")
ASSUMPTIONS = ["Linux process-entry stack layout (argc, argv[], NULL, envp[], NULL, auxv[])", "ELF64 Rel/Rela entry layout from linux_rust_bindings"]

ENV_STATIC = "tiny_std::env::ENV"
AUX_STATIC = "tiny_std::elf::aux::AUX_VALUES"
VDSO_STATIC = "tiny_std::elf::vdso::VDSO_CLOCK_GET_TIME"
PROXY = "tiny_std::start::__proxy_main"
RESOLVE = "tiny_start::start::resolve"
MEM_DENY = ("core::ptr::copy", "core::ptr::copy_nonoverlapping", "core::ptr::write_bytes", "core::intrinsics::copy", "core::intrinsics::write_bytes", "copy_from_slice", "::fill",
            "core::slice::<impl [T]>::clone_from_slice", "core::ptr::swap", "read_unaligned", "write_unaligned", "core::mem::swap", "core::mem::replace", "copy_to", "copy_from")


def run(ck, progs, tier):
    for cfgname, prog in progs.items():
        ck.set_config(prog)
        run_one(ck, prog)


def ptr_elem_size(ty):
    ty = ty.strip()
    m = re.match(r"^\*(?:const|mut) (.*)$", ty)
    if not m:
        return None
    inner = m.group(1)
    if inner in ("u8", "i8", "()"):
        return 1
    if inner in ("u16", "i16"):
        return 2
    if inner in ("u32", "i32"):
        return 4
    if inner.startswith("*") or inner in ("usize", "isize", "u64", "i64"):
        return 8
    return None


class Lin:
    """Linear normal form over symbolic terms: {term_string: coeff} + const."""

    def __init__(self, ctx):
        self.ctx = ctx

    def of(self, e, depth=0):
        e0 = e
        if not isinstance(e, tuple) or depth > 40:
            return None
        k = e[0]
        if k == "const":
            return ({}, e[1]) if isinstance(e[1], int) else None
        if k == "cast":
            inner = self.of(e[2], depth + 1)
            if inner is not None:
                self._ty = e[3]
            return inner
        if k == "bin":
            op = e[1]
            a, b = self.of(e[2], depth + 1), self.of(e[3], depth + 1)
            if a is None or b is None:
                return ({canon(e0): 1}, 0)
            if op == "Add":
                return self._add(a, b, 1)
            if op == "Sub":
                return self._add(a, b, -1)
            if op == "Mul":
                if not a[0]:
                    return ({t: c * a[1] for t, c in b[0].items()}, b[1] * a[1])
                if not b[0]:
                    return ({t: c * b[1] for t, c in a[0].items()}, a[1] * b[1])
            return ({canon(e0): 1}, 0)
        if k == "call":
            n = e[1] or ""
            if n.endswith(("_ptr::<impl *const T>::add", "_ptr::<impl *mut T>::add")) and len(e[2]) == 2:
                base = self.of(e[2][0], depth + 1)
                cnt = self.of(e[2][1], depth + 1)
                sz = self.elem_size_of(e[2][0])
                if base is None or cnt is None or sz is None:
                    return ({canon(e0): 1}, 0)
                return self._add(base, ({t: c * sz for t, c in cnt[0].items()}, cnt[1] * sz), 1)
            if n.endswith(("::cast", "::cast_mut", "::cast_const")) and e[2]:
                return self.of(e[2][0], depth + 1)
            if n.endswith("mem::size_of"):
                return ({}, 8) if "usize" in str(e) else ({canon(e0): 1}, 0)
            return ({canon(e0): 1}, 0)
        if k == "param":
            return ({f"p:{e[2]}": 1}, 0)
        if k == "var":
            return ({f"v:{e[2] or e[1]}": 1}, 0)
        if k in ("deref", "field", "place", "ref"):
            return ({canon(e0): 1}, 0)
        return ({canon(e0): 1}, 0)

    def elem_size_of(self, ptr_expr):
        """pointee size of a pointer-typed expression (through casts)."""
        e = ptr_expr
        while isinstance(e, tuple):
            if e[0] == "cast":
                s = ptr_elem_size(e[3])
                if s is not None:
                    return s
                e = e[2]
                continue
            if e[0] == "call" and (e[1] or "").endswith(("::cast", "::cast_mut", "::cast_const")):
                # generic arg unknown here: use the result local's type via the call's destination
                t = self.ctx.cfg.term(e[3])
                d = t["dst"]
                ty = self.ctx.prov.local_ty.get(d["l"], "") if not d.get("p") else ""
                return ptr_elem_size(ty)
            if e[0] == "call" and (e[1] or "").endswith("::add"):
                e = e[2][0]
                continue
            if e[0] == "param":
                return ptr_elem_size(self.ctx.prov.local_ty.get(e[1], ""))
            if e[0] == "var":
                return ptr_elem_size(self.ctx.prov.local_ty.get(e[1], ""))
            break
        return None

    @staticmethod
    def _add(a, b, sign):
        terms = dict(a[0])
        for t, c in b[0].items():
            terms[t] = terms.get(t, 0) + sign * c
            if terms[t] == 0:
                del terms[t]
        return (terms, a[1] + sign * b[1])


def static_writers(prog, static):
    """functions with an assignment through a pointer to the static (or taking &mut of it)."""
    out = set()
    for p, fn in prog.fns.items():
        ctx = None
        for b in fn["blocks"]:
            if b.get("cleanup"):
                continue
            for i, s in enumerate(b["stmts"]):
                if s["k"] != "assign":
                    continue
                d = s["dst"]
                if d.get("p") and d["p"][0]["k"] == "deref":
                    ctx = ctx or prog.ctx(fn)
                    if b["id"] not in ctx.cfg.live_blocks():
                        continue
                    e = ctx.prov.place({"l": d["l"]}, (b["id"], i))
                    if mentions(e, ctx.prov, lambda x: x[0] == "static" and x[1] == static):
                        out.add(p)
                rv = s["rv"]
                if rv["k"] in ("ref", "rawptr") and (rv["m"] is True or rv["m"] == "Mut") and rv["p"].get("p") and rv["p"]["p"][0]["k"] == "deref":
                    ctx = ctx or prog.ctx(fn)
                    e = ctx.prov.place({"l": rv["p"]["l"]}, (b["id"], i))
                    if mentions(e, ctx.prov, lambda x: x[0] == "static" and x[1] == static):
                        # a mutable borrow handed to someone else counts as a write unless it is only read
                        pass
    return out


def _feeds(fn, local):
    """locals that are moved/copied (whole) into `local` by plain assignments."""
    out = set()
    for b in fn["blocks"]:
        for s in b["stmts"]:
            if s["k"] == "assign" and s["dst"]["l"] == local and not s["dst"].get("p") and s["rv"]["k"] == "use" and s["rv"]["a"]["k"] in ("copy", "move") and not s["rv"]["a"]["p"].get("p"):
                out.add(s["rv"]["a"]["p"]["l"])
    return out


def run_one(ck, prog):
    cg = prog.callgraph()
    # C07.4 the strings handed over by the kernel are measured by strlen: the length it answers is the position of the first NUL
    # (a scan that gives up after some bound reports long arguments / values cut short)
    from .c10 import check_scanners
    check_scanners(ck, prog, "C07.4", names=(("rusl::string::strlen::strlen", False),))
    # ---- C07.1 exact-name match -------------------------------------------------------------------------------------
    for nm, matcher, keylen in (("tiny_std::env::var", "match_up_to_str", lambda e: canon(e) in ("len(p1)",)),
                                ("tiny_std::env::var_unix", "match_up_to", None)):
        fn = prog.fns.get(nm)
        if not ck.anchor("C07.1", nm, fn):
            continue
        ctx = prog.ctx(fn)
        cfg = ctx.cfg
        m = [bb for bb, t in cfg.calls(lambda t: (t.get("callee") or "").endswith("UnixStr::" + matcher))]
        ck.ob("C07.1", f"{nm}|anchor|matcher", len(m) == 1, fn=nm, detail=f"{matcher} call sites: {len(m)}")
        if len(m) != 1:
            continue
        oks = [b["id"] for b in fn["blocks"] if b["id"] in cfg.live_blocks() and not b.get("cleanup") and
               (any(s["k"] == "assign" and s["dst"]["l"] == 0 and s["rv"]["k"] == "agg" and s["rv"].get("variant") == "Ok" for s in b["stmts"]) or
                (b["term"]["k"] == "call" and b["term"]["dst"]["l"] == 0 and (b["term"].get("callee") or "").endswith("::map_err")))]
        ck.ob("C07.1", f"{nm}|anchor|success-return", len(oks) >= 1, fn=nm, detail="no successful return found")
        for ob in oks:
            facts = panics.dominating_facts(ctx, ob)
            eq_sign = False
            len_eq = False
            for f in facts:
                if f[0] == "cmp" and f[1] == "Eq":
                    for x, y in ((f[2], f[3]), (f[3], f[2])):
                        if fold(y) == 61 and mentions(x, ctx.prov, lambda z: z[0] == "call" and z[3] == m[0]):
                            eq_sign = True
                        xs = strip_casts(x)
                        if isinstance(xs, tuple) and xs[0] == "call" and xs[3] == m[0]:
                            # other side: the key's length (str::len(key)) or UnixStr len - 1
                            ys = strip_casts(y)
                            if mentions(ys, ctx.prov, lambda z: z[0] == "call" and (z[1] or "").endswith("::len") and z[2] and mentions(z[2][0], ctx.prov, lambda w: w[0] == "param" and w[1] == 1)):
                                if nm.endswith("var_unix"):
                                    len_eq = isinstance(ys, tuple) and ys[0] == "bin" and ys[1] == "Sub" and fold(ys[3]) == 1
                                else:
                                    len_eq = isinstance(ys, tuple) and ys[0] == "call"
            ck.ob("C07.1", f"{nm}|equals-sign-at-matched-length", eq_sign, fn=nm, site=ctx.site(ob), detail="the value may only be returned when the entry has '=' right after the matched prefix")
            ck.ob("C07.1", f"{nm}|matched-length-equals-key-length", len_eq, fn=nm, site=ctx.site(ob),
                  detail="the value is returned without checking that the WHOLE key was matched: the prefix matcher returns the common-prefix length, so the key `HOMEX` finds the entry `HOME=/root` (common prefix 4, entry[4] == '=')")

        # the dual: "missing" is decided only at the end of the environment (an is_null test on the cursor / the entry it reads),
        # never from a single entry that happened to share a prefix; and the scan visits the next entry (cursor + 1) otherwise
        miss = [b["id"] for b in fn["blocks"] if b["id"] in cfg.live_blocks() and not b.get("cleanup") and
                any(s["k"] == "assign" and s["rv"]["k"] == "agg" and s["rv"].get("variant") == "Missing" for s in b["stmts"])]
        ck.ob("C07.1", f"{nm}|anchor|missing-return", len(miss) >= 1, fn=nm, detail="no `VarError::Missing` result found")
        for k, mb in enumerate(miss):
            facts = panics.dominating_facts(ctx, mb)
            at_end = any(f[0] == "truth" and f[2] is True and isinstance(f[1], tuple) and f[1][0] == "call" and (f[1][1] or "").endswith("::is_null") for f in facts)
            after_match = cfg.dominates(m[0], mb)
            if not at_end:
                # several `break`s joining in front of one `Missing`: every way in passes an edge on which a pointer was found null
                null_edges = {(e.src, e.dst) for sb in cfg.live_blocks() if cfg.term(sb)["k"] == "switch" for e in cfg.succ[sb] for f in ctx.edge_facts(e)
                              if f[0] == "truth" and f[2] is True and isinstance(f[1], tuple) and f[1][0] == "call" and (f[1][1] or "").endswith("::is_null")}
                at_end = bool(null_edges) and mb not in cfg.reachable_from(0, avoid_edges=null_edges)
                after_match = mb in cfg.reachable_from(m[0], avoid_edges=null_edges)
            ck.ob("C07.1", f"{nm}|missing-only-at-end-of-environment|#{k}", at_end and not after_match, fn=nm, site=ctx.site(mb),
                  detail="`Missing` is returned from inside the scan (after looking at one entry) instead of only when the NULL entry is reached: a longer name sharing the key as prefix (HOMEDRIVE before HOME) hides the real variable")
        steps = []
        for b in fn["blocks"]:
            t = b["term"]
            if b["id"] in cfg.live_blocks() and cfg.in_cycle(b["id"]) and t["k"] == "call" and (t.get("callee") or "").endswith("const_ptr::<impl *const T>::add"):
                a = ctx.args(b["id"])
                a0 = strip_casts(a[0])
                # the cursor: a merged local of type *const *const u8 that receives the result of this very call
                if isinstance(a0, tuple) and a0[0] == "var" and "*const *const u8" in (ctx.prov.local_ty.get(a0[1], "") or "") and t["dst"]["l"] in _feeds(fn, a0[1]) | {a0[1]}:
                    steps.append((b["id"], fold(a[1]) if len(a) > 1 else None, a[0]))
        ok_step = len(steps) == 1 and steps[0][1] == 1
        ck.ob("C07.1", f"{nm}|scan-steps-one-entry", ok_step, fn=nm, detail=f"the environment cursor must advance by exactly one entry per round; steps found {[(b, c) for b, c, _ in steps]}")

    # ---- C07.7 argument delivery: every argv[i], i < argc, is yielded whatever it contains ---------------------------------------
    an = [f for p2, f in prog.fns.items() if p2.startswith("<tiny_std::env::ArgsOs as core::iter::traits::iterator::Iterator>::next")]
    if ck.anchor("C07.7", "ArgsOs::next", an):
        c7 = prog.ctx(an[0])
        somes = [b["id"] for b in an[0]["blocks"] if b["id"] in c7.cfg.live_blocks() and not b.get("cleanup") and
                 any(st["k"] == "assign" and st["dst"]["l"] == 0 and st["rv"]["k"] == "agg" and st["rv"].get("variant") == "Some" for st in b["stmts"])]
        ck.ob("C07.7", "anchor|one-yield", len(somes) == 1, fn=an[0]["path"], detail=f"Some(..) returns: {len(somes)}")
        for sb in somes:
            extra = []
            bound = False
            for f in panics.dominating_facts(c7, sb):
                if f[0] == "cmp" and f[1] in ("Lt", "Gt") and {"ind", "num_args"} <= {y[2] for x in (f[2], f[3]) for y in walk_deep(x, c7.prov) if y[0] == "field"}:
                    bound = True
                    continue
                if f[0] == "truth" and f[2] is False and isinstance(f[1], tuple) and f[1][0] == "call" and (f[1][1] or "").endswith("::is_null"):
                    continue
                extra.append(f)
            ck.ob("C07.7", "yield-under-index-bound", bound, fn=an[0]["path"], site=c7.site(sb), detail="an argument may only be produced under ind < num_args")
            ck.ob("C07.7", "yield-does-not-depend-on-argument-contents", not extra, fn=an[0]["path"], site=c7.site(sb),
                  detail=f"whether argv[i] is delivered depends on more than the index bound and the null tests: {[(show(f[1])[:80], f[2]) if f[0] == 'truth' else (f[1], show(f[2])[:60], show(f[3])[:60]) for f in extra]} - e.g. an empty-string argument would end the iteration early")
        # the slot read is argv + ind and ind advances by one
        adds = [bb for bb, t in c7.cfg.calls(lambda t: (t.get("callee") or "").endswith("const_ptr::<impl *const T>::add"))]
        slot_ok = len(adds) == 1 and mentions(c7.args(adds[0])[0], c7.prov, lambda z: z[0] == "field" and z[2] == "arg_v") and mentions(c7.args(adds[0])[1], c7.prov, lambda z: z[0] == "field" and z[2] == "ind") and not mentions(c7.args(adds[0])[1], c7.prov, lambda z: z[0] == "bin")
        ck.ob("C07.7", "slot-is-argv-plus-index", slot_ok, fn=an[0]["path"], detail="the argument slot must be ENV.arg_v.add(self.ind)")
        steps = []
        for b in an[0]["blocks"]:
            for i, st in enumerate(b["stmts"]):
                if st["k"] == "assign" and st["dst"].get("p") and st["dst"]["p"][-1]["k"] == "field" and st["dst"]["p"][-1].get("n") == "ind":
                    steps.append(c7.prov.rvalue(st["rv"], (b["id"], i)))
        ck.ob("C07.7", "index-advances-by-one", len(steps) == 1 and isinstance(strip_casts(steps[0]), tuple) and strip_casts(steps[0])[0] == "bin" and strip_casts(steps[0])[1] == "Add" and fold(strip_casts(steps[0])[3]) == 1, fn=an[0]["path"], detail=f"index updates: {[show(x) for x in steps]}")
    # whichever method moves the cursor moves it relative to where it stands (an overridden nth/advance_by that sets it would hand out
    # arguments that were already delivered, or skip from the front instead of from the cursor)
    n_moves = 0
    for p2, f2 in prog.fns.items():
        if "tiny_std::env::Args" not in p2:
            continue
        cx = prog.ctx(f2)
        for b in f2["blocks"]:
            if b["id"] not in cx.cfg.live_blocks() or b.get("cleanup"):
                continue
            for i, st in enumerate(b["stmts"]):
                if st["k"] == "assign" and st["dst"].get("p") and st["dst"]["p"][-1]["k"] == "field" and st["dst"]["p"][-1].get("n") == "ind":
                    n_moves += 1
                    e = strip_casts(cx.prov.rvalue(st["rv"], (b["id"], i)))
                    while isinstance(e, tuple) and e and e[0] == "field" and isinstance(e[1], tuple) and e[1][0] == "bin" and e[1][1].endswith("WithOverflow"):
                        e = e[1]
                    rel = isinstance(e, tuple) and e[0] == "bin" and e[1] in ("Add", "AddWithOverflow") and any(mentions(x, cx.prov, lambda z: z[0] == "field" and z[2] == "ind") for x in (e[2], e[3]))
                    rel = rel or (isinstance(e, tuple) and e[0] == "call" and (e[1] or "").endswith(("::saturating_add", "::wrapping_add", "::min")) and mentions(e, cx.prov, lambda z: z[0] == "field" and z[2] == "ind"))
                    ck.ob("C07.7", f"cursor-moves-relative|{p2.split('::')[-1]}|{n_moves}", rel, fn=p2, site=span_str(st["sp"]), detail=f"the argument cursor is set to {show(e)[:100]}; it may only be advanced from its current position")
    ck.floor("C07.7", "cursor updates", n_moves, 1)
    # the value of a variable starts right after the FIRST '=' following the matched name (values may contain '=')
    for nm in ("tiny_std::env::var", "tiny_std::env::var_unix"):
        fn = prog.fns.get(nm)
        if fn is None:
            continue
        c8 = prog.ctx(fn)
        rev = [t.get("callee") for _, t in c8.cfg.calls(lambda t: any(x in (t.get("callee") or "") + (t.get("resolved") or "") for x in ("rposition", "rfind", "rsplit", "next_back", "::rev")))]
        ck.ob("C07.1", f"{nm}|value-split-at-first-equals", not rev, fn=nm, detail=f"the entry is searched from the back ({rev}): a value containing '=' (KV=a=b) would be split at the wrong place and reported missing")

    # ---- C07.3 write-once statics ----------------------------------------------------------------------------------------
    pm = prog.fns.get(PROXY)
    if ck.anchor("C07.3", "__proxy_main", pm):
        ctx = prog.ctx(pm)
        mains = [bb for bb, t in ctx.cfg.calls(lambda t: (t.get("callee") or "").endswith("start::main"))]
        ck.ob("C07.3", "anchor|call of main", len(mains) == 1, fn=PROXY, detail=f"calls of the user's main: {len(mains)}")
        for st, allowed in ((ENV_STATIC, {PROXY}), (AUX_STATIC, {PROXY}), (VDSO_STATIC, {"tiny_std::elf::vdso::init_vdso_get_time"})):
            if st not in prog.statics:
                ck.anchor("C07.3", st, None)
                continue
            w = static_writers(prog, st)
            ck.ob("C07.3", f"writers|{st.split('::')[-1]}", w and w <= allowed, detail=f"writers of {st}: {sorted(w)}; allowed {sorted(allowed)}")
            for a in allowed - {PROXY}:
                ck.ob("C07.3", f"initialiser-callers|{a.split('::')[-1]}", cg.callers.get(a, set()) == {PROXY}, detail=f"{a} must be called only from the entry point; callers {sorted(cg.callers.get(a, set()))}")
        if mains:
            # all writes (and the initialiser call) dominate the call of main: no static-writing block is reachable from main's return
            after = ctx.cfg.reachable_from(ctx.cfg.term(mains[0]).get("t")) if ctx.cfg.term(mains[0]).get("t") is not None else set()
            late = []
            for b in pm["blocks"]:
                if b["id"] not in ctx.cfg.live_blocks():
                    continue
                writes_here = False
                for i, s in enumerate(b["stmts"]):
                    if s["k"] == "assign" and s["dst"].get("p") and s["dst"]["p"][0]["k"] == "deref":
                        e = ctx.prov.place({"l": s["dst"]["l"]}, (b["id"], i))
                        if mentions(e, ctx.prov, lambda x: x[0] == "static"):
                            writes_here = True
                t = b["term"]
                if t["k"] == "call" and (t.get("callee") or "").endswith("init_vdso_get_time"):
                    writes_here = True
                if writes_here and not ctx.cfg.dominates(b["id"], mains[0]):
                    late.append(b["id"])
            ck.ob("C07.3", "statics-written-before-main", not late, fn=PROXY, detail=f"a captured static is written on a path that does not precede the call of main (blocks {late})")

    # ---- C07.4 stack-walk formulae ------------------------------------------------------------------------------------------
    rs = prog.fns.get(RESOLVE)
    if ck.anchor("C07.4", "tiny_start::start::resolve", rs):
        ctx = prog.ctx(rs)
        lin = Lin(ctx)
        envs = []
        for b in rs["blocks"]:
            for i, s in enumerate(b["stmts"]):
                if s["k"] == "assign" and s["rv"]["k"] == "agg" and (s["rv"].get("adt") or "").endswith("start::Env"):
                    envs.append((b["id"], i, s["rv"]))
        ck.ob("C07.4", "anchor|Env aggregate", len(envs) == 1, fn=RESOLVE, detail=f"Env aggregates built: {len(envs)}")
        if envs:
            bb, i, rv = envs[0]
            vals = dict(zip(rv["fields"], [ctx.prov.operand(o, (bb, i)) for o in rv["ops"]]))
            argc = vals.get("arg_c")
            argc_c = canon(strip_casts(argc)) if argc is not None else None
            la = lin.of(vals.get("arg_v")) if vals.get("arg_v") is not None else None
            le = lin.of(vals.get("env_p")) if vals.get("env_p") is not None else None
            ok_c = argc is not None and isinstance(strip_casts(argc), tuple) and strip_casts(argc)[0] == "deref"
            ck.ob("C07.4", "argc=*sp", ok_c and mentions(argc, ctx.prov, lambda z: z[0] == "param" and z[1] == 1), fn=RESOLVE, detail=f"argc must be the word at the stack pointer, found {show(argc)}")
            ck.ob("C07.4", "argv=sp+8", la == ({"p:stack_ptr": 1}, 8), fn=RESOLVE, detail=f"argv must be sp + 8; normal form {la}")
            want_e = ({"p:stack_ptr": 1, argc_c: 8}, 16) if argc_c else None
            ck.ob("C07.4", "envp=sp+8*argc+16", le is not None and le == want_e, fn=RESOLVE, detail=f"envp must be sp + 8*argc + 16 (argv, its entries and its NULL); normal form {le}")
            # auxv = envp + 8*(n_env + 1)
            av = [bb2 for bb2, t in ctx.cfg.calls(lambda t: (t.get("callee") or "").endswith("AuxValues::from_auxv"))]
            ck.ob("C07.4", "anchor|from_auxv call", len(av) == 1, fn=RESOLVE, detail=f"from_auxv calls: {len(av)}")
            if av and le is not None:
                lav = lin.of(ctx.args(av[0])[0])
                ok = False
                if lav is not None:
                    diff_terms = {t: c for t, c in lav[0].items() if le[0].get(t) != c}
                    ok = lav[1] - le[1] == 8 and len(diff_terms) == 1 and list(diff_terms.values()) == [8] and all(t in lav[0] for t in le[0])
                if not ok and lav is not None and lav[1] == 8 and len(lav[0]) == 1 and list(lav[0].values()) == [1] and list(lav[0])[0].startswith("v:"):
                    # the walk as a moving pointer: the cursor starts at envp, every other definition moves it one word on, and the aux vector
                    # starts one word after the place where it stopped
                    cur = None
                    for z in walk_deep(ctx.args(av[0])[0], ctx.prov, limit=60):
                        if z[0] == "var" and "v:" + str(z[2]) == list(lav[0])[0]:
                            cur = z
                            break
                    if cur is not None:
                        defs = [lin.of(d) for d in ctx.prov.expand(cur)]
                        starts = [d for d in defs if d == le]
                        steps = [d for d in defs if d is not None and d == ({list(lav[0])[0]: 1}, 8)]
                        ok = len(defs) >= 2 and len(starts) == 1 and len(starts) + len(steps) == len(defs)
                ck.ob("C07.4", "auxv=envp+8*(n_env+1)", ok, fn=RESOLVE, detail=f"auxv must start one word after envp's NULL entry: envp + 8*n_env + 8; normal forms auxv={lav} envp={le}")
                # the walk stops at the null entry
                zero_tests = [f for sb in ctx.cfg.live_blocks() if ctx.cfg.term(sb)["k"] == "switch" for e in ctx.cfg.succ[sb] for f in ctx.edge_facts(e) if f[0] == "cmp" and f[1] == "Eq" and 0 in (fold(f[2]), fold(f[3]))]
                ck.ob("C07.4", "env-walk-stops-at-null", bool(zero_tests), fn=RESOLVE, detail="the environment walk must stop at the NULL entry")
    fa = [f for p, f in prog.fns.items() if p.endswith("AuxValues::from_auxv")]
    if ck.anchor("C07.5", "from_auxv", fa):
        check_aux_table(ck, prog, fa[0])

    # getters read the like-named field
    for g, fld in (("get_uid", "at_uid"), ("get_gid", "at_gid"), ("get_random", "at_random"), ("get_exec_fn", "at_execfn")):
        fn = prog.fns.get("tiny_std::elf::aux::" + g)
        if fn is None:
            continue
        ctx = prog.ctx(fn)
        fields = set()
        for b in fn["blocks"]:
            for i, s in enumerate(b["stmts"]):
                if s["k"] == "assign":
                    e = ctx.prov.rvalue(s["rv"], (b["id"], i))
                    for x in walk(e):
                        if x[0] == "field" and (x[3] or "").endswith("AuxValues"):
                            fields.add(x[2])
        ck.ob("C07.5", f"getter|{g}", fields == {fld}, fn=fn["path"], detail=f"{g} reads fields {sorted(fields)}; must read {fld}")
        # what a getter hands out comes from the aux vector alone (argv[0] is what the caller of execve chose to say, AT_EXECFN what was executed)
        foreign = sorted({t.get("callee") for _, t in ctx.cfg.calls() if (t.get("callee") or "").startswith("tiny_std::")})
        ck.ob("C07.5", f"getter-source|{g}", not foreign, fn=fn["path"], detail=f"{g} consults {foreign}: an aux getter must deliver the kernel's aux value, nothing else")
        casts = sorted({s["rv"]["ty"] for b in fn["blocks"] for s in b["stmts"] if s["k"] == "assign" and s["rv"]["k"] == "cast" and s["rv"]["ck"] == "IntToInt"})
        ck.ob("C07.5", f"getter-width|{g}", all(c in ("u32", "u64", "usize", "i64", "u128") for c in casts), fn=fn["path"], detail=f"{g} converts the aux word to {casts}; ids are 32-bit values, a narrower type truncates them")

    # ---- C07.6 nothing relocated before relocation ------------------------------------------------------------------------------------
    if rs is not None:
        closure = cg.reach([RESOLVE])
        local = sorted(p for p in closure if p in prog.fns and prog.fns[p]["crate"] == "tiny_start")
        ck.floor("C07.6", "pre-relocation functions", len(local), 5)
        inline_always = 0
        for p in local:
            fn = prog.fns[p]
            if fn.get("inline") == "Always":
                inline_always += 1
            ctx = prog.ctx(fn)
            for bb, t in ctx.cfg.calls():
                c = t.get("callee")
                if c is None:
                    ck.ob("C07.6", f"{p}|indirect-call", False, fn=p, site=ctx.site(bb), detail="a call through a function pointer / dyn before relocation: its target address has not been relocated yet in a static-PIE")
                elif t.get("resolved_kind") == "virtual" or (t.get("trait_method") and not t.get("resolved") and not c.startswith("core::")):
                    ck.ob("C07.6", f"{p}|virtual-call|{c}", False, fn=p, site=ctx.site(bb), detail="a virtual/unresolved trait call before relocation (vtables hold unrelocated addresses)")
                elif t.get("callee_inline") not in ("Always", "Intrinsic") and t.get("const_result") is None and not ((t.get("resolved") or c) in prog.fns and prog.fns[t.get("resolved") or c].get("inline") == "Always"):
                    # in an unoptimised build such a callee is a separate function; position-independent x86_64 code reaches a function of
                    # another codegen unit through the GOT, whose slots hold unrelocated addresses in a static-PIE at this point
                    ck.ob("C07.6", f"{p}|out-of-line-call|{t.get('resolved') or c}", False, fn=p, site=ctx.site(bb),
                          detail=f"`{t.get('resolved') or c}` (inline: {t.get('callee_inline')}) is called before relocation; only #[inline(always)] functions and intrinsics are guaranteed to need no relocated address in every build mode")
                elif any(c == d or c.endswith(d) for d in MEM_DENY):
                    ck.ob("C07.6", f"{p}|mem-call|{c}", False, fn=p, site=ctx.site(bb), detail=f"`{c}` lowers to a mem* symbol call before symbols are relocated")
            for b in fn["blocks"]:
                for i, s in enumerate(b["stmts"]):
                    if s["k"] != "assign":
                        continue
                    e = ctx.prov.rvalue(s["rv"], (b["id"], i))
                    for x in walk(e):
                        if x[0] == "static":
                            ck.ob("C07.6", f"{p}|static-read|{x[1]}", False, fn=p, detail="a static is accessed before relocation")
                        if x[0] == "cast" and "Unsize" in str(x[1]) and "dyn " in str(x[3]):
                            ck.ob("C07.6", f"{p}|unsize-to-dyn", False, fn=p, detail="a trait object is created before relocation")
        ck.ob("C07.6", "closure-clean", True, detail=f"{len(local)} functions in the pre-relocation closure checked")
        ck.ob("C07.6", "pre-relocation-functions-inlined", inline_always == len(local), detail=f"{inline_always} of {len(local)} pre-relocation functions are #[inline(always)]; one that is not is reached by a call through the (unrelocated) GOT in an unoptimised static-PIE")
        attrs = prog.crate_attrs("tiny_start") if "tiny_start" in prog.crates else []
        ck.ob("C07.6", "tiny-start-no-builtins", any("NoBuiltins" in a for a in attrs), detail="tiny-start must carry #![no_builtins]")

    # ---- C07.7 relocation arithmetic -----------------------------------------------------------------------------------------------------
    rel = [f for p, f in prog.fns.items() if p.endswith("DynSection::relocate")]
    if ck.anchor("C07.7", "DynSection::relocate", rel):
        check_relocate(ck, prog, rel[0])

    # ---- C07.8 clock ids --------------------------------------------------------------------------------------------------------------------
    for g, want, fb in (("get_monotonic_time", "CLOCK_MONOTONIC", "clock_get_monotonic_time"), ("get_real_time", "CLOCK_REALTIME", "clock_get_real_time")):
        fn = prog.fns.get("tiny_std::time::" + g)
        if not ck.anchor("C07.8", g, fn):
            continue
        ctx = prog.ctx(fn)
        ind = [bb for bb, t in ctx.cfg.calls(lambda t: t.get("callee") is None)]
        fbs = [bb for bb, t in ctx.cfg.calls(lambda t: (t.get("callee") or "").endswith(fb))]
        ck.ob("C07.8", f"{g}|shape", len(ind) == 1 and len(fbs) == 1, fn=fn["path"], detail=f"vDSO calls {len(ind)}, syscall fallbacks {len(fbs)}")
        if ind:
            a = ctx.args(ind[0])
            cid = None
            for x in walk_deep(a[0], ctx.prov):
                if x[0] == "const" and x[2] and "ClockId::" in x[2]:
                    cid = x[2].split("::")[-1]
            ck.ob("C07.8", f"{g}|vdso-clock-id", cid == want, fn=fn["path"], site=ctx.site(ind[0]), detail=f"the vDSO function is called with {cid}; {g} must use {want}")
            # the indirect call is dominated by Some edge of the static's value; fallback by None
            facts = panics.dominating_facts(ctx, ind[0])
            ck.ob("C07.8", f"{g}|vdso-only-when-present", any(f[0] == "variant" and f[2] == "Some" for f in facts), fn=fn["path"], detail="the vDSO pointer must only be called when it is Some")
        fbf = prog.fns.get("rusl::time::clock_get_time::" + fb)
        if fbf is not None:
            c2 = prog.ctx(fbf)
            ids = set()
            for bb, t in c2.cfg.calls():
                for x in c2.args(bb):
                    for y in walk_deep(x, c2.prov):
                        if y[0] == "const" and y[2] and "ClockId::" in y[2]:
                            ids.add(y[2].split("::")[-1])
            ck.ob("C07.8", f"{g}|fallback-clock-id", ids == {want}, fn=fbf["path"], detail=f"the syscall fallback uses {sorted(ids)}; must be {want}")


AT_ABI = {3: "phdr", 4: "phent", 5: "phnum", 6: "pagesz", 7: "base", 9: "entry", 11: "uid", 12: "euid", 13: "gid", 14: "egid", 16: "hwcap", 17: "clktck",
          23: "secure", 25: "random", 26: "hwcap2", 31: "execfn", 33: "sysinfo_ehdr"}   # Linux auxv keys (uapi/linux/auxvec.h), kernel ABI


def check_aux_table(ck, prog, fn):
    ctx = prog.ctx(fn)
    n = 0
    for b in fn["blocks"]:
        t = b["term"]
        if t["k"] != "switch" or b["id"] not in ctx.cfg.live_blocks() or len(t["targets"]) < 5:
            continue
        for v, tgt in t["targets"]:
            name = AT_ABI.get(v)
            # follow the straight-line chain from the arm's block to its assignment
            assigned = set()
            rhs_ok = False
            last_rhs = None
            cur = tgt
            for _ in range(16):
                blk = ctx.cfg.block(cur)
                for i, s in enumerate(blk["stmts"]):
                    if s["k"] == "assign" and s["dst"].get("p"):
                        for pe in s["dst"]["p"]:
                            if pe["k"] == "field" and (pe.get("adt") or "").endswith("AuxValues"):
                                assigned.add(pe["n"])
                                e = ctx.prov.rvalue(s["rv"], (cur, i))
                                last_rhs = e
                                for x in walk_deep(e, ctx.prov):
                                    if x[0] == "call" and (x[1] or "").endswith("::add") and len(x[2]) == 2:
                                        idx = strip_casts(x[2][1])
                                        if isinstance(idx, tuple) and idx[0] == "bin" and idx[1] == "Add" and fold(idx[3]) == 1:
                                            rhs_ok = True
                succ = ctx.cfg.succ[cur]
                if assigned or len(succ) != 1:
                    break
                cur = succ[0].dst
            if not rhs_ok and assigned:
                # the pair through a moving pointer: key = *entry, value = *entry.add(1) - the value's address is one word past the key's
                lin = Lin(ctx)
                kd = strip_casts(ctx.prov.operand(t["discr"], (b["id"], len(b["stmts"]))))
                kaddr = next((z[1] for z in walk_deep(kd, ctx.prov, limit=40) if z[0] == "deref"), None)
                vaddr = next((z[1] for z in walk_deep(last_rhs, ctx.prov, limit=40) if z[0] == "deref"), None) if last_rhs is not None else None
                if kaddr is not None and vaddr is not None:
                    lk, lv = lin.of(kaddr), lin.of(vaddr)
                    rhs_ok = lk is not None and lv is not None and lk[0] == lv[0] and lv[1] - lk[1] == 8
            n += 1
            ck.ob("C07.5", f"aux-arm|AT_{(name or str(v)).upper()}", name is not None and assigned == {"at_" + name}, fn=fn["path"],
                  detail=f"the arm for aux key {v} (AT_{(name or '?').upper()}) assigns {sorted(assigned)}; must assign at_{name}")
            ck.ob("C07.5", f"aux-arm-value|AT_{(name or str(v)).upper()}", rhs_ok, fn=fn["path"], detail="the value must be read at key index + 1")
    ck.floor("C07.5", "aux arms", n, 10)
    # the values are kept whole: the kernel passes words (a uid may be any 32-bit value), every field holds a word
    adt = next((a for p2, a in prog.adts.items() if p2.endswith("elf::aux::AuxValues") and "tiny_start" in p2), None)
    if ck.anchor("C07.5", "AuxValues", adt):
        narrow = [f"{f['name']}: {f['ty']}" for v in adt["variants"] for f in v["fields"] if f["ty"] not in ("usize", "u64")]
        ck.ob("C07.5", "aux-fields-hold-whole-words", not narrow, fn=fn["path"], detail=f"aux values are machine words; narrower fields truncate them (uid/gid above 65535): {narrow}")
    # step by two words
    step = False
    for b in fn["blocks"]:
        for i, s in enumerate(b["stmts"]):
            if s["k"] == "assign" and s["rv"]["k"] == "binop" and s["rv"]["op"].startswith("Add"):
                e = ctx.prov.rvalue(s["rv"], (b["id"], i))
                if isinstance(e, tuple) and e[0] == "bin" and fold(e[3]) == 2:
                    step = True
    if not step:
        # pointer form: entry = entry.add(2) on a cursor of words
        for bb, t2 in ctx.cfg.calls(lambda t2: (t2.get("callee") or "").endswith(("_ptr::<impl *const T>::add", "_ptr::<impl *mut T>::add"))):
            a = ctx.args(bb)
            a0 = strip_casts(a[0])
            if len(a) == 2 and fold(a[1]) == 2 and isinstance(a0, tuple) and a0[0] == "var" and ctx.cfg.in_cycle(bb) and t2["dst"]["l"] in _feeds(fn, a0[1]) | {a0[1]}:
                step = True
    ck.ob("C07.5", "aux-walk-steps-two-words", step, fn=fn["path"], detail="the aux vector walk must advance by 2 words per entry (key, value)")


def check_relocate(ck, prog, fn):
    ctx = prog.ctx(fn)
    # stores through computed addresses
    stores = []
    for b in fn["blocks"]:
        if b["id"] not in ctx.cfg.live_blocks():
            continue
        for i, s in enumerate(b["stmts"]):
            if s["k"] == "assign" and s["dst"].get("p") and s["dst"]["p"][0]["k"] == "deref" and len(s["dst"]["p"]) == 1:
                addr = ctx.prov.place({"l": s["dst"]["l"]}, (b["id"], i))
                val = ctx.prov.rvalue(s["rv"], (b["id"], i))
                stores.append((b["id"], addr, val))
    ck.ob("C07.7", "two-relocation-stores", len(stores) == 2, fn=fn["path"], detail=f"stores through computed addresses in relocate: {len(stores)} (REL and RELA)")
    kinds = set()
    for bb, addr, val in stores:
        a = strip_casts(addr)
        v = strip_casts(val)
        addr_ok = isinstance(a, tuple) and a[0] == "bin" and a[1] == "Add" and any(isinstance(strip_casts(x), tuple) and strip_casts(x)[0] == "param" for x in (a[2], a[3])) and \
            any(mentions(x, ctx.prov, lambda z: z[0] == "field" and z[2] == "r_offset") for x in (a[2], a[3]))
        ck.ob("C07.7", f"store-address|bb-kind-{len(kinds)}", addr_ok, fn=fn["path"], site=ctx.site(bb), detail=f"relocation target must be base + r_offset, found {show(addr)}")
        if isinstance(v, tuple) and v[0] == "bin" and v[1] == "Add":
            sides = [strip_casts(v[2]), strip_casts(v[3])]
            has_base = any(isinstance(x, tuple) and x[0] == "param" for x in sides)
            if any(mentions(x, ctx.prov, lambda z: z[0] == "field" and z[2] == "r_addend") for x in sides) and has_base:
                kinds.add("rela")
            elif any(isinstance(x, tuple) and x[0] == "deref" for x in sides) and has_base:
                kinds.add("rel")
        # guarded by the RELATIVE type test
        facts = panics.dominating_facts(ctx, bb)
        guarded = any(f[0] == "cmp" and f[1] == "Eq" and any(mentions(x, ctx.prov, lambda z: z[0] == "field" and z[2] == "r_info") for x in (f[2], f[3])) and
                      any(mentions(x, ctx.prov, lambda z: z[0] == "call" and (z[1] or "").endswith("relative_type")) for x in (f[2], f[3])) for f in facts)
        ck.ob("C07.7", f"store-guarded-by-relative-type|{len(kinds)}", guarded, fn=fn["path"], site=ctx.site(bb), detail="only R_*_RELATIVE entries may be applied")
    ck.ob("C07.7", "rel-adds-base/rela-stores-base+addend", kinds == {"rel", "rela"}, fn=fn["path"], detail=f"recognised store kinds {sorted(kinds)}: REL must add the base to the existing word, RELA must store base + r_addend")
    # loop bounds: size / size_of(entry)
    divs = 0
    for b in fn["blocks"]:
        for i, s in enumerate(b["stmts"]):
            if s["k"] == "assign" and s["rv"]["k"] == "binop" and s["rv"]["op"] == "Div":
                e = ctx.prov.rvalue(s["rv"], (b["id"], i))
                szs = {"rel_sz": 16, "rela_sz": 24}
                for fld, sz in szs.items():
                    if mentions(e[2], ctx.prov, lambda z: z[0] == "field" and z[2] == fld) and fold(e[3]) == sz:
                        divs += 1
    ck.ob("C07.7", "loop-bounds", divs == 2, fn=fn["path"], detail=f"entry counts must be rel_sz/16 and rela_sz/24; matched {divs}")
