"""C01 — Mutex: mutual exclusion, visibility, wake pairing, try_lock non-blocking."""
from ..engine.fold import fold
from ..engine.prov import const_value, strip_casts, walk, show
from ..engine.atomics import is_acquire, is_release, target_of
from . import locks
from .futexflavour import check_flavour

CONFIGS_QUICK = ["A", "B"]
CONFIGS_THOROUGH = ["A", "B", "R", "X"]

EXPLANATION = (
    "Decided (static, on MIR of every configuration listed): mutual exclusion and visibility of tiny-std's Mutex by an "
    "invariant argument ('the futex word is 0 iff nobody holds the lock') whose premises are checked on every path: "
    "C01.1 closed table of atomic operations on the word (load / CAS with constant operands / swap with constant), "
    "C01.2 the only operation that can store 0 lives in a function called solely from the guard's Drop, which reaches it on every path, "
    "C01.3 every return of the locking functions passes the success edge of an acquiring transition out of 0 (CAS 0->n Ok edge, swap(n)==0 edge) "
    "and try_lock's bool is exactly is_ok(strong CAS 0->n), C01.4 guards are only built after acquisition, "
    "C01.5 the protected data is reachable only through a guard and the Send/Sync impls carry the right bounds, "
    "C01.6 acquiring ops are >=Acquire and the releasing op >=Release. Necessary conditions of liveness: C01.7 unlock wakes (count>=1, same word) "
    "exactly on the 'contended' constant that sleepers store and wait on, C01.8 a sleeper has stored or observed that constant on every path to the wait and re-checks in a loop, "
    "C01.9 the wait helper forwards word and expected value and returns after a wake, C01.10 wait and wake use the same futex flavour (private/shared), "
    "C01.11 try_lock reaches no blocking call, has no loop and uses the strong CAS. "
    "C01.12 type-level witnesses (compile_fail doctests, each with a compiling twin): a MutexGuard is not Send, the protected value is private, the guard borrows the mutex; "
    "A wait that is repeated re-reads the word first and a changed word ends the helper (C01.9, shared with C02.8). "
    "NOT decided: absence of lost wake-ups / termination of lock() for every interleaving (liveness of the composed protocol), fairness, client deadlocks.")
ASSUMPTIONS = ["Linux futex semantics (FUTEX_WAIT compares and sleeps atomically; wakes are keyed by flavour)",
               "Rust/C++11 memory model: an acquire RMW reading from a release RMW (or its release sequence) synchronises"]

MUTEX = "tiny_std::sync::mutex::Mutex"
GUARD = "tiny_std::sync::mutex::MutexGuard"


def run(ck, progs, tier):
    for cfgname, prog in progs.items():
        ck.set_config(prog)
        run_one(ck, prog)
    # type-level witnesses (compile_fail doctests with compiling twins) against the public API of the tree under analysis
    from ..engine import witness
    witness.check(ck, ck.repo, "C01", "C01.12")


def run_one(ck, prog):
    if not ck.anchor("C01.0", "Mutex type", prog.adts.get(MUTEX)):
        return
    fields = locks.find_atomic_fields(prog, MUTEX)
    ck.ob("C01.0", "word|single AtomicU32 reachable from Mutex", len(fields) == 1,
          detail=f"expected exactly one atomic field reachable from Mutex<T>, found {fields}")
    if len(fields) != 1:
        return
    word = (fields[0][0], fields[0][1])
    words = {word}
    ops = locks.word_ops(prog, words)
    passes = locks.word_passes(prog, words)

    # ---- C01.1 closed op table -------------------------------------------------
    acquiring, releasing, loads = [], [], []
    for ctx, op in ops:
        cargs = op.const_args()
        key = f"{ctx.path}|{op.op}({','.join(str(c) for c in cargs)})"
        ok = True
        why = ""
        if op.op == "load":
            loads.append((ctx, op))
        elif op.op in ("compare_exchange", "compare_exchange_weak"):
            if len(cargs) != 2 or None in cargs:
                ok, why = False, "CAS with non-constant operands on the mutex word"
            else:
                exp, new = cargs
                if new == 0:
                    releasing.append((ctx, op))
                elif exp == 0:
                    acquiring.append((ctx, op, "cas"))
                else:
                    ok, why = False, f"CAS({exp}->{new}) is neither an acquiring transition out of 0 nor a release"
        elif op.op == "swap":
            if len(cargs) != 1 or cargs[0] is None:
                ok, why = False, "swap with a non-constant value on the mutex word"
            elif cargs[0] == 0:
                releasing.append((ctx, op))
            else:
                acquiring.append((ctx, op, "swap0"))
        else:
            ok, why = False, f"operation `{op.op}` is outside the closed table (load / CAS const / swap const)"
        if any(o is None or str(o).startswith("phi") for o in op.orderings) or not op.orderings:
            ok, why = False, f"memory ordering of `{op.op}` cannot be resolved to a constant"
        ck.ob("C01.1", key, ok, site=ctx.site(op.bb), detail=why or "closed op table", fn=ctx.path)
    ck.floor("C01.1", "acquiring CAS(0->n)", len([a for a in acquiring if a[2] == "cas"]), 3)
    ck.floor("C01.1", "acquiring swap(n)", len([a for a in acquiring if a[2] == "swap0"]), 1)
    ck.floor("C01.1", "releasing op", len(releasing), 1)
    ck.floor("C01.1", "loads", len(loads), 1)

    cg = prog.callgraph()
    guard_drop = [p for p, f in prog.fns.items() if f.get("impl_trait") == "core::ops::drop::Drop" and (f.get("impl_self") or "").startswith(GUARD)]
    ck.anchor("C01.2", "Drop for MutexGuard", guard_drop)

    # ---- C01.2 only the holder writes 0 ---------------------------------------
    rel_fns = sorted({ctx.path for ctx, _ in releasing})
    for rf in rel_fns:
        callers = sorted(cg.callers.get(rf, ()))
        ck.ob("C01.2", f"only-callers|{rf}", callers and set(callers) <= set(guard_drop), fn=rf,
              detail=f"the function storing 0 into the mutex word must be called only from the guard's Drop; callers: {callers}")
    for gd in guard_drop:
        ctx = prog.ctx(gd)
        rel_calls = [bb for bb, t in ctx.cfg.calls() if (t.get("callee") in rel_fns)]
        ok = bool(rel_calls) and all(any(ctx.cfg.dominates(c, rb) for c in rel_calls) for rb in ctx.cfg.return_blocks())
        ck.ob("C01.2", f"drop-reaches-release|{gd}", ok, fn=gd, site=ctx.site(0),
              detail="every path of MutexGuard::drop must call the releasing function")
    # the releasing op is executed unconditionally in its function (dominates every return)
    for ctx, op in releasing:
        ok = all(ctx.cfg.dominates(op.bb, rb) for rb in ctx.cfg.return_blocks())
        ck.ob("C01.2", f"release-unconditional|{ctx.path}", ok, fn=ctx.path, site=ctx.site(op.bb),
              detail="the store of 0 must happen on every path of the releasing function")

    # ---- C01.3 acquire evidence -------------------------------------------------
    lock_fn = prog.fns.get(MUTEX + "::<T>::lock")
    try_fn = prog.fns.get(MUTEX + "::<T>::try_lock")
    ck.anchor("C01.3", "Mutex::lock", lock_fn)
    ck.anchor("C01.3", "Mutex::try_lock", try_fn)
    acq_by_fn = {}
    for ctx, op, kind in acquiring:
        acq_by_fn.setdefault(ctx.path, {})[op.bb] = (kind,)
    # functions of the protocol that return () : iterate to a fixpoint of the summary "returns => acquired"
    unit_fns = [p for p in acq_by_fn if prog.fns[p]["locals"][0]["ty"] == "()"]
    acquirers = set()
    changed = True
    results = {}
    while changed:
        changed = False
        for p in unit_fns:
            if p in acquirers:
                continue
            ctx = prog.ctx(p)
            pairs, descr = locks.acquiring_edges(ctx, acq_by_fn[p], acquirers)
            ok, path = locks.returns_only_via(ctx, pairs)
            results[p] = (ok, path, descr)
            if ok:
                acquirers.add(p)
                changed = True
    for p in unit_fns:
        ok, path, descr = results[p]
        ctx = prog.ctx(p)
        ck.ob("C01.3", f"acquire-evidence|{p}", ok, fn=p, site=ctx.site(0),
              detail="a path reaches `return` without passing the success edge of an acquiring transition (CAS 0->n Ok / swap(n)==0 / call of an acquiring function)",
              path=ctx.cfg.render_path(path) if path else None)
    # bool-returning: try_lock
    bool_acq = set()
    for p in acq_by_fn:
        if prog.fns[p]["locals"][0]["ty"] != "bool":
            continue
        ctx = prog.ctx(p)
        rets = ctx.ret_expr()
        ok = bool(rets)
        for rb, e in rets.items():
            e = strip_casts(e)
            good = (isinstance(e, tuple) and e[0] == "call" and (e[1] or "").endswith("::is_ok") and e[2])
            if good:
                inner = e[2][0]
                while isinstance(inner, tuple) and inner[0] == "ref":
                    inner = inner[2]
                inner = strip_casts(inner)
                good = isinstance(inner, tuple) and inner[0] == "call" and acq_by_fn[p].get(inner[3], (None,))[0] == "cas"
            if not good and isinstance(e, tuple) and e[0] == "var" and len(e) > 3:
                # the same answer written out: `true` is assigned only behind the CAS's Ok edge, `false` only behind its Err edge
                pairs, _ = locks.acquiring_edges(ctx, acq_by_fn[p], ())
                err_pairs = set()
                for sb in ctx.cfg.live_blocks():
                    if ctx.cfg.term(sb)["k"] != "switch":
                        continue
                    for ed in ctx.cfg.succ[sb]:
                        for f in ctx.edge_facts(ed):
                            if f[0] == "variant" and f[2] == "Err" and isinstance(strip_casts(f[1]), tuple) and strip_casts(f[1])[0] == "call" and acq_by_fn[p].get(strip_casts(f[1])[3], (None,))[0] == "cas":
                                err_pairs.add((ed.src, ed.dst))
                good = bool(e[3])
                for (db, di) in e[3]:
                    blk = ctx.cfg.block(db)
                    v = fold(ctx.prov.rvalue(blk["stmts"][di]["rv"], (db, di))) if isinstance(di, int) and di < len(blk["stmts"]) else None
                    edges = pairs if v in (1, True) else err_pairs if v in (0, False) and v is not None else set()
                    if not any(ed.src == a and ed.dst == b2 and ctx.cfg.edge_dominates(ed, db) for a, b2 in edges for ed in ctx.cfg.succ[a]):
                        good = False
            ok = ok and bool(good)
        if ok:
            bool_acq.add(p)
        ck.ob("C01.3", f"try-evidence|{p}", ok, fn=p, site=ctx.site(0),
              detail="the boolean returned by the try-acquire function must be exactly is_ok(CAS(0->n)) on the mutex word")

    # ---- C01.4 guards only after acquisition -----------------------------------
    builders = []
    for p, fn in prog.fns.items():
        for b in fn["blocks"]:
            for s in b["stmts"]:
                if s["k"] == "assign" and s["rv"]["k"] == "agg" and s["rv"].get("adt") == GUARD:
                    builders.append(p)
    builders = sorted(set(builders))
    ck.ob("C01.4", "guard-constructors", len(builders) == 1, detail=f"MutexGuard must be built in exactly one constructor; built in {builders}")
    ck.floor("C01.4", "guard constructor", len(builders), 1)
    allowed_callers = {MUTEX + "::<T>::lock", MUTEX + "::<T>::try_lock"}
    n_sites = 0
    for bp in builders:
        callers = cg.callers.get(bp, set())
        # a closure of lock / try_lock handed to bool::then on the acquiring result counts as that function (try_lock().then(|| guard))
        from .c02 import closure_under_then
        lazy = {c for c in callers if "::{closure" in c and c.split("::{closure")[0] in allowed_callers and closure_under_then(prog, cg, c, bool_acq)}
        ck.ob("C01.4", f"constructor-callers|{bp}", callers - lazy <= allowed_callers, fn=bp,
              detail=f"guard constructor called from {sorted(callers - lazy - allowed_callers)} (only Mutex::lock / Mutex::try_lock may)")
        for caller in sorted(callers):
            cctx = prog.ctx(caller)
            if cctx is None:
                continue
            for bb, t in cctx.cfg.calls(lambda t: t.get("callee") == bp):
                n_sites += 1
                ok = False
                # (a) dominated by the return of an acquiring unit fn
                for ab, at in cctx.cfg.calls(lambda t: t.get("callee") in acquirers):
                    if cctx.cfg.dominates(at["t"], bb) if at.get("t") is not None else False:
                        ok = True
                # (b) dominated by the true edge of a bool acquiring fn
                for ab, at in cctx.cfg.calls(lambda t: t.get("callee") in bool_acq):
                    for sb in cctx.cfg.live_blocks():
                        if cctx.cfg.term(sb)["k"] != "switch":
                            continue
                        for e in cctx.cfg.succ[sb]:
                            for f in cctx.edge_facts(e):
                                if f[0] == "truth" and f[2] is True and isinstance(f[1], tuple) and f[1][0] == "call" and f[1][3] == ab:
                                    if cctx.cfg.edge_dominates(e, bb):
                                        ok = True
                if caller in lazy:
                    ok = True      # runs only when the bool acquirer returned true (checked by closure_under_then)
                ck.ob("C01.4", f"guard-after-acquire|{caller}", ok, fn=caller, site=cctx.site(bb),
                      detail="the guard is constructed on a path that did not first acquire the lock")
    ck.floor("C01.4", "guard construction sites", n_sites, 2)

    # ---- C01.5 data only through the guard; Send/Sync bounds --------------------
    users = []
    for p, fn in prog.fns.items():
        if "tiny_std::sync::mutex" not in p:
            # field is private to the module; type privacy covers the rest (witness in thorough)
            pass
        for b in fn["blocks"]:
            t = b["term"]
            if t["k"] == "call" and (t.get("callee") or "").startswith("core::cell::UnsafeCell::<T>::get") and not b.get("cleanup"):
                ctx = prog.ctx(fn)
                if b["id"] not in ctx.cfg.live_blocks():
                    continue
                e = ctx.args(b["id"])[0]
                tg = target_of(e)
                if tg and tg[0] == "field" and tg[1] == MUTEX and tg[2] == "data":
                    users.append(p)
    allowed = {f"<{GUARD}<'_, T> as core::ops::deref::Deref>::deref", f"<{GUARD}<'_, T> as core::ops::deref::DerefMut>::deref_mut",
               MUTEX + "::<T>::get_mut", MUTEX + "::<T>::into_inner"}
    for u in sorted(set(users)):
        ck.ob("C01.5", f"data-access|{u}", u in allowed, fn=u,
              detail="the UnsafeCell holding the protected data is dereferenced outside the guard's Deref/DerefMut and the &mut self / self accessors")
    ck.floor("C01.5", "data accessors", len(set(users)), 2)
    # get_mut takes &mut self, into_inner takes self
    for nm, need in ((MUTEX + "::<T>::get_mut", "&'a mut "), (MUTEX + "::<T>::into_inner", "fn(tiny_std::sync::mutex::Mutex<T>)")):
        f = prog.fns.get(nm)
        if f is not None:
            ck.ob("C01.5", f"exclusive-receiver|{nm}", need in f.get("sig", ""), fn=nm,
                  detail=f"{nm} hands out the data without a guard and must therefore take exclusive ownership/borrow; sig: {f.get('sig')}")
    impls = [i for i in prog.impls if i["self"].startswith(MUTEX + "<") and i.get("trait") in ("core::marker::Sync", "core::marker::Send")]
    for i in impls:
        ck.ob("C01.5", f"impl-bound|{i['trait']} for Mutex", any(w == "T: core::marker::Send" for w in i["where"]),
              detail=f"`unsafe impl {i['trait']} for Mutex<T>` must require T: Send; where = {i['where']}")
    ck.floor("C01.5", "Send/Sync impls for Mutex", len(impls), 2)
    gimpls = [i for i in prog.impls if i["self"].startswith(GUARD + "<") and i.get("trait") in ("core::marker::Sync", "core::marker::Send")]
    for i in gimpls:
        if i["trait"] == "core::marker::Send":
            ck.ob("C01.5", "guard-not-send", i.get("polarity") == "Negative", detail="MutexGuard must not be Send (unlock must run on the locking thread)")
        else:
            ck.ob("C01.5", "guard-sync-bound", any(w == "T: core::marker::Sync" for w in i["where"]),
                  detail=f"Sync for MutexGuard must require T: Sync; where = {i['where']}")
    g = prog.adts.get(GUARD)
    if ck.anchor("C01.5", "MutexGuard type", g):
        ftys = [f["ty"] for v in g["variants"] for f in v["fields"]]
        notsend = [t for t in ftys if "NotSend" in t or "*const" in t or "*mut" in t]
        ck.ob("C01.5", "guard-has-notsend-marker", bool(notsend), detail=f"MutexGuard has no !Send marker field; field types {ftys}")
        ns = prog.adts.get("tiny_std::sync::NotSend")
        if ns is not None:
            nst = [f["ty"] for v in ns["variants"] for f in v["fields"]]
            ck.ob("C01.5", "notsend-is-not-send", any("*const" in t or "*mut" in t for t in nst), detail=f"NotSend no longer wraps a raw pointer marker: {nst}")
            bad = [i for i in prog.impls if i["self"].startswith("tiny_std::sync::NotSend") and i.get("trait") == "core::marker::Send" and i.get("polarity") != "Negative"]
            ck.ob("C01.5", "notsend-no-send-impl", not bad, detail="`unsafe impl Send for NotSend` defeats the marker")
    m = prog.adts.get(MUTEX)
    for v in m["variants"]:
        for f in v["fields"]:
            ck.ob("C01.5", f"field-private|Mutex.{f['name']}", "Public" not in f["vis"], detail=f"field Mutex.{f['name']} must stay private (vis={f['vis']})")

    # ---- C01.6 orderings ----------------------------------------------------------
    for ctx, op, kind in acquiring:
        ck.ob("C01.6", f"acquire-order|{ctx.path}|{op.op}({','.join(str(c) for c in op.const_args())})", is_acquire(op.success_order),
              fn=ctx.path, site=ctx.site(op.bb), detail=f"acquiring {op.op} has success ordering {op.success_order}; needs Acquire or stronger")
    for ctx, op in releasing:
        ck.ob("C01.6", f"release-order|{ctx.path}|{op.op}", is_release(op.success_order), fn=ctx.path, site=ctx.site(op.bb),
              detail=f"releasing {op.op} has ordering {op.success_order}; needs Release or stronger")

    # ---- C01.7 wake pairing -------------------------------------------------------
    W = None
    for ctx, op in releasing:
        if op.op != "swap":
            ck.ob("C01.7", f"release-returns-old|{ctx.path}", False, fn=ctx.path, detail="the releasing op must return the previous value (swap) so that contention can be detected")
            continue
        # find the switch edge comparing the swap result with a constant
        wake_edges = []
        for sb in ctx.cfg.live_blocks():
            if ctx.cfg.term(sb)["k"] != "switch":
                continue
            for e in ctx.cfg.succ[sb]:
                for f in ctx.edge_facts(e):
                    if f[0] == "cmp" and f[1] == "Eq":
                        for x, y in ((f[2], f[3]), (f[3], f[2])):
                            x = strip_casts(x)
                            if isinstance(x, tuple) and x[0] == "call" and x[3] == op.bb and const_value(y) is not None:
                                wake_edges.append((e, const_value(y)))
        ck.ob("C01.7", f"contended-test|{ctx.path}", len(wake_edges) == 1, fn=ctx.path, site=ctx.site(op.bb),
              detail=f"unlock must compare the swapped-out value with the 'contended' constant exactly once; found {[(str(e), w) for e, w in wake_edges]}")
        for e, w in wake_edges:
            W = w
            # on that edge every path to return passes a wake on the same word with count >= 1
            wake_blocks = set()
            for bb, t in ctx.cfg.calls():
                if wakes_word(prog, ctx, bb, t, word):
                    wake_blocks.add(bb)
            r = ctx.cfg.reachable_from(e.dst, avoid=wake_blocks)
            bad = [rb for rb in ctx.cfg.return_blocks() if rb in r]
            ck.ob("C01.7", f"wake-on-contended|{ctx.path}", bool(wake_blocks) and not bad, fn=ctx.path, site=ctx.site(e.src),
                  detail="on the `previous == contended` edge of unlock a path reaches return without futex_wake(word, n>=1)")
    # sleepers: constants stored before sleeping and expected by the wait
    sleeper_consts = set()
    for ctx, op, kind in acquiring:
        if kind == "swap0":
            sleeper_consts.add(op.const_args()[0])
    wait_sites = []
    for ctx, bb, t, i, w in passes:
        if t.get("callee") in locks.WAIT_WRAPPERS:
            args = ctx.args(bb)
            exp = const_value(args[1]) if len(args) > 1 else None
            wait_sites.append((ctx, bb, exp))
    ck.floor("C01.7", "wait sites", len(wait_sites), 1)
    for ctx, bb, exp in wait_sites:
        ck.ob("C01.7", f"wait-expected|{ctx.path}", exp is not None and exp == W, fn=ctx.path, site=ctx.site(bb),
              detail=f"sleeper waits while word == {exp} but unlock wakes only when it swapped out {W}")
    ck.ob("C01.7", "sleeper-store-constant", sleeper_consts == ({W} if W is not None else set()),
          detail=f"constants stored by contended acquirers {sorted(sleeper_consts)} must be exactly the constant unlock tests ({W})")

    # ---- C01.8 announce before sleep, re-check after -------------------------------
    proto_fns = {ctx.path for ctx, _ in ops} | {ctx.path for ctx, *_ in passes}
    for ctx, bb, exp in wait_sites:
        cyc = ctx.cfg.in_cycle(bb)
        ck.ob("C01.8", f"wait-in-loop|{ctx.path}", cyc, fn=ctx.path, site=ctx.site(bb), detail="the futex wait is not inside a retry loop (state must be re-checked after waking)")
        # must-pass: swap(W) block or observed == W edge
        store_blocks = {op.bb for c2, op, kind in acquiring if c2.path == ctx.path and kind == "swap0" and op.const_args()[0] == exp}
        obs_edges = set()
        for sb in ctx.cfg.live_blocks():
            if ctx.cfg.term(sb)["k"] != "switch":
                continue
            for e in ctx.cfg.succ[sb]:
                for f in ctx.edge_facts(e):
                    if f[0] == "cmp" and f[1] == "Eq":
                        for x, y in ((f[2], f[3]), (f[3], f[2])):
                            if const_value(y) == exp and reads_word(x, proto_fns, ctx.prov):
                                obs_edges.add((e.src, e.dst))
        # remove store blocks & obs edges: wait block must be unreachable from the loop header(s) and entry
        r = ctx.cfg.reachable_from(0, avoid=store_blocks, avoid_edges=obs_edges)
        ok = bb not in r
        # also from the block after the wait (next iteration)
        nxt = ctx.cfg.term(bb).get("t")
        if ok and nxt is not None:
            r2 = ctx.cfg.reachable_from(nxt, avoid=store_blocks, avoid_edges=obs_edges)
            ok = bb not in r2
        ck.ob("C01.8", f"announce-before-sleep|{ctx.path}", ok, fn=ctx.path, site=ctx.site(bb),
              detail=f"a path reaches the wait without having stored {exp} into the word or observed it equal to {exp} (unlock would not wake this sleeper)")

    # ---- C01.9 wait helper passes through -------------------------------------------
    helper = prog.fns.get("tiny_std::sync::futex_wait_fast")
    if ck.anchor("C01.9", "futex_wait_fast", helper):
        check_wait_helper(ck, prog, helper, "C01.9")

    # ---- C01.10 futex flavour agreement ---------------------------------------------
    check_flavour(ck, prog, "C01.10")

    # ---- C01.11 try_lock cannot block -------------------------------------------------
    if try_fn is not None:
        root = try_fn["path"]
        chain = locks.reaches_any(prog, root, locks.BLOCKING)
        ck.ob("C01.11", "try_lock-no-blocking-call", chain is None, fn=root, detail=f"try_lock reaches a blocking call: {chain}")
        reach = cg.reach([root])
        for p in sorted(reach):
            f = prog.fns.get(p)
            if f is None or not (p.startswith("tiny_std::") or p.startswith("<tiny_std::")):
                continue
            c = prog.ctx(f)
            ck.ob("C01.11", f"try_lock-acyclic|{p}", not c.cfg.cycle_blocks(), fn=p, detail="a function on try_lock's call path contains a loop")
        for ctx, op, kind in acquiring:
            if ctx.path in reach:
                ck.ob("C01.11", f"try_lock-strong-cas|{ctx.path}", op.op == "compare_exchange", fn=ctx.path, site=ctx.site(op.bb),
                      detail=f"try_lock uses `{op.op}`; a weak CAS may fail spuriously while the mutex is free")


def reads_word(e, proto_fns, prov):
    """Expression derives from a read of the word: result of a protocol function, or an atomic op result/payload."""
    from ..engine.prov import walk_deep
    for x in walk_deep(e, prov):
        if x[0] == "call":
            n = x[1] or ""
            if n in proto_fns or n.startswith("core::sync::atomic::Atomic"):
                return True
    return False


def wakes_word(prog, ctx, bb, t, word, depth=0):
    """Call at bb is futex_wake(word, n>=1), directly or through a one-level wrapper taking &self."""
    c = t.get("callee")
    if c in locks.WAKE_WRAPPERS:
        args = ctx.args(bb)
        tg = target_of(args[0])
        n = const_value(args[1]) if len(args) > 1 else None
        same = tg and ((tg[0] == "field" and (tg[1], tg[2]) == word))
        return bool(same and n is not None and n >= 1)
    if depth == 0 and c in prog.fns and (c.startswith("tiny_std::sync") or c.startswith("<tiny_std::sync")):
        cctx = prog.ctx(c)
        inner = [b2 for b2, t2 in cctx.cfg.calls() if wakes_word(prog, cctx, b2, t2, word, 1)]
        if inner and all(any(cctx.cfg.dominates(i, rb) for i in inner) for rb in cctx.cfg.return_blocks()):
            return True
    return False


def check_wait_helper(ck, prog, helper, rule):
    ctx = prog.ctx(helper)
    waits = [(bb, t) for bb, t in ctx.cfg.calls(lambda t: t.get("callee") == "rusl::futex::futex_wait")]
    ck.ob(rule, "helper-calls-wait", len(waits) == 1, fn=ctx.path, detail=f"futex_wait_fast must contain exactly one futex_wait call, found {len(waits)}")
    for bb, t in waits:
        args = ctx.args(bb)
        a0 = strip_casts(args[0])
        while isinstance(a0, tuple) and a0[0] in ("ref", "deref"):
            a0 = a0[2] if a0[0] == "ref" else a0[1]
        ok0 = isinstance(a0, tuple) and a0[0] == "param" and a0[1] == 1
        ok1 = isinstance(args[1], tuple) and args[1][0] == "param" and args[1][1] == 2
        ck.ob(rule, "helper-forwards-word", ok0, fn=ctx.path, site=ctx.site(bb), detail=f"futex_wait receives {show(args[0])} instead of the caller's word")
        ck.ob(rule, "helper-forwards-expected", ok1, fn=ctx.path, site=ctx.site(bb), detail=f"futex_wait receives expected value {show(args[1])} instead of the caller's")
        # timeout None (a timed wait would turn the sleep into polling; harmless) -- not enforced
        # after Ok the helper returns without waiting again
        nxt = t.get("t")
        ok_edges = []
        for sb in ctx.cfg.live_blocks():
            if ctx.cfg.term(sb)["k"] != "switch":
                continue
            for e in ctx.cfg.succ[sb]:
                for f in ctx.edge_facts(e):
                    if f[0] == "variant" and f[2] == "Ok" and isinstance(f[1], tuple) and f[1][0] == "call" and f[1][3] == bb:
                        ok_edges.append(e)
        ck.ob(rule, "helper-ok-edge", len(ok_edges) >= 1, fn=ctx.path, detail="no Ok edge found for the futex_wait result")
        for e in ok_edges:
            r = ctx.cfg.reachable_from(e.dst)
            ck.ob(rule, "helper-returns-after-wake", bb not in r and any(rb in r for rb in ctx.cfg.return_blocks()), fn=ctx.path, site=ctx.site(e.src),
                  detail="after a successful wait (woken) the helper must return to its caller, not wait again")
    # the short-circuit: load != expect -> return
    loads = [bb for bb, t in ctx.cfg.calls(lambda t: (t.get("callee") or "").endswith("::load"))]
    ck.ob(rule, "helper-checks-before-wait", len(loads) >= 1, fn=ctx.path, detail="helper no longer reads the word before sleeping (information)")
    # a wait that is repeated looks at the word again first: the kernel answers EAGAIN when the word no longer holds the expected value,
    # so going straight back into the call with the same expectation spins for as long as the word stays changed (the lock may be free)
    for bb, t in waits:
        nxt = t.get("t")
        if nxt is None or not ctx.cfg.in_cycle(bb):
            continue
        blind = bb in ctx.cfg.reachable_from(nxt, avoid=set(loads))
        exits = []
        for lb in loads:
            for sb in ctx.cfg.reachable_from(ctx.cfg.term(lb).get("t")) if ctx.cfg.term(lb).get("t") is not None else ():
                if ctx.cfg.term(sb)["k"] != "switch":
                    continue
                for e in ctx.cfg.succ[sb]:
                    for f in ctx.edge_facts(e):
                        if f[0] == "cmp" and f[1] == "Ne" and any(isinstance(strip_casts(x), tuple) and strip_casts(x)[0] == "call" and strip_casts(x)[3] == lb for x in (f[2], f[3])) and \
                                bb not in ctx.cfg.reachable_from(e.dst):
                            exits.append(e)
        ck.ob(rule, "helper-rereads-before-waiting-again", not blind and bool(exits), fn=ctx.path, site=ctx.site(bb),
              detail="every way back to futex_wait must pass the load of the word, and a changed word must end the helper")
