"""C20 — derived argument parsers: no reachable panic, bounded cause buffer, errors are values, one arm per declared option."""
import re

from ..engine.prov import const_value, strip_casts, walk, walk_deep, show
from ..engine.dtable import canon
from ..engine.fold import fold
from ..engine.cfg import span_str
from ..engine import panics
from .c12 import mentions

CONFIGS_QUICK = ["S"]
CONFIGS_THOROUGH = ["S", "D", "A"]

EXPLANATION = (
    "Decided (static, MIR of the macro-expanded parsers in tiny-cli/tests/derive_test.rs plus the /verif shape corpus sa/shapes/verif_shapes.rs, which is compiled as a further test target of a scratch copy of the tree - "
    "the family the property names: required/optional/repeated options, aliases (including the help letter declared by a field), booleans, positionals, documented/undocumented tags in every order, nested and optional subcommands): "
    "C20.1 the generated arg_parse / subcommand_parse functions contain no potential-panic site at all (no bounds/overflow assertion, no unwrap/expect/index/panic call) and reach no process exit; "
    "the error types' own code (ArgParseError, ArgParseCauseBuffer) has every potential-panic site discharged by the buffer invariant len <= 128 (reviewed table); "
    "C20.2 the 128-byte cause buffer cannot overflow: the copy in write_str is dominated by len(s) <= CAP - self.len, both constructors return the fixed overflow error on failure, only write_str (and constant initialisers <= CAP) ever set the length, "
    "and the overflow message's declared length does not exceed its text; C20.3 every failure is a value: the parsers call neither exit nor panic, and -h/--help arms return an error value built from the help printer; "
    "C20.4 sibling agreement between parser and help text: the option literals the generated decision tree accepts are exactly the option names its help printer lists plus -h/--help, and subcommand parsers accept exactly the command names the help text lists (including names passed to format_args! as arguments, read from the promoted constants' memory); C20.6 tokens are consumed only by the declared grammar (option-literal match, value conversion, error message: a closed call vocabulary) and a token unknown to the subcommand parser (Ok(None)) leads to an error; C20.5 every argument is consumed or rejected: a derived ArgParse parser builds its Ok result only on a path on which args.next() returned None. "
    "C20.5 also: the result of every FromStr::from_str is matched and its Err side ends in an error; C20.7 also: a positional slot is filled only under its own is_none() test, and a counter that selects the slot advances only with a positional. "
    "C20.3 also: every error a derived parser returns carries that parser's own help text; the shape corpus includes an option with a one-character long name, which must be offered as --x. The shape corpus also holds structs whose subcommand member is declared first and in the middle (options declared after it must still be reachable). NOT decided: round-tripping for every value assignment and option order, acceptance of exactly the declared grammar beyond the literal sets, user FromStr impls (outside; their errors are routed into the cause buffer).")
ASSUMPTIONS = ["the family of derived types = the types in tiny-cli/tests/derive_test.rs and sa/shapes/verif_shapes.rs", "invariant of ArgParseCauseBuffer: len <= 128 (established by C20.2)"]

CLI = "tiny_std::unix::cli::"
REVIEWED = {
    "overflow_sub(128,*p1.len)": "invariant len <= STACK_BUFFER_CAP (only write_str advances len, under the capacity test)",
    "overflow_add(*p1.len,len(*as_bytes(*p2)))": "dominated by len(s) <= CAP - self.len",
    "call:index(*p1.buf,RangeTo::RangeTo(*p1.len))": "invariant len <= STACK_BUFFER_CAP = buf.len()",
}


def run(ck, progs, tier):
    # S = the tree's own derive tests plus the /verif shape corpus (sa/shapes), D = the tree's own tests alone
    for cfgname in ("S", "D"):
        if cfgname not in progs:
            continue
        prog = progs[cfgname]
        ck.set_config(prog)
        run_d(ck, prog, "derive_test", 23, 60)
        if cfgname == "S":
            run_d(ck, prog, "verif_shapes", 13, 48, cli_types=False)
    if "A" in progs:
        ck.set_config(progs["A"])
        check_cli_types(ck, progs["A"])


def literals(ctx):
    """byte-string literals accepted by a slice-pattern decision tree: {bytes: arm block}"""
    cfg = ctx.cfg
    out = {}

    def is_cindex_switch(b):
        t = cfg.term(b)
        if t["k"] != "switch" or t["discr"].get("k") not in ("copy", "move"):
            return None
        pr = t["discr"]["p"].get("p", [])
        if pr and pr[-1]["k"] == "cindex" and not cfg.block(b)["stmts"]:
            return pr[-1]["off"], pr[-1]["min"]
        return None

    def walk_tree(b, acc, n):
        ci = is_cindex_switch(b)
        if ci is None:
            if len(acc) == n and n > 0:
                out[bytes(acc)] = b
            return
        off, mn = ci
        if off != len(acc):
            return
        for v, tgt in cfg.term(b)["targets"]:
            walk_tree(tgt, acc + [v], n)
    for b in cfg.live_blocks():
        t = cfg.term(b)
        if t["k"] != "switch":
            continue
        # length test:  Eq(PtrMetadata(slice), const N)
        blk = cfg.block(b)
        n = None
        for s in blk["stmts"]:
            if s["k"] == "assign" and s["rv"]["k"] == "binop" and s["rv"]["op"] == "Eq" and s["rv"]["b"].get("k") == "const":
                n = s["rv"]["b"].get("value")
            if s["k"] == "assign" and s["rv"]["k"] == "use" and s["rv"]["a"].get("k") == "const" and s["rv"]["a"].get("ty") == "usize":
                n = s["rv"]["a"].get("value")
        if n is None:
            continue
        for e in cfg.succ[b]:
            if e.kind == "sw" and e.val == "otherwise" or (e.kind == "sw" and e.val == 1):
                if is_cindex_switch(e.dst) is not None:
                    walk_tree(e.dst, [], n)
    return out


def mentions_call(e, ctx, call_bbs):
    for x in walk_deep(e, ctx.prov, limit=200):
        if x[0] == "call" and x[3] in call_bbs:
            return True
    return False


def help_text(prog, printer_ty):
    """Every string constant the help printer's Display::fmt mentions: plain &str operands and strings reached through one
    pointer inside a promoted constant (the `&&str` arguments of format_args!)."""
    texts = []

    def visit(o):
        if isinstance(o, dict):
            if o.get("k") == "const":
                if "bytes" in o:
                    try:
                        texts.append(bytes(o["bytes"]).decode())
                    except Exception:
                        pass
                mem = o.get("mem")
                for e in o.get("ptrs") or []:
                    off = e["off"]
                    n = int.from_bytes(bytes(mem[off + 8:off + 16]), "little") if mem and len(mem) >= off + 16 else len(e["mem"])
                    try:
                        texts.append(bytes(e["mem"][:n]).decode())
                    except Exception:
                        pass
            for v in o.values():
                visit(v)
        elif isinstance(o, list):
            for v in o:
                visit(v)
    for p, f in prog.fns.items():
        if p.startswith(f"<{printer_ty} as core::fmt::Display>::fmt"):
            for b in f["blocks"]:
                visit(b["stmts"])
                visit(b["term"])
    return "\n".join(texts)


def run_d(ck, prog, crate, n_parsers, n_literals, cli_types=True):
    parsers = [(p, f) for p, f in sorted(prog.fns.items()) if f["crate"] == crate and (f.get("impl_trait") or "").endswith(("cli::ArgParse", "cli::SubcommandParse")) and p.endswith(("::arg_parse", "::subcommand_parse"))]
    ck.floor("C20.1", f"derived parsers analysed ({crate})", len(parsers), n_parsers)
    cg = prog.callgraph()
    n_lit = 0
    for p, fn in parsers:
        ctx = prog.ctx(fn)
        short = p.split(" as ")[0].lstrip("<").split("::")[-1]
        sites = panics.sites(ctx)
        bad = []
        for s in sites:
            ok, why = panics.discharge(ctx, s)
            if not ok:
                bad.append((s, why))
        ck.ob("C20.1", f"{short}|{p.split('::')[-1]}|no-reachable-panic", not bad, fn=p, site=span_str(bad[0][0]["sp"]) if bad else None,
              detail=f"the generated parser contains a potential panic: {[(s['kind'], s['key'][:80], w) for s, w in bad[:2]]}")
        # C20.3: no exit / panic reachable (through local code)
        # generated code only (the cli error types are covered by their own inventory below): the parser and the generated
        # functions it calls must not call exit / panic / unwrap / expect
        gen = {q for q in cg.reach([p]) if q in prog.fns and prog.fns[q]["crate"] == crate}
        badc = sorted({c for q in gen for c in cg.callees.get(q, ()) if c.startswith(("rusl::process::exit", "tiny_std::process::exit", "core::panicking::")) or c.endswith(("::unwrap", "::expect"))})
        ck.ob("C20.3", f"{short}|{p.split('::')[-1]}|errors-are-values", not badc, fn=p, detail=f"generated parser code calls {badc}: failures must be returned as ArgParseError values")
        # C20.5: every argument is consumed or rejected: an ArgParse parser reports success only after args.next() returned None
        if p.endswith("::arg_parse"):
            okb = [b["id"] for b in fn["blocks"] if b["id"] in ctx.cfg.live_blocks() and not b.get("cleanup") and
                   any(s2["k"] == "assign" and s2["dst"]["l"] == 0 and not s2["dst"].get("p") and s2["rv"]["k"] == "agg" and s2["rv"].get("variant") == "Ok" for s2 in b["stmts"])]
            nexts = [bb for bb, t in ctx.cfg.calls(lambda t: (t.get("callee") or "").endswith("Iterator::next")) if ctx.cfg.in_cycle(bb)]
            if ck.ob("C20.5", f"{short}|anchor|loop-and-success", len(okb) >= 1 and len(nexts) >= 1, fn=p, detail=f"success returns {len(okb)}, args.next() calls in the loop {len(nexts)}"):
                for ob in okb:
                    facts = panics.dominating_facts(ctx, ob)
                    drained = any(f[0] == "variant" and f[2] == "None" and mentions_call(f[1], ctx, nexts) for f in facts)
                    ck.ob("C20.5", f"{short}|success-only-after-all-arguments-were-read", drained, fn=p, site=ctx.site(ob),
                          detail="the parser can return Ok without having read the arguments to the end (the loop is left early): trailing arguments - options after a subcommand, misspelt flags - are silently ignored instead of parsed or rejected")
        # C20.5 (values): an option that takes a value fetches it with a checked `args.next()`: the fetch's None edge (the command
        # line ended right after the option) leads to an error, never back into the loop or to success
        if p.endswith("::arg_parse"):
            nexts_all2 = [bb for bb, t in ctx.cfg.calls(lambda t: (t.get("callee") or "").endswith("Iterator::next"))]
            okb3 = {b["id"] for b in fn["blocks"] if b["id"] in ctx.cfg.live_blocks() and any(s2["k"] == "assign" and s2["dst"]["l"] == 0 and not s2["dst"].get("p") and s2["rv"]["k"] == "agg" and s2["rv"].get("variant") == "Ok" for s2 in b["stmts"])}
            heads = set()
            for nb in nexts_all2:
                for sb2 in ctx.cfg.live_blocks():
                    if ctx.cfg.term(sb2)["k"] != "switch":
                        continue
                    for e2 in ctx.cfg.succ[sb2]:
                        if any(f[0] == "variant" and f[2] == "None" and mentions_call(f[1], ctx, [nb]) for f in ctx.edge_facts(e2)) and (ctx.cfg.reachable_from(e2.dst, avoid=set(nexts_all2)) & okb3):
                            heads.add(nb)      # the loop's own fetch: running out of arguments here ends the parse
            unchecked = []
            for nb in nexts_all2:
                if nb in heads:
                    continue
                none_edges2 = [e2 for sb2 in ctx.cfg.live_blocks() if ctx.cfg.term(sb2)["k"] == "switch" for e2 in ctx.cfg.succ[sb2]
                               if any(f[0] == "variant" and f[2] == "None" and mentions_call(f[1], ctx, [nb]) for f in ctx.edge_facts(e2))]
                good = bool(none_edges2) and all(not (ctx.cfg.reachable_from(e2.dst) & (okb3 | set(nexts_all2))) for e2 in none_edges2)
                if not good:
                    unchecked.append(nb)
            ck.ob("C20.5", f"{short}|missing-value-is-an-error", bool(heads) and not unchecked, fn=p, site=ctx.site(unchecked[0]) if unchecked else None,
                  detail=f"{len(unchecked)} value fetch(es) (`args.next()` inside an option's arm) whose `None` - the option was the last argument - does not end in an error: the option is accepted without its value")
        # C20.7: every field of the result is fed by its own slot, filled the way its kind requires: a flag is set to true (never
        # toggled), a repeated option accumulates with push, an optional one is None or Some(value), a required one is the payload of
        # its slot on the edge where the slot is Some - the None edge ends in an error
        if p.endswith("::arg_parse") and prog.adts.get(self_ty if (self_ty := fn.get("impl_self") or "") else "") and prog.adts[self_ty]["kind"] == "Struct":
            ftys7 = {x["name"]: x["ty"] for x in prog.adts[self_ty]["variants"][0]["fields"]}
            built = []
            for b in fn["blocks"]:
                if b["id"] not in ctx.cfg.live_blocks() or b.get("cleanup"):
                    continue
                for i, st7 in enumerate(b["stmts"]):
                    if st7["k"] == "assign" and st7["rv"]["k"] == "agg" and st7["rv"].get("adt") == self_ty:
                        built.append((b["id"], dict(zip(st7["rv"]["fields"], [ctx.prov.operand(o, (b["id"], i)) for o in st7["rv"]["ops"]]))))
            ck.ob("C20.7", f"{short}|anchor|result-built-once", len(built) == 1, fn=p, detail=f"aggregates of {self_ty}: {len(built)}")
            names7 = {x["p"]["l"]: x["n"] for x in fn.get("names", []) if isinstance(x.get("p", {}).get("l"), int) and not x["p"].get("p")}
            for bb7, vals7 in built[:1]:
                for fname, fty in ftys7.items():
                    e7 = strip_casts(vals7.get(fname))
                    why7 = None
                    slot = None
                    for z in walk_deep(e7, ctx.prov, limit=20):
                        if z[0] in ("var", "place") and names7.get(z[1]) == fname:
                            slot = z
                            break
                    if slot is None:
                        why7 = f"the field is not fed from the slot `{fname}` (found {show(e7)[:60]})"
                    elif fty == "bool":
                        defs7 = [fold(d) for d in ctx.prov.expand(slot)] if slot[0] == "var" else [None]
                        if not (set(defs7) <= {0, 1, False, True} and any(d in (1, True) for d in defs7)):
                            why7 = f"a flag must only ever be assigned `false` (initially) and `true`; assignments found: {defs7}"
                    elif fty.startswith("alloc::vec::Vec<"):
                        pushes = [bb for bb, t in ctx.cfg.calls(lambda t: (t.get("callee") or "").endswith("Vec::<T, A>::push")) if mentions(ctx.args(bb)[0], ctx.prov, lambda z: z[0] in ("place", "var") and z[1] == slot[1])]
                        reassigned = [b2["id"] for b2 in fn["blocks"] if b2["id"] in ctx.cfg.live_blocks() and ctx.cfg.in_cycle(b2["id"]) for s2 in b2["stmts"] if s2["k"] == "assign" and s2["dst"]["l"] == slot[1] and not s2["dst"].get("p")]
                        if not pushes or reassigned:
                            why7 = f"a repeated option must accumulate with push (pushes: {len(pushes)}, whole-value assignments inside the loop: {len(reassigned)})"
                    elif fty.startswith("core::option::Option<"):
                        if not (isinstance(e7, tuple) and e7[0] in ("var", "place")):
                            why7 = f"an optional field must be handed over as its slot, found {show(e7)[:60]}"
                    else:
                        some = any(f[0] == "variant" and f[2] == "Some" and mentions(f[1], ctx.prov, lambda z: z[0] in ("var", "place") and z[1] == slot[1]) for f in panics.dominating_facts(ctx, bb7))
                        payload = mentions(e7, ctx.prov, lambda z: z[0] == "downcast" and z[2] == "Some")
                        if not (some and payload):
                            why7 = "a required field must be the payload of its slot, taken on the edge where the slot is Some (the None edge reports `Required .. not supplied`)"
                    ck.ob("C20.7", f"{short}|field-filled-according-to-its-kind|{fname}", why7 is None, fn=p, site=ctx.site(bb7), detail=why7 or "ok")
        # C20.7 (positional order): when a running counter decides which positional slot a token goes to, it counts positionals only -
        # every increment follows a positional assignment it guarded (a counter that every loop round advances lets options shift the slots)
        if p.endswith("::arg_parse"):
            names8 = {x["p"]["l"]: x["n"] for x in fn.get("names", []) if isinstance(x.get("p", {}).get("l"), int) and not x["p"].get("p")}
            incs = {}
            for b in fn["blocks"]:
                if b["id"] not in ctx.cfg.live_blocks() or b.get("cleanup") or not ctx.cfg.in_cycle(b["id"]):
                    continue
                for i, st8 in enumerate(b["stmts"]):
                    if st8["k"] == "assign" and not st8["dst"].get("p"):
                        e8 = strip_casts(ctx.prov.rvalue(st8["rv"], (b["id"], i)))
                        if isinstance(e8, tuple) and e8[0] == "field" and isinstance(e8[1], tuple) and e8[1][0] == "bin":
                            e8 = e8[1]
                        if isinstance(e8, tuple) and e8[0] == "bin" and e8[1] in ("Add", "AddWithOverflow") and fold(e8[3]) == 1 and isinstance(strip_casts(e8[2]), tuple) and strip_casts(e8[2])[0] == "var" and strip_casts(e8[2])[1] == st8["dst"]["l"]:
                            incs.setdefault(st8["dst"]["l"], []).append(b["id"])
                        elif isinstance(e8, tuple) and e8[0] == "bin" and e8[1] in ("Add", "AddWithOverflow") and fold(e8[3]) == 1:
                            # `tmp = c + 1; c = move tmp`: attribute the increment to the local that is read
                            src8 = strip_casts(e8[2])
                            if isinstance(src8, tuple) and src8[0] == "var":
                                incs.setdefault(src8[1], []).append(b["id"])
            for cl, inc_blocks in incs.items():
                guarded = []
                for b in fn["blocks"]:
                    if b["id"] not in ctx.cfg.live_blocks() or b.get("cleanup"):
                        continue
                    if not ctx.cfg.in_cycle(b["id"]):
                        continue
                    for i8, st8 in enumerate(b["stmts"]):
                        if st8["k"] == "assign" and not st8["dst"].get("p") and st8["dst"]["l"] in names8 and st8["dst"]["l"] != cl:
                            v8 = strip_casts(ctx.prov.rvalue(st8["rv"], (b["id"], i8)))
                            if not (isinstance(v8, tuple) and v8[0] == "agg" and v8[2] == "Some"):
                                continue
                            if any(f[0] == "cmp" and any(mentions(x, ctx.prov, lambda z: z[0] == "var" and z[1] == cl) for x in (f[2], f[3])) for f in panics.dominating_facts(ctx, b["id"])):
                                guarded.append(b["id"])
                if not guarded:
                    continue
                loose = [ib for ib in inc_blocks if not any(ctx.cfg.dominates(g, ib) for g in guarded)]
                ck.ob("C20.7", f"{short}|slot-counter-advances-only-with-a-positional|{names8.get(cl, cl)}", not loose, fn=p, site=ctx.site(loose[0]) if loose else None,
                      detail="the counter that selects the positional slot is advanced on a path that did not store a positional (an option token moves later positionals into the wrong slot)")
        # C20.7 (positional slots): a positional slot is filled only while it is still empty - the slot's own `is_none()` is among the
        # tests that lead to the store (a last slot filled by the chain's closing `else` swallows every surplus argument);
        # C20.5 (conversion): a value that does not convert is an error - the result of every FromStr::from_str is matched and its Err
        # side neither goes on parsing nor reaches a success return (`.ok()` would turn a malformed value into "not given")
        if p.endswith("::arg_parse"):
            names9 = {x["p"]["l"]: x["n"] for x in fn.get("names", []) if isinstance(x.get("p", {}).get("l"), int) and not x["p"].get("p")}
            for b in fn["blocks"]:
                if b["id"] not in ctx.cfg.live_blocks() or b.get("cleanup") or not ctx.cfg.in_cycle(b["id"]):
                    continue
                for i9, st9 in enumerate(b["stmts"]):
                    if st9["k"] != "assign" or st9["dst"].get("p") or st9["dst"]["l"] not in names9:
                        continue
                    v9 = strip_casts(ctx.prov.rvalue(st9["rv"], (b["id"], i9)))
                    if not (isinstance(v9, tuple) and v9[0] == "agg" and v9[2] == "Some"):
                        continue
                    slot_facts = [f for f in panics.dominating_facts(ctx, b["id"]) if f[0] == "variant" and isinstance(strip_casts(f[1]), tuple) and strip_casts(f[1])[0] == "var" and strip_casts(f[1])[1] in names9]
                    if not slot_facts:
                        continue        # an option's arm, not the positional chain
                    own = [f for f in slot_facts if strip_casts(f[1])[1] == st9["dst"]["l"] and f[2] == "None"]
                    ck.ob("C20.7", f"{short}|positional-slot-filled-only-while-empty|{names9[st9['dst']['l']]}", bool(own), fn=p, site=ctx.site(b["id"]),
                          detail=f"the positional `{names9[st9['dst']['l']]}` is stored without its own is_none() test: once it is filled, further bare arguments overwrite it instead of being refused")
            n_conv = 0
            okb9 = {b["id"] for b in fn["blocks"] if b["id"] in ctx.cfg.live_blocks() and any(s9["k"] == "assign" and s9["dst"]["l"] == 0 and not s9["dst"].get("p") and s9["rv"]["k"] == "agg" and s9["rv"].get("variant") == "Ok" for s9 in b["stmts"])}
            fetch9 = {bb for bb, t in ctx.cfg.calls(lambda t: (t.get("callee") or "").endswith("Iterator::next"))}
            for cb9, t9 in ctx.cfg.calls(lambda t: (t.get("callee") or "").endswith("FromStr::from_str")):
                n_conv += 1
                errs9 = [e for sb in ctx.cfg.live_blocks() if ctx.cfg.term(sb)["k"] == "switch" for e in ctx.cfg.succ[sb] for f in ctx.edge_facts(e)
                         if f[0] == "variant" and f[2] == "Err" and isinstance(strip_casts(f[1]), tuple) and strip_casts(f[1])[0] == "call" and strip_casts(f[1])[3] == cb9]
                good9 = bool(errs9) and not any(ctx.cfg.reachable_from(e.dst) & (okb9 | fetch9) for e in errs9)
                ck.ob("C20.5", f"{short}|malformed-value-is-an-error|{n_conv}", good9, fn=p, site=ctx.site(cb9),
                      detail="the result of FromStr::from_str is not matched with its Err side ending in an error: a value that does not convert is accepted as absent")
        # C20.3 (relevant help): an error raised by a parser carries THAT parser's help - the printer handed to ArgParseError::new_cause_* is
        # the help_printer of the type whose parser this is (an unknown option of a struct must show the struct's options, not only the
        # commands of its subcommand enum)
        if p.endswith(("::arg_parse", "::subcommand_parse")) and p.startswith("<"):
            self_t = p[1:].split(" as ")[0]
            foreign_help = []
            n_err = 0
            for eb, et in ctx.cfg.calls(lambda t: (t.get("callee") or "").endswith(("ArgParseError::new_cause_fmt", "ArgParseError::new_cause_str"))):
                n_err += 1
                a0 = ctx.args(eb)[0] if ctx.args(eb) else None
                hp = [z for z in walk_deep(a0, ctx.prov, limit=40) if z[0] == "call" and (z[1] or "").endswith("::help_printer")] if a0 is not None else []
                for z in hp:
                    tz = ctx.cfg.term(z[3])
                    res = tz.get("resolved") or ""
                    if res and not res.startswith("<" + self_t + " as "):
                        foreign_help.append((eb, res))
            if n_err:
                ck.ob("C20.3", f"{short}|{p.split('::')[-1]}|errors-carry-this-parsers-help", not foreign_help, fn=p, site=ctx.site(foreign_help[0][0]) if foreign_help else None,
                      detail=f"an error of this parser is built with another type's help text: {[r for _, r in foreign_help][:2]}")
        # C20.6: the declared grammar is the only thing that decides what happens to a token
        if p.endswith("::arg_parse"):
            ALLOWED_CONSUMERS = ("Try::branch", "FromResidual::from_residual", "fmt::Arguments::<'a>::new", "ArgParseError::new_cause_fmt", "ArgParseError::new_cause_str", "UnixStr::as_str", "FromStr::from_str",
                                 "Argument::<'_>::new_display", "Argument::<'_>::new_debug", "UnixStr::as_slice", "str::converts::from_utf8", "Option::<T>::is_none", "Option::<T>::is_some",
                                 "SubcommandParse::subcommand_parse", "ArgParse::arg_parse", "Vec::<T, A>::push", "Iterator::next", "Result::<T, E>::map_err", "Result::<T, E>::ok", "convert::From::from", "convert::Into::into")
            is_tok = lambda z: z[0] == "call" and (z[1] or "").endswith("Iterator::next")  # noqa: E731
            odd = []
            for bb, t in ctx.cfg.calls():
                cal = t.get("callee") or ""
                if cal.endswith(ALLOWED_CONSUMERS):
                    continue
                if any(any(is_tok(z) for z in walk_deep(a, ctx.prov, limit=80)) for a in ctx.args(bb)):
                    odd.append((bb, cal))
            ck.ob("C20.6", f"{short}|tokens-only-consumed-by-the-declared-grammar", not odd, fn=p, site=ctx.site(odd[0][0]) if odd else None,
                  detail=f"an argument token is inspected by {sorted({c for _, c in odd})}: outside the option-literal match, the value conversion and the error message nothing may look at a token's bytes or length (e.g. refusing positional values that start with '-' breaks the round trip for `-17`)")
            # a token the subcommand parser does not know (Ok(None)) is rejected, never silently dropped
            for sb, t in ctx.cfg.calls(lambda t: (t.get("callee") or "").endswith("SubcommandParse::subcommand_parse")):
                none_edges = []
                for swb in ctx.cfg.live_blocks():
                    if ctx.cfg.term(swb)["k"] != "switch":
                        continue
                    for e in ctx.cfg.succ[swb]:
                        for f in ctx.edge_facts(e):
                            if f[0] == "variant" and f[2] == "None" and mentions_call(f[1], ctx, [sb]):
                                none_edges.append(e)
                nexts_all = {bb for bb, t2 in ctx.cfg.calls(lambda t2: (t2.get("callee") or "").endswith("Iterator::next"))}
                okb2 = {b["id"] for b in fn["blocks"] if any(s2["k"] == "assign" and s2["dst"]["l"] == 0 and not s2["dst"].get("p") and s2["rv"]["k"] == "agg" and s2["rv"].get("variant") == "Ok" for s2 in b["stmts"])}
                rejected = bool(none_edges) and all(not (ctx.cfg.reachable_from(e.dst, avoid=nexts_all) & okb2) and any(rb in ctx.cfg.reachable_from(e.dst, avoid=nexts_all) for rb in ctx.cfg.return_blocks()) for e in none_edges)
                ck.ob("C20.6", f"{short}|unknown-command-token-is-rejected", rejected, fn=p, site=ctx.site(sb),
                      detail="the subcommand parser's `Ok(None)` (token is not one of my commands) is not turned into an error: unknown options, mistyped commands and junk tokens are accepted, and a junk token after a valid command resets it")
        # C20.4: literal sets vs help text
        lits = literals(ctx)
        n_lit += len(lits)
        self_ty = fn.get("impl_self") or ""
        printer = None
        hp = prog.fns.get(p.rsplit("::", 1)[0] + "::help_printer")
        if hp is not None:
            c2 = prog.ctx(hp)
            for rb, e in c2.ret_expr().items():
                for x in walk_deep(e, c2.prov):
                    if x[0] == "const" and x[2] and "HelpPrinter" in x[2]:
                        printer = x[2].lstrip("&")
                    if x[0] == "static" and "HelpPrinter" in x[1]:
                        printer = x[1]
        strs = sorted(l[:-1].decode(errors="replace") for l in lits if l.endswith(b"\0"))
        noterm = [l for l in lits if not l.endswith(b"\0")]
        ck.ob("C20.4", f"{short}|{p.split('::')[-1]}|literals-are-whole-arguments", not noterm, fn=p, detail=f"option literals compared without the argument's terminator (would match prefixes): {noterm}")
        ck.ob("C20.4", f"{short}|{p.split('::')[-1]}|arms-distinct", len(strs) == len(set(strs)), fn=p, detail=f"duplicate option literal among {strs}")
        if p.endswith("::arg_parse"):
            opts = [s for s in strs if s.startswith("-")]
            ck.ob("C20.4", f"{short}|help-arms", "-h" in opts and "--help" in opts, fn=p, detail=f"-h/--help must be accepted (literals {opts})")
            # help arms return Err
            for lit, arm in lits.items():
                if lit in (b"-h\0", b"--help\0"):
                    r = ctx.cfg.reachable_from(arm)
                    first_ret = [b for b in r if any(s["k"] == "assign" and s["dst"]["l"] == 0 and s["rv"]["k"] == "agg" and s["rv"].get("variant") in ("Ok", "Err") for s in ctx.cfg.block(b)["stmts"])]
                    calls_help = any(True for b in r if ctx.cfg.term(b)["k"] == "call" and (ctx.cfg.term(b).get("callee") or "").endswith("help_printer"))
                    ck.ob("C20.3", f"{short}|help-returns-error-value|{lit[:-1].decode()}", calls_help, fn=p, detail="a help request must yield an error value carrying the help printer")
        # sibling agreement with the help text
        ty_path = self_ty
        text = ""
        cands = [q for q in prog.fns if q.startswith("<" + crate + "::__" + short + "HelpPrinterZst as core::fmt::Display>::fmt")]
        if cands:
            text = help_text(prog, crate + "::__" + short + "HelpPrinterZst")
        if text and p.endswith("::arg_parse"):
            listed = set(re.findall(r"(?<![\w-])(--[A-Za-z0-9][A-Za-z0-9_-]*|-[A-Za-z])(?![\w-])", text.split("Options:")[-1] if "Options:" in text else ""))
            accepted = {s for s in strs if s.startswith("-")} - {"-h", "--help"}
            ck.ob("C20.4", f"{short}|parser-accepts-exactly-the-listed-options", accepted == listed - {"-h", "--help"}, fn=p,
                  detail=f"options accepted by the generated decision tree {sorted(accepted)} differ from the options its help text lists {sorted(listed)}")
        if text and p.endswith("::arg_parse"):
            # every alias the help text gives one option leads to the same arm, and a declared option's arm is not the help arm: an option
            # the grammar declares (even `-h`, when a field claims it) must parse as that option
            help_arm = lits.get(b"--help\0")
            opt_section = text.split("Options:")[-1] if "Options:" in text else ""
            for line in opt_section.split("\n"):
                grp = re.findall(r"(?<![\w-])(--[A-Za-z0-9][A-Za-z0-9_-]*|-[A-Za-z])(?![\w-])", line) if re.match(r"^\s{2,6}-", line) else []
                if not grp or set(grp) <= {"-h", "--help"}:
                    continue
                arms = {g: lits.get(g.encode() + b"\0") for g in grp}
                ck.ob("C20.4", f"{short}|declared-option-reaches-its-own-arm|{','.join(grp)}", len(set(arms.values())) == 1 and None not in arms.values() and help_arm not in arms.values(), fn=p,
                      detail=f"the help text declares {grp} as one option, the decision tree sends them to arms {arms} (help arm: bb{help_arm}): a declared alias that lands in the help arm, or in another option's arm, cannot be parsed back")
        if p.endswith("::subcommand_parse"):
            # the declared grammar of a Subcommand enum is its tags: each tag is accepted under its kebab-case name, and nothing else is
            adt = prog.adts.get(self_ty)
            if ck.anchor("C20.4", f"{short}|enum definition", adt):
                def kebab(n):
                    return "".join(("-" if i and ch.isupper() else "") + ch.lower() for i, ch in enumerate(n))
                tags = {kebab(v["name"]) for v in adt["variants"]}
                ck.ob("C20.4", f"{short}|every-tag-is-a-command", tags == set(strs), fn=p,
                      detail=f"the enum declares the tags {sorted(tags)}, the generated parser accepts {sorted(strs)}: a tag without an arm can never be parsed (and is missing from the help text too, so parser and help still agree with each other)")
        if text and p.endswith("::subcommand_parse"):
            listed = set(re.findall(r"^\s{2}([a-z][a-z0-9_-]*)(?=\s|$)", text.split("Commands:")[-1], re.M))
            # names handed to format_args! as `&&str` arguments (commands with a doc line) arrive as bare strings
            listed |= {t for t in text.split("\n") if re.fullmatch(r"[a-z][a-z0-9-]*", t)}
            accepted = set(strs)
            ck.ob("C20.4", f"{short}|parser-accepts-exactly-the-listed-commands", listed == accepted and bool(accepted), fn=p,
                  detail=f"commands accepted by the generated decision tree {sorted(accepted)} differ from the commands its help text lists {sorted(listed)}")
    ck.floor("C20.4", f"option/command literals ({crate})", n_lit, n_literals)
    if cli_types:
        check_cli_types(ck, prog)


def check_cli_types(ck, prog):
    cap = prog.const(CLI + "STACK_BUFFER_CAP")
    ck.ob("C20.2", "anchor|capacity", cap == 128, detail=f"STACK_BUFFER_CAP = {cap}")
    fns = [(p, f) for p, f in sorted(prog.fns.items()) if f["crate"] == "tiny_std" and ("cli::ArgParseCauseBuffer" in p or "cli::ArgParseError" in p)]
    ck.floor("C20.1", "cli error-type functions", len(fns), 6)
    for p, fn in fns:
        ctx = prog.ctx(fn)
        for s in panics.sites(ctx):
            ok, why = panics.discharge(ctx, s)
            if not ok and s["key"] in REVIEWED:
                ok, why = True, "reviewed: " + REVIEWED[s["key"]]
            if not ok and s["kind"] in ("call:unwrap", "call:copy_from_slice") and "write_str" in p:
                # both follow the capacity test: get_mut(len..len+n) is in range and source/destination lengths are equal
                facts = panics.dominating_facts(ctx, s["bb"])
                guarded = any(f[0] == "cmp" and f[1] == "Le" and mentions(f[2], ctx.prov, lambda z: z[0] == "call" and (z[1] or "").endswith("::len")) for f in facts)
                if guarded:
                    ok, why = True, "after the capacity test: len + n <= CAP, ranges have equal length"
            ck.ob("C20.1", f"cli|{p.split('::')[-1]}|{s['key'][:90]}", ok, fn=p, site=span_str(s["sp"]), detail=("reachable panic in the error path: " if not ok else "") + why)
    ws = [f for p, f in prog.fns.items() if "cli::ArgParseCauseBuffer as core::fmt::Write>::write_str" in p]
    if ck.anchor("C20.2", "ArgParseCauseBuffer::write_str", ws):
        ctx = prog.ctx(ws[0])
        cp = [bb for bb, t in ctx.cfg.calls(lambda t: (t.get("callee") or "").endswith("copy_from_slice"))]
        ck.ob("C20.2", "one-copy", len(cp) == 1, fn=ws[0]["path"], detail=f"copy sites {len(cp)}")
        for cb in cp:
            facts = panics.dominating_facts(ctx, cb)
            ok = False
            for f in facts:
                if f[0] == "cmp" and f[1] == "Le":
                    l, r = strip_casts(f[2]), strip_casts(f[3])
                    if mentions(l, ctx.prov, lambda z: z[0] == "call" and (z[1] or "").endswith("::len")) and isinstance(r, tuple) and r[0] == "bin" and r[1] == "Sub" and fold(r[2]) == cap and mentions(r[3], ctx.prov, lambda z: z[0] == "field" and z[2] == "len"):
                        ok = True
                    # the same test with the sum on the left: self.len + len(s) <= CAP
                    if isinstance(l, tuple) and l[0] == "bin" and l[1] == "Add" and fold(r) == cap and any(mentions(x, ctx.prov, lambda z: z[0] == "call" and (z[1] or "").endswith("::len")) for x in (l[2], l[3])) and \
                            any(mentions(x, ctx.prov, lambda z: z[0] == "field" and z[2] == "len") for x in (l[2], l[3])):
                        ok = True
            ck.ob("C20.2", "copy-under-capacity-test", ok, fn=ws[0]["path"], site=ctx.site(cb), detail="the copy into the 128-byte cause buffer must be dominated by len(s) <= CAP - self.len")
            errs = [b["id"] for b in ws[0]["blocks"] if any(s["k"] == "assign" and s["dst"]["l"] == 0 and s["rv"]["k"] == "agg" and s["rv"].get("variant") == "Err" for s in b["stmts"])]
            ck.ob("C20.2", "overflow-is-an-error", len(errs) >= 1, fn=ws[0]["path"], detail="an oversized cause must make write_str return Err")
    # who sets `len`
    writers = set()
    for p, f in prog.fns.items():
        if f["crate"] != "tiny_std":
            continue
        for b in f["blocks"]:
            for s in b["stmts"]:
                if s["k"] == "assign" and s["dst"].get("p") and s["dst"]["p"][-1]["k"] == "field" and s["dst"]["p"][-1].get("n") == "len" and (s["dst"]["p"][-1].get("adt") or "").endswith("ArgParseCauseBuffer"):
                    writers.add(p)
    ck.ob("C20.2", "length-writers", all("write_str" in w for w in writers) and len(writers) == 1, detail=f"functions assigning ArgParseCauseBuffer.len: {sorted(writers)}")
    # constant initialiser OVERFLOW_BUF: declared len <= CAP and within the message text (memory image of the evaluated constant)
    ob = next((v for k, v in prog.consts.items() if k.endswith("cli::ArgParseError::OVERFLOW_BUF")), None)
    om = next((v for k, v in prog.consts.items() if k.endswith("cli::ArgParseError::OVERFLOW_MSG")), None)
    ck.anchor("C20.2", "OVERFLOW_BUF constant image", bool(ob and ob.get("mem") and om and om.get("mem") and cap))
    if ob and ob.get("mem") and om and om.get("mem") and cap:
        mem, msg = ob["mem"], om["mem"]
        declared = None
        if len(mem) == cap + 8 and len(msg) == cap:
            if mem[:cap] == msg:
                declared = int.from_bytes(bytes(mem[cap:]), "little")
            elif mem[8:] == msg:
                declared = int.from_bytes(bytes(mem[:8]), "little")
        text_len = len(bytes(msg).rstrip(b"\0"))
        ok = declared is not None and declared <= cap and declared <= text_len
        try:
            bytes(msg[:declared or 0]).decode("utf-8")
        except UnicodeDecodeError:
            ok = False
        ck.ob("C20.2", "overflow-buffer-declared-length-within-text", ok, detail=f"OVERFLOW_BUF declares len={declared}; capacity {cap}, message text {text_len} bytes (Display slices buf[..len])")
    for p, f in prog.fns.items():
        if p.endswith("cli::ArgParseError::new_cause_str") or p.endswith("cli::ArgParseError::new_cause_fmt"):
            ctx = prog.ctx(f)
            uses_overflow = any(mentions(ctx.prov.rvalue(s["rv"], (b["id"], i)), ctx.prov, lambda z: z[0] == "const" and z[2] and z[2].endswith("OVERFLOW_BUF")) for b in f["blocks"] for i, s in enumerate(b["stmts"]) if s["k"] == "assign")
            clos = [q for q in prog.fns if q.startswith(p + "::{closure")]
            for q in clos:
                c2 = prog.ctx(q)
                uses_overflow = uses_overflow or any(mentions(c2.prov.rvalue(s["rv"], (b["id"], i)), c2.prov, lambda z: z[0] == "const" and z[2] and z[2].endswith("OVERFLOW_BUF")) for b in prog.fns[q]["blocks"] for i, s in enumerate(b["stmts"]) if s["k"] == "assign")
            ck.ob("C20.2", f"{p.split('::')[-1]}|overflow-yields-fixed-error", uses_overflow, fn=p, detail="on overflow the constructor must return the fixed OVERFLOW_BUF error")
