"""C03 — allocator: OOM gives null and leaves the heap usable; entry points serialised; size-class constants agree."""
from ..engine.prov import const_value, strip_casts, walk, walk_deep, show
from ..engine.dtable import canon
from ..engine.fold import fold
from ..engine import panics
from ..engine.cfg import span_str
from .c12 import mentions

CONFIGS_QUICK = ["A", "C"]
CONFIGS_THOROUGH = ["A", "C", "R", "X"]

EXPLANATION = (
    "Decided (static, MIR): C03.1 kernel refusal becomes null/false at the boundary: the four raw mapping functions test each MMAP/MREMAP result with is_syscall_error before turning it into a pointer, MUNMAP results are compared with 0; "
    "C03.2 no allocator state is written on the refusal edge: in sys_alloc and mmap_resize the path from the mapping call through the is_null() edge to return contains no store through self; "
    "C03.3 every consumer checks before use: a pointer returned by a may-return-null allocator function is only returned, compared or passed to is_null until an is_null() == false edge dominates its first other use; "
    "C03.4 the old block survives a failed reallocation: free(old) and the copy are dominated by the new pointer's non-null edge; "
    "C03.5 serialisation: in the threaded configuration every GlobalAlloc method reaches the Dlmalloc instance only through a guard obtained from Mutex::lock in the same body, the allocator static is private; "
    "in the single-threaded configuration that variant is the only one compiled; C03.6 the size-class constants satisfy the relations the unchecked bin indexing and the boundary tags rely on. "
    "C03.7 contents: calloc zeroes the whole request unless the block is null or its own fresh kernel mapping and no other condition guards the zeroing, alloc_zeroed goes through calloc, a moving reallocation copies min(old, new) bytes old->new before freeing the old block; "
    "C03.8 a failed in-place resize mutates nothing: no store or mutating call in try_realloc_chunk lies on a path that then returns null. "
    "C03.10 inner_malloc / inner_realloc (natural alignment only) are reached only under align <= MALLOC_ALIGNMENT; C03.9 an over-aligned request reserves at least request2size(bytes) + alignment + MIN_CHUNK_SIZE - CHUNK_OVERHEAD and splits its tail only when a whole chunk remains. "
    "C03.11 in free and dispose_chunk every path after `self.top = p` tests p == dv and clears dv/dvsize when it holds (a chunk merged into top is retired as designated victim). "
    "C03.12 insert_large_chunk clears both child pointers of the inserted chunk on every path (also for a chunk that only joins a same-size ring). "
    "C03.13 a chunk found by its address is unlinked only after it was compared with dv (and top, for a following chunk) and found free; C03.14 the two directions of a chunk link (next/prev, child/parent) are written together. "
    "C03.15 every split / no-split decision compares the remainder with MIN_CHUNK_SIZE. C03.16 sys_alloc extends top in place only for the segment that holds top. C03.17 replace_dv is called only on the small-request paths. C03.18 release_unused_segments does not carry a released segment's record forward as predecessor. "
    "C03.19 a head written as `size | PINUSE` (free, no foot) belongs to the chunk the same function makes top; C03.20 add_segment places the old segment's record at old_top or at least MIN_CHUNK_SIZE above it. NOT decided: alignment, disjointness and intactness of live blocks - invariants of the bin/tree/segment shape over call histories (the module's own check_malloc_state is a run-time checker); no structural rule in reach establishes them.")
ASSUMPTIONS = ["dlmalloc's heap-shape invariants hold (not established here)", "MUNMAP returns 0 or -errno"]

D = "tiny_std::allocator::dlmalloc::"
DL = D + "Dlmalloc::"
MAY_NULL = [DL + n for n in ("inner_malloc", "malloc", "memalign", "sys_alloc", "tmalloc_large", "tmalloc_small", "inner_realloc", "realloc", "calloc")] + [D + "syscall_remap"]
MAY_NULL_CHUNK = [DL + "try_realloc_chunk", DL + "mmap_resize"]
OK_BEFORE_CHECK = ("is_null", "PartialEq", "core::ptr::null")


def run(ck, progs, tier):
    for cfgname, prog in progs.items():
        ck.set_config(prog)
        run_one(ck, prog)


def nonnull_edges(ctx, call_bb):
    """edges on which is_null(result of call_bb) is false."""
    out = []
    for sb in ctx.cfg.live_blocks():
        if ctx.cfg.term(sb)["k"] != "switch":
            continue
        for e in ctx.cfg.succ[sb]:
            for f in ctx.edge_facts(e):
                if f[0] == "truth" and isinstance(f[1], tuple) and f[1][0] == "call" and (f[1][1] or "").endswith("::is_null") and f[1][2]:
                    if mentions(f[1][2][0], ctx.prov, lambda z: z[0] == "call" and z[3] == call_bb):
                        # `!p.is_null()` arrives as truth(is_null)=False on the taken edge
                        if f[2] is False:
                            out.append(e)
    return out


def run_one(ck, prog):
    if not ck.anchor("C03.0", "Dlmalloc", prog.adts.get(D + "Dlmalloc")):
        return
    # ---- C03.1 boundary classification --------------------------------------------------------------------------------
    for nm in ("syscall_alloc", "syscall_remap", "syscall_free_part", "syscall_free"):
        fn = prog.fns.get(D + nm)
        if not ck.anchor("C03.1", nm, fn):
            continue
        ctx = prog.ctx(fn)
        from ..engine.cfg import is_raw_syscall
        for bb, t in ctx.cfg.calls(lambda t: is_raw_syscall(t.get("callee"))):
            a = ctx.args(bb)
            nr = fold(a[0])
            name = {9: "MMAP", 25: "MREMAP", 11: "MUNMAP", 222: "MMAP", 216: "MREMAP", 215: "MUNMAP"}.get(nr, str(nr))
            if name in ("MMAP", "MREMAP"):
                cls = [b2 for b2, t2 in ctx.cfg.calls(lambda t2: (t2.get("callee") or "").endswith("is_syscall_error")) if mentions(ctx.args(b2)[0], ctx.prov, lambda z: z[0] == "call" and z[3] == bb)]
                ck.ob("C03.1", f"{nm}|{name}|classified", len(cls) == 1, fn=fn["path"], site=ctx.site(bb), detail=f"the {name} result must be tested with is_syscall_error before being used as a pointer")
                # pointer casts of the result only on the non-error edge
                for b in fn["blocks"]:
                    for i, s in enumerate(b["stmts"]):
                        if s["k"] == "assign" and s["rv"]["k"] == "cast" and "Pointer" in s["rv"]["ck"] and b["id"] in ctx.cfg.live_blocks():
                            e = ctx.prov.operand(s["rv"]["a"], (b["id"], i))
                            if mentions(e, ctx.prov, lambda z: z[0] == "call" and z[3] == bb):
                                facts = panics.dominating_facts(ctx, b["id"])
                                ok = any(f[0] == "truth" and f[2] is False and isinstance(f[1], tuple) and f[1][0] == "call" and (f[1][1] or "").endswith("is_syscall_error") for f in facts)
                                ck.ob("C03.1", f"{nm}|{name}|pointer-only-on-success", ok, fn=fn["path"], detail="an error value of the mapping call is turned into a pointer (would be handed out as memory)")
            else:
                # MUNMAP: compared with 0
                ok = False
                for b in fn["blocks"]:
                    for i, s in enumerate(b["stmts"]):
                        if s["k"] == "assign" and s["rv"]["k"] == "binop" and s["rv"]["op"] == "Eq":
                            e = ctx.prov.rvalue(s["rv"], (b["id"], i))
                            if mentions(e[2], ctx.prov, lambda z: z[0] == "call" and z[3] == bb) and fold(e[3]) == 0:
                                ok = True
                ck.ob("C03.1", f"{nm}|MUNMAP|compared-with-zero", ok, fn=fn["path"], site=ctx.site(bb), detail="MUNMAP success must be `== 0`")

    # ---- C03.2 no state change on refusal ---------------------------------------------------------------------------------------
    for nm, mapper in (("sys_alloc", "syscall_alloc"), ("mmap_resize", "syscall_remap")):
        fn = prog.fns.get(DL + nm)
        if not ck.anchor("C03.2", nm, fn):
            continue
        ctx = prog.ctx(fn)
        cfg = ctx.cfg
        calls = [bb for bb, t in cfg.calls(lambda t: (t.get("callee") or "").endswith(mapper))]
        ck.ob("C03.2", f"{nm}|anchor|mapping-call", len(calls) == 1, fn=fn["path"], detail=f"{mapper} calls: {len(calls)}")
        for cb in calls:
            null_edges = []
            for sb in cfg.live_blocks():
                if cfg.term(sb)["k"] != "switch":
                    continue
                for e in cfg.succ[sb]:
                    for f in ctx.edge_facts(e):
                        if f[0] == "truth" and f[2] is True and isinstance(f[1], tuple) and f[1][0] == "call" and (f[1][1] or "").endswith("::is_null") and mentions(f[1][2][0], ctx.prov, lambda z: z[0] == "call" and z[3] == cb):
                            null_edges.append(e)
            ck.ob("C03.2", f"{nm}|null-checked", len(null_edges) >= 1, fn=fn["path"], site=ctx.site(cb), detail="the mapping result must be null-checked")
            for e in null_edges:
                # blocks between the call and the edge + blocks after the edge until return: no store through self
                region = (cfg.reachable_from(cfg.term(cb).get("t")) - cfg.reachable_from(e.dst)) | cfg.reachable_from(e.dst)
                region = {b for b in region if b in cfg.reachable_from(cfg.term(cb).get("t")) and (b == e.src or b in cfg.reachable_from(e.dst) or cfg.dominates(b, e.src))}
                writes = []
                for b in region:
                    for s in cfg.block(b)["stmts"]:
                        if s["k"] == "assign" and s["dst"].get("p") and s["dst"]["l"] == 1 and s["dst"]["p"][0]["k"] == "deref":
                            writes.append(b)
                # stores after the edge matter; stores before the switch are on both paths -> also counted
                after = [b for b in writes if b in cfg.reachable_from(e.dst) or cfg.dominates(b, e.src)]
                ck.ob("C03.2", f"{nm}|no-state-change-on-refusal", not after and any(rb in cfg.reachable_from(e.dst) for rb in cfg.return_blocks()), fn=fn["path"], site=ctx.site(e.src),
                      detail="allocator state is modified on the path where the OS refused memory: after a failed grow the heap must be exactly as before")

    # ---- C03.3 consumers check before use -----------------------------------------------------------------------------------------
    n_cons = 0
    for p, fn in sorted(prog.fns.items()):
        if not p.startswith(D) or "check_" in p or "::tests" in p:
            continue
        ctx = None
        for b in fn["blocks"]:
            t = b["term"]
            if t["k"] != "call" or b.get("cleanup"):
                continue
            c = t.get("callee")
            if c not in MAY_NULL and c not in MAY_NULL_CHUNK:
                continue
            ctx = ctx or prog.ctx(fn)
            cb = b["id"]
            if cb not in ctx.cfg.live_blocks():
                continue
            if t["dst"]["l"] == 0 and not t["dst"].get("p"):
                continue   # forwarded to the caller, who must check
            n_cons += 1
            nn = nonnull_edges(ctx, cb)
            # uses of the result in calls other than is_null / comparisons / returning it
            bad = []
            for b2, t2 in ctx.cfg.calls():
                if b2 == cb:
                    continue
                c2 = t2.get("callee") or ""
                if any(x in c2 for x in OK_BEFORE_CHECK):
                    continue
                args = ctx.args(b2)
                if any(is_direct_use(a, cb) for a in args):
                    if not any(ctx.cfg.edge_dominates(e, b2) for e in nn):
                        bad.append((b2, c2))
            # dereferences: assignments whose place derefs the result
            for b3 in fn["blocks"]:
                if b3["id"] not in ctx.cfg.live_blocks() or b3.get("cleanup"):
                    continue
                for i, s in enumerate(b3["stmts"]):
                    if s["k"] == "assign" and s["dst"].get("p") and s["dst"]["p"][0]["k"] == "deref":
                        e = ctx.prov.place({"l": s["dst"]["l"]}, (b3["id"], i))
                        if is_direct_use(e, cb) and not any(ctx.cfg.edge_dominates(ed, b3["id"]) for ed in nn):
                            bad.append((b3["id"], "store through the pointer"))
            nth = [bb for bb, tt in ctx.cfg.calls(lambda tt: tt.get("callee") == c)].index(cb)
            ck.ob("C03.3", f"{p}|{c.split('::')[-1]}#{nth}|checked-before-use", not bad, fn=p, site=ctx.site(cb),
                  detail=f"the result of {c.split('::')[-1]} may be null (out of memory) but is used without a dominating null check: {[(ctx.site(b_), w) for b_, w in bad[:3]]}")
    ck.floor("C03.3", "consumer sites of may-null results", n_cons, 8)

    # ---- C03.4 old block survives a failed realloc -----------------------------------------------------------------------------------
    for nm, newcall in ((DL + "inner_realloc", DL + "inner_malloc"), (DL + "realloc", DL + "malloc")):
        fn = prog.fns.get(nm)
        if not ck.anchor("C03.4", nm, fn):
            continue
        ctx = prog.ctx(fn)
        news = [bb for bb, t in ctx.cfg.calls(lambda t: t.get("callee") == newcall)]
        frees = [bb for bb, t in ctx.cfg.calls(lambda t: t.get("callee") == DL + "free")]
        copies = [bb for bb, t in ctx.cfg.calls(lambda t: (t.get("callee") or "").endswith("copy_nonoverlapping"))]
        ck.ob("C03.4", f"{nm.split('::')[-1]}|shape", len(news) == 1 and len(frees) == 1, fn=nm, detail=f"new-block calls {len(news)}, free calls {len(frees)}")
        if news and frees:
            nn = nonnull_edges(ctx, news[0])
            ck.ob("C03.4", f"{nm.split('::')[-1]}|old-freed-only-after-new-succeeded", any(ctx.cfg.edge_dominates(e, frees[0]) for e in nn), fn=nm, site=ctx.site(frees[0]),
                  detail="the old block is freed although the new allocation may have failed: the caller keeps using a freed block (GlobalAlloc::realloc must leave the old block valid on failure)")
            for cb in copies:
                ck.ob("C03.4", f"{nm.split('::')[-1]}|copy-only-after-new-succeeded", any(ctx.cfg.edge_dominates(e, cb) for e in nn), fn=nm, site=ctx.site(cb), detail="contents are copied into a possibly-null block")

            # contents: copy(old, new, min(old usable, new size)) happens before free(old), from the old block into the new one
            for cb in copies:
                a = ctx.args(cb)
                src_old = mentions(a[0], ctx.prov, lambda z: z[0] == "param" and z[1] == 2) and not mentions(a[0], ctx.prov, lambda z: z[0] == "call" and z[3] == news[0])
                dst_new = mentions(a[1], ctx.prov, lambda z: z[0] == "call" and z[3] == news[0])
                ln = strip_casts(a[2])
                is_min = isinstance(ln, tuple) and ln[0] == "call" and (ln[1] or "").endswith("cmp::min") and any(canon(x) in ("p3", "p5") for x in ln[2])
                if not is_min and isinstance(ln, tuple) and ln[0] == "var" and len(ln[3]) == 2:
                    # the minimum written as a branch: `if a < b { a } else { b }` - each value is chosen on the edge where it is the smaller
                    picks = []
                    for (dbb, di) in ln[3]:
                        blk = ctx.cfg.block(dbb)
                        if di < len(blk["stmts"]) and blk["stmts"][di]["k"] == "assign":
                            picks.append((dbb, strip_casts(ctx.prov.rvalue(blk["stmts"][di]["rv"], (dbb, di)))))
                    if len(picks) == 2:
                        (b1, v1), (b2, v2) = picks

                        def smaller_here(bb_, x, y):
                            cx, cy = canon(x), canon(y)
                            for f in panics.dominating_facts(ctx, bb_):
                                if f[0] != "cmp":
                                    continue
                                l_, r_ = canon(strip_casts(f[2])), canon(strip_casts(f[3]))
                                if (f[1] in ("Lt", "Le") and (l_, r_) == (cx, cy)) or (f[1] in ("Gt", "Ge") and (l_, r_) == (cy, cx)):
                                    return True
                            return False
                        is_min = smaller_here(b1, v1, v2) and smaller_here(b2, v2, v1) and any(canon(x) in ("p3", "p5") for x in (v1, v2))
                ck.ob("C03.7", f"{nm.split('::')[-1]}|prefix-copied-old-to-new", src_old and dst_new and is_min and ctx.cfg.dominates(cb, frees[0]), fn=nm, site=ctx.site(cb),
                      detail=f"a moving reallocation must copy min(old, new) bytes from the old block into the new one before freeing the old one; got copy({show(a[0])}, {show(a[1])}, {show(a[2])})")
            ck.ob("C03.7", f"{nm.split('::')[-1]}|one-copy", len(copies) == 1, fn=nm, detail=f"copy sites {len(copies)}")
            fa = ctx.args(frees[0])
            ck.ob("C03.7", f"{nm.split('::')[-1]}|frees-the-old-block", len(fa) >= 2 and canon(fa[1]) == "p2", fn=nm, site=ctx.site(frees[0]), detail=f"free must be given the old pointer, got {show(fa[1]) if len(fa) > 1 else None}")

    # ---- C03.7 zeroed allocation zeroes ------------------------------------------------------------------------------------------------------
    cal = prog.fns.get(DL + "calloc")
    if ck.anchor("C03.7", "calloc", cal):
        ctx = prog.ctx(cal)
        cfg = ctx.cfg
        mal = [bb for bb, t in cfg.calls(lambda t: t.get("callee") == DL + "malloc")]
        wb = [bb for bb, t in cfg.calls(lambda t: (t.get("callee") or "").endswith("write_bytes"))]
        ck.ob("C03.7", "calloc|shape", len(mal) == 1 and len(wb) == 1, fn=cal["path"], detail=f"malloc calls {len(mal)}, write_bytes calls {len(wb)}")
        if len(mal) == 1 and len(wb) == 1:
            a = ctx.args(wb[0])
            ck.ob("C03.7", "calloc|zeroes-the-whole-request", is_direct_use(a[0], mal[0]) and fold(a[1]) == 0 and canon(a[2]) == "p2", fn=cal["path"], site=ctx.site(wb[0]),
                  detail=f"write_bytes must cover (block, 0, size); got ({show(a[0])}, {show(a[1])}, {show(a[2])})")
            # the zeroing may be skipped only for a null block or one calloc_must_clear() exempts: no other condition guards it
            extra = []
            for f in panics.dominating_facts(ctx, wb[0]):
                okf = f[0] == "truth" and isinstance(f[1], tuple) and f[1][0] == "call" and (
                    ((f[1][1] or "").endswith("::is_null") and f[2] is False) or ((f[1][1] or "").endswith("calloc_must_clear") and f[2] is True)) and f[1][2] and is_direct_use(f[1][2][0], mal[0])
                if not okf:
                    extra.append(f)
            ck.ob("C03.7", "calloc|zeroing-skipped-only-for-null-or-exempt-blocks", not extra, fn=cal["path"], site=ctx.site(wb[0]),
                  detail=f"the zeroing is guarded by a further condition ({'; '.join(show(f[1]) if f[0] == 'truth' else f'{show(f[2])} {f[1]} {show(f[3])}' for f in extra)}): a block carved from recycled memory comes back dirty whenever that condition fails")
            rets = list(ctx.ret_expr().values())
            def all_defs_direct(e, depth=0):
                e2 = strip_casts(e)
                if isinstance(e2, tuple) and e2 and e2[0] == "var" and depth < 6:
                    ds = ctx.prov.expand(e2)
                    return bool(ds) and all(all_defs_direct(d, depth + 1) for d in ds)
                return is_direct_use(e, mal[0])
            ck.ob("C03.7", "calloc|returns-the-block", len(rets) >= 1 and all(all_defs_direct(r) for r in rets), fn=cal["path"], detail="calloc must return malloc's block")
    cmc = prog.fns.get(DL + "calloc_must_clear")
    if ck.anchor("C03.7", "calloc_must_clear", cmc):
        c2 = prog.ctx(cmc)
        rets = [strip_casts(v) for v in c2.ret_expr().values()]
        ok = len(rets) == 1 and isinstance(rets[0], tuple) and rets[0][0] == "un" and rets[0][1] == "Not" and isinstance(strip_casts(rets[0][2]), tuple) and strip_casts(rets[0][2])[0] == "call" and \
            (strip_casts(rets[0][2])[1] or "").endswith("Chunk::mmapped") and mentions(rets[0][2], c2.prov, lambda z: z[0] == "call" and (z[1] or "").endswith("Chunk::from_mem") and z[2] and canon(z[2][0]) == "p1")
        ck.ob("C03.7", "calloc_must_clear|only-direct-mappings-exempt", ok, fn=cmc["path"], detail=f"only a block that is its own fresh kernel mapping (Chunk::mmapped) may skip zeroing; calloc_must_clear returns {[show(r) for r in rets]}")
    ga_z = [f for p2, f in prog.fns.items() if p2.endswith("GlobalAlloc>::alloc_zeroed") and "allocator" in p2]
    for f in ga_z:
        c3 = prog.ctx(f)
        callee = [t.get("callee") for _, t in c3.cfg.calls(lambda t: (t.get("callee") or "").startswith(DL))]
        ck.ob("C03.7", f"alloc_zeroed-uses-calloc|{f['path'].split(' as ')[0].split('::')[-1]}", callee == [DL + "calloc"], fn=f["path"], detail=f"alloc_zeroed must go through Dlmalloc::calloc; it calls {callee}")
    ck.floor("C03.7", "alloc_zeroed implementations", len(ga_z), 1)

    # ---- C03.9 an over-aligned request reserves enough room to find an aligned chunk of the full size -------------------------------------------
    ma = prog.fns.get(DL + "memalign")
    if ck.anchor("C03.9", "memalign", ma):
        from .c07 import Lin
        cm = prog.ctx(ma)
        lin = Lin(cm)
        im = [bb for bb, t in cm.cfg.calls(lambda t: t.get("callee") == DL + "inner_malloc")]
        ck.ob("C03.9", "anchor|one-inner_malloc", len(im) == 1, fn=ma["path"], detail=f"inner_malloc calls in memalign: {len(im)}")
        mcs, coh = prog.const(DL + "MIN_CHUNK_SIZE"), prog.const(DL + "CHUNK_OVERHEAD")
        if im and isinstance(mcs, int) and isinstance(coh, int):
            req = lin.of(cm.args(im[0])[1])
            terms = req[0] if req else {}
            nb_terms = [t for t in terms if "request2size" in t]
            al_terms = [t for t in terms if t not in nb_terms and ("alignment" in t or "p2" in t)]   # the (possibly raised) alignment parameter
            ok = req is not None and len(terms) == 2 and len(nb_terms) == 1 and len(al_terms) == 1 and terms[nb_terms[0]] == 1 and terms[al_terms[0]] == 1 and req[1] >= mcs - coh
            ck.ob("C03.9", "memalign-reserves-nb+alignment+min_chunk-overhead", ok, fn=ma["path"], site=cm.site(im[0]),
                  detail=f"memalign must ask for at least request2size(bytes) + alignment + MIN_CHUNK_SIZE - CHUNK_OVERHEAD (= +{mcs - coh}) bytes: the aligned spot may have to move one alignment step up to leave a leader of MIN_CHUNK_SIZE, and what remains must still hold the padded request; it asks for {req} - with less, the block handed out can be shorter than requested and its tail overlaps the next chunk")
            # the block handed out is never shorter than nb: the tail is split off only under size > nb + MIN_CHUNK_SIZE, at offset nb
            for bb, t in cm.cfg.calls(lambda t: (t.get("callee") or "").endswith("Chunk::plus_offset")):
                a = cm.args(bb)
                if mentions(a[1], cm.prov, lambda z: z[0] == "call" and (z[1] or "").endswith("request2size")):
                    fs = panics.dominating_facts(cm, bb)
                    guarded = any(f[0] == "cmp" and f[1] in ("Gt", "Ge") and mentions(f[2], cm.prov, lambda z: z[0] == "call" and (z[1] or "").endswith("Chunk::size")) and mentions(f[3], cm.prov, lambda z: z[0] == "call" and (z[1] or "").endswith("request2size")) and mentions(f[3], cm.prov, lambda z: z[0] == "const" and z[2] and z[2].endswith("MIN_CHUNK_SIZE")) for f in fs)
                    ck.ob("C03.9", "tail-split-only-when-a-whole-chunk-remains", guarded and canon(strip_casts(a[1])) == canon(strip_casts(cm.args(bb)[1])), fn=ma["path"], site=cm.site(bb), detail="the spare tail may be split off only under size > nb + MIN_CHUNK_SIZE")

    # ---- C03.10 the plain paths (inner_malloc / inner_realloc guarantee MALLOC_ALIGNMENT only) are taken only for align <= MALLOC_ALIGNMENT
    MA = prog.const(DL + "MALLOC_ALIGNMENT")
    for nm, plain, arg_idx in (("malloc", "inner_malloc", 3), ("realloc", "inner_realloc", 4)):
        f10 = prog.fns.get(DL + nm)
        if not ck.anchor("C03.10", nm, f10):
            continue
        c10 = prog.ctx(f10)
        for bb, t in c10.cfg.calls(lambda t: t.get("callee") == DL + plain):
            facts = panics.dominating_facts(c10, bb)
            bounds = [fold(f[3]) for f in facts if f[0] == "cmp" and f[1] in ("Le", "Lt") and canon(strip_casts(f[2])) == f"p{arg_idx}" and fold(f[3]) is not None] + \
                     [fold(f[2]) for f in facts if f[0] == "cmp" and f[1] in ("Ge", "Gt") and canon(strip_casts(f[3])) == f"p{arg_idx}" and fold(f[2]) is not None]
            ok = isinstance(MA, int) and bool(bounds) and min(bounds) <= MA
            ck.ob("C03.10", f"{nm}|plain-path-only-for-natural-alignment", ok, fn=f10["path"], site=c10.site(bb),
                  detail=f"{plain} only guarantees MALLOC_ALIGNMENT ({MA}) - it may be used only under align <= {MA}; dominating bounds on the alignment: {bounds}. A looser bound hands out / moves blocks that are not aligned as requested")
    # ---- C03.11 a chunk that becomes (part of) top stops being the designated victim ------------------------------------------------------------
    # free / dispose_chunk first merge the chunk with a free predecessor - which may be dv - and then, if the successor is top, make the
    # merged chunk the new top.  On that edge `p == dv` must be tested and dv / dvsize cleared, else dv and top name the same memory and
    # two later requests are served from it.
    from .c04 import field_write_blocks
    for nm in ("free", "dispose_chunk"):
        f11 = prog.fns.get(DL + nm)
        if not ck.anchor("C03.11", nm, f11):
            continue
        c11 = prog.ctx(f11)
        cfg11 = c11.cfg
        topw = sorted(field_write_blocks(c11, ("top",)))
        dvw, dvsw = field_write_blocks(c11, ("dv",)), field_write_blocks(c11, ("dvsize",))
        is_dv = lambda z: z[0] == "field" and z[2] == "dv"
        tests, eq_edges = set(), []
        for sb in cfg11.live_blocks():
            if cfg11.term(sb)["k"] != "switch":
                continue
            for e in cfg11.succ[sb]:
                for f in c11.edge_facts(e):
                    if f[0] == "cmp" and f[1] in ("Eq", "Ne") and (mentions(f[2], c11.prov, is_dv) != mentions(f[3], c11.prov, is_dv)):
                        tests.add(sb)
                        if f[1] == "Eq":
                            eq_edges.append(e)
        ck.floor("C03.11", f"{nm}: stores to self.top", len(topw), 1)
        for w in topw:
            r = cfg11.reachable_from(w, avoid=tests)
            leak = [rb for rb in cfg11.return_blocks() if rb in r]
            after = [e for e in eq_edges if e.src in cfg11.reachable_from(w)]
            cleared = bool(after) and all(any(cfg11.edge_dominates(e, b) for b in dvw) and any(cfg11.edge_dominates(e, b) for b in dvsw) for e in after)
            path = cfg11.find_path(w, lambda b: b in leak, avoid=tests) if leak else None
            ck.ob("C03.11", f"{nm}|chunk-made-top-is-retired-as-dv", not leak and cleared, fn=f11["path"], site=c11.site(w), path=cfg11.render_path(path) if path else None,
                  detail="after `self.top = p` every path must test `p == self.dv` and clear dv and dvsize when it holds: p may have absorbed the designated victim while consolidating backwards, and a dv left pointing into top is handed out a second time")

    # ---- C03.12 a chunk entering a tree bin carries no stale links: on every path through insert_large_chunk both child pointers of the
    # inserted chunk are written (null), whichever way it is linked in - also when it only joins the ring of a same-sized node, because
    # unlink_large_chunk later promotes ring members into the tree and trusts their child pointers
    ilc = prog.fns.get(DL + "insert_large_chunk")
    if ck.anchor("C03.12", "insert_large_chunk", ilc):
        ic = prog.ctx(ilc)
        clears = {}
        for b in ilc["blocks"]:
            if b.get("cleanup") or b["id"] not in ic.cfg.live_blocks():
                continue
            for i, st in enumerate(b["stmts"]):
                if st["k"] == "assign" and st["dst"].get("p") and st["dst"]["l"] == 2 and st["dst"]["p"][0]["k"] == "deref" and len(st["dst"]["p"]) >= 2 and st["dst"]["p"][1].get("n") == "child":
                    v = ic.prov.rvalue(st["rv"], (b["id"], i))
                    is_null = fold(v) == 0 or mentions(v, ic.prov, lambda z: z[0] == "call" and (z[1] or "").endswith("ptr::null_mut")) and not mentions(v, ic.prov, lambda z: z[0] == "param")
                    if not is_null:
                        continue
                    if len(st["dst"]["p"]) == 2:
                        clears.setdefault("both", set()).add(b["id"])
                    else:
                        idxl = st["dst"]["p"][2].get("l")
                        k = fold(ic.prov.operand({"k": "copy", "p": {"l": idxl}}, (b["id"], i))) if idxl is not None else st["dst"]["p"][2].get("i", st["dst"]["p"][2].get("offset"))
                        clears.setdefault(k, set()).add(b["id"])
        rets = set(ic.cfg.return_blocks())
        for k in (0, 1):
            blocks = clears.get(k, set()) | clears.get("both", set())
            leak = rets & ic.cfg.reachable_from(0, avoid=blocks) if blocks else rets
            ck.ob("C03.12", f"insert_large_chunk|child[{k}]-cleared-on-every-path", bool(blocks) and not leak, fn=ilc["path"],
                  detail=f"a path through insert_large_chunk leaves child[{k}] of the inserted chunk as the previous owner left it: when that chunk is later promoted into the tree the allocator follows user bytes as tree links")

    # ---- C03.13 only a chunk that sits in a bin is unlinked: a chunk found by its address (the neighbour of the chunk being freed, the first
    # chunk of a segment) is unlinked only after it was compared with the designated victim (which is in no bin: its link words are stale),
    # found not in use, and - when it follows the chunk at hand - compared with top
    n_unl = 0
    for p2, f2 in prog.fns.items():
        if not p2.startswith(DL) or p2.endswith("::unlink_chunk"):
            continue
        c13 = prog.ctx(f2)
        for bb, t in c13.cfg.calls(lambda t: (t.get("callee") or "").endswith(("Dlmalloc::unlink_chunk", "Dlmalloc::unlink_large_chunk", "Dlmalloc::unlink_small_chunk"))):
            a = c13.args(bb)
            ch = strip_casts(a[1])
            while isinstance(ch, tuple) and ch and ch[0] == "call" and (ch[1] or "").endswith(("::cast", "::cast_mut", "::cast_const")) and ch[2]:
                ch = strip_casts(ch[2][0])
            # a chunk taken out of a bin or tree by walking it needs no test
            if any(x[0] == "call" and (x[1] or "").endswith(("treebin_at", "smallbin_at", "leftmost_child")) for x in walk_deep(ch, c13.prov)) or (isinstance(ch, tuple) and ch[0] == "var"):
                continue
            n_unl += 1
            kc = canon(ch)
            is_prev = any(x[0] == "call" and (x[1] or "").endswith("Chunk::minus_offset") for x in walk(ch))
            facts = panics.dominating_facts(c13, bb)

            def ne_field(fld):
                for f in facts:
                    if f[0] == "cmp" and f[1] == "Ne":
                        l, r = canon(strip_casts(f[2])), canon(strip_casts(f[3]))
                        if (l == kc and mentions(f[3], c13.prov, lambda z: z[0] == "field" and z[2] == fld)) or (r == kc and mentions(f[2], c13.prov, lambda z: z[0] == "field" and z[2] == fld)):
                            return True
                return False
            free_known = any(f[0] == "truth" and f[2] is False and isinstance(f[1], tuple) and f[1][0] == "call" and (f[1][1] or "").endswith(("Chunk::cinuse", "Chunk::inuse", "Chunk::pinuse")) and
                             (canon(strip_casts(f[1][2][0])) == kc or ((f[1][1] or "").endswith("pinuse") and is_prev)) for f in facts)
            site = f"{p2.split('::')[-1]}|{'previous' if is_prev else 'following/first'}"
            ck.ob("C03.13", f"{site}|not-the-designated-victim", ne_field("dv"), fn=p2, site=c13.site(bb), detail="the designated victim is in no bin; unlinking it follows stale link words and leaves dv pointing into a binned chunk (the same bytes are then handed out twice)")
            ck.ob("C03.13", f"{site}|known-free", free_known, fn=p2, site=c13.site(bb), detail="a chunk may be unlinked only after its in-use bit was found clear")
            if not is_prev and not p2.endswith("release_unused_segments"):
                # release_unused_segments: as in upstream dlmalloc the first chunk of a whole-segment candidate is not compared with top
                ck.ob("C03.13", f"{site}|not-top", ne_field("top"), fn=p2, site=c13.site(bb), detail="top is in no bin either")
    ck.floor("C03.13", "unlink sites of chunks found by address", n_unl, 7)

    # ---- C03.14 the two directions of a link are written together: `A.next = B` with `B.prev = A`, `A.child[k] = B` with `B.parent = A` --------
    def lk(e):
        """canonical name of a chunk pointer; TreeChunk::chunk(E) and &(*E).chunk are the same address"""
        e = strip_casts(e)
        if isinstance(e, tuple) and e and e[0] == "call" and (e[1] or "").endswith("TreeChunk::chunk") and e[2]:
            return "CH(" + lk(e[2][0]) + ")"
        if isinstance(e, tuple) and e and e[0] == "field" and e[2] == "chunk" and isinstance(e[1], tuple) and e[1][0] == "deref":
            return "CH(" + lk(e[1][1]) + ")"
        if isinstance(e, tuple) and e and e[0] in ("ref", "addr"):
            return lk(e[2])
        if isinstance(e, tuple) and e and e[0] == "index":
            return lk(e[1]) + f"[{fold(e[2])}]"
        if isinstance(e, tuple) and e and e[0] == "deref":
            return "*" + lk(e[1])
        if isinstance(e, tuple) and e and e[0] == "field":
            return lk(e[1]) + "." + str(e[2])
        return canon(e)
    n_links = 0
    for p2, f2 in prog.fns.items():
        if not p2.startswith(DL):
            continue
        c14 = prog.ctx(f2)
        stores = []
        for b in f2["blocks"]:
            if b["id"] not in c14.cfg.live_blocks() or b.get("cleanup"):
                continue
            for i, st in enumerate(b["stmts"]):
                if st["k"] != "assign" or not st["dst"].get("p"):
                    continue
                pl = c14.prov.place(st["dst"], (b["id"], i))
                idx = None
                if isinstance(pl, tuple) and pl[0] == "index":
                    idx, pl = fold(pl[2]), pl[1]
                if not (isinstance(pl, tuple) and pl[0] == "field" and pl[2] in ("next", "prev", "child", "parent") and str(pl[3]).endswith(("::Chunk", "::TreeChunk"))):
                    continue
                owner = pl[1][1] if isinstance(pl[1], tuple) and pl[1][0] == "deref" else pl[1]
                val = c14.prov.rvalue(st["rv"], (b["id"], i))
                stores.append((pl[2] + (f"[{idx}]" if idx is not None else ""), lk(owner), lk(val), fold(val) == 0 or "null" in show(val), b["id"], st))
        for fld, owner, val, is_null, bid, st in stores:
            inv = {"next": "prev", "child[0]": "parent", "child[1]": "parent"}.get(fld)
            if inv is None or is_null:
                continue
            n_links += 1
            ok = any(f2_ == inv and o2 == val and v2 == owner for f2_, o2, v2, _, _, _ in stores)
            ck.ob("C03.14", f"{p2.split('::')[-1]}|{owner[-40:]}.{fld}={val[-40:]}|inverse-link-written", ok, fn=p2, site=span_str(st["sp"]),
                  detail=f"`{owner}.{fld} = {val}` needs `{val}.{inv} = {owner}` in the same operation; a chunk whose back pointer still names a removed chunk makes a later unlink write into a live block")
    ck.floor("C03.14", "forward links written", n_links, 12)

    # ---- C03.15 a remainder becomes a chunk of its own only when it can hold a chunk: every split / no-split decision compares the
    # remainder (`have - need`) with MIN_CHUNK_SIZE - a smaller threshold creates a free chunk whose link words lie in the next chunk's header
    mcs = prog.const(DL + "MIN_CHUNK_SIZE")
    n_split = 0
    for p15, f15 in prog.fns.items():
        if not p15.startswith(DL) or p15.split("::")[-1].startswith("check_"):
            continue
        c15 = prog.ctx(f15)
        seen15 = set()
        for sb in c15.cfg.live_blocks():
            if c15.cfg.term(sb)["k"] != "switch":
                continue
            for e in c15.cfg.succ[sb]:
                for f in c15.edge_facts(e):
                    if f[0] != "cmp" or f[1] not in ("Lt", "Ge", "Le", "Gt"):
                        continue
                    for x, y in ((f[2], f[3]), (f[3], f[2])):
                        c = fold(y)
                        if c is None or c > 4096:
                            continue
                        xs = strip_casts(x)
                        if isinstance(xs, tuple) and xs[0] == "var":
                            ds = [strip_casts(d) for d in c15.prov.expand(xs)]
                            xs = ds[0] if len(ds) == 1 else xs
                        # a remainder: something minus the padded request
                        is_rem = isinstance(xs, tuple) and xs[0] == "bin" and xs[1] in ("Sub", "SubWithOverflow") and fold(xs[3]) is None and \
                            mentions(xs[3], c15.prov, lambda z: (z[0] == "param" and str(z[2]) in ("nb", "size")) or (z[0] == "var" and str(z[2]) == "nb") or (z[0] == "call" and (z[1] or "").endswith(("request2size", "pad_request"))))
                        if not is_rem:
                            # the same remainder from `have.checked_sub(need)`
                            cs = [z for z in walk_deep(xs, c15.prov, limit=30) if z[0] == "call" and (z[1] or "").endswith("::checked_sub") and len(z[2]) == 2]
                            is_rem = bool(cs) and not mentions(xs, c15.prov, lambda z: z[0] == "bin") and \
                                mentions(cs[0][2][1], c15.prov, lambda z: (z[0] == "param" and str(z[2]) in ("nb", "size")) or (z[0] == "var" and str(z[2]) == "nb") or (z[0] == "call" and (z[1] or "").endswith(("request2size", "pad_request"))))
                        if not is_rem or (sb, canon(xs)) in seen15:
                            continue
                        seen15.add((sb, canon(xs)))
                        n_split += 1
                        # the smallest remainder that is split off, whichever way the test is written
                        left = x is f[2]
                        thr = c if (left and f[1] in ("Lt", "Ge")) or (not left and f[1] in ("Gt", "Le")) else c + 1
                        ck.ob("C03.15", f"{p15.split('::')[-1]}|split-threshold-is-min-chunk-size|{canon(xs)[:60]}", isinstance(mcs, int) and thr >= mcs, fn=p15, site=c15.site(sb),
                              detail=f"a remainder {show(xs)[:80]} of {thr} bytes already counts as a chunk of its own; that is allowed only from MIN_CHUNK_SIZE ({mcs}) bytes on")
    ck.floor("C03.15", "split decisions", n_split, 5)

    # ---- C03.16 top grows in place only inside its own segment: the in-place extension (`init_top(self.top, ..)` after `sp.size += ..`)
    # happens only for the segment that holds top - appending fresh memory to another segment while top sits elsewhere makes top run past
    # the end of its own segment, over memory the allocator does not own
    sa16 = prog.fns.get(DL + "sys_alloc")
    if ck.anchor("C03.16", "sys_alloc", sa16):
        c16 = prog.ctx(sa16)
        n16 = 0
        for bb, t in c16.cfg.calls(lambda t: t.get("callee") == DL + "init_top"):
            a = c16.args(bb)
            if len(a) < 3 or not (mentions(a[1], c16.prov, lambda z: z[0] == "field" and z[2] == "top") and not mentions(a[1], c16.prov, lambda z: z[0] == "call")):
                continue
            n16 += 1
            fs = panics.dominating_facts(c16, bb)
            holds = any(f[0] == "truth" and f[2] is True and isinstance(f[1], tuple) and f[1][0] == "call" and (f[1][1] or "").endswith("Segment::holds") and
                        mentions(f[1], c16.prov, lambda z: z[0] == "field" and z[2] == "top") for f in fs)
            ck.ob("C03.16", "in-place-growth-only-in-the-segment-that-holds-top", holds, fn=sa16["path"], site=c16.site(bb),
                  detail="top is extended in place without `Segment::holds(sp, self.top)` having been established for the segment that grew")
        ck.floor("C03.16", "in-place extensions of top in sys_alloc", n16, 1)

    # ---- C03.17 replace_dv bins the old designated victim as a SMALL chunk (insert_small_chunk, no size test): it is called only on the
    # small-request paths, where dv was just found too small for a small request - from a large-request path dv may be of any size and
    # is then filed under a small-bin index past the end of the bin array
    rdv = DL + "replace_dv"
    if prog.fns.get(rdv) is not None:
        callers17 = set(cg.callers.get(rdv, ())) if "cg" in dir() else set(prog.callgraph().callers.get(rdv, ()))
        allowed17 = {DL + "inner_malloc", DL + "tmalloc_small"}
        ck.ob("C03.17", "replace_dv-only-on-small-request-paths", callers17 <= allowed17 and bool(callers17), detail=f"callers of replace_dv: {sorted(callers17)}; allowed {sorted(allowed17)}")
        for cp in sorted(callers17 & {DL + "inner_malloc"}):
            cc17 = prog.ctx(prog.fns[cp])
            for bb, t in cc17.cfg.calls(lambda t: t.get("callee") == rdv):
                fs = panics.dominating_facts(cc17, bb)
                small = any(f[0] == "cmp" and f[1] in ("Le", "Lt") and mentions(f[3], cc17.prov, lambda z: z[0] == "const" and z[2] and "MAX_SMALL_REQUEST" in str(z[2])) for f in fs)
                ck.ob("C03.17", "replace_dv|under-a-small-request", small, fn=cp, site=cc17.site(bb), detail="replace_dv in inner_malloc must be dominated by size <= MAX_SMALL_REQUEST")

    # ---- C03.18 a released segment's record is not used again: the record of a non-head segment lives inside that segment, so after a
    # successful unmap the walk continues from the predecessor (`sp = pred`) - carrying the dead record forward as `pred` makes the next
    # unlink write into unmapped memory
    rus = prog.fns.get(DL + "release_unused_segments")
    if ck.anchor("C03.18", "release_unused_segments", rus):
        c18_ = prog.ctx(rus)
        nm18 = {x["p"]["l"]: x["n"] for x in rus.get("names", []) if isinstance(x.get("p", {}).get("l"), int) and not x["p"].get("p")}
        sp_l = [l for l, n_ in nm18.items() if n_ == "sp"]
        pred_l = [l for l, n_ in nm18.items() if n_ == "pred"]
        frees18 = [bb for bb, t in c18_.cfg.calls(lambda t: (t.get("callee") or "") == D + "syscall_free")]
        if ck.anchor("C03.18", "sp/pred/syscall_free", (sp_l and pred_l and frees18) or None):
            # blocks that assign sp / blocks that set pred = sp
            def assigns(loc):
                return {b["id"] for b in rus["blocks"] if b["id"] in c18_.cfg.live_blocks() and any(s2["k"] == "assign" and not s2["dst"].get("p") and s2["dst"]["l"] in loc for s2 in b["stmts"])}
            sp_defs = assigns(sp_l)
            carry = set()
            for b in rus["blocks"]:
                if b["id"] not in c18_.cfg.live_blocks():
                    continue
                for i2, s2 in enumerate(b["stmts"]):
                    if s2["k"] == "assign" and not s2["dst"].get("p") and s2["dst"]["l"] in pred_l:
                        v2 = strip_casts(c18_.prov.rvalue(s2["rv"], (b["id"], i2)))
                        if s2["rv"]["k"] == "use" and s2["rv"]["a"].get("k") in ("copy", "move") and not s2["rv"]["a"]["p"].get("p") and (s2["rv"]["a"]["p"]["l"] in sp_l or (isinstance(v2, tuple) and v2[0] == "var" and v2[1] in sp_l)):
                            carry.add(b["id"])
            # an assignment of sp counts as a reset only when it comes before the hand-over `pred = sp` of the same block
            def first_idx(b, loc):
                return min([i2 for i2, s2 in enumerate(b["stmts"]) if s2["k"] == "assign" and not s2["dst"].get("p") and s2["dst"]["l"] in loc] or [10 ** 6])
            sp_defs = {b["id"] for b in rus["blocks"] if b["id"] in sp_defs and (b["id"] not in carry or first_idx(b, sp_l) < first_idx(b, pred_l))}
            bad18 = False
            for fb in frees18:
                ok_edges = [e for sb in c18_.cfg.live_blocks() if c18_.cfg.term(sb)["k"] == "switch" for e in c18_.cfg.succ[sb] for f in c18_.edge_facts(e)
                            if f[0] == "truth" and f[2] is True and isinstance(f[1], tuple) and f[1][0] == "call" and f[1][3] == fb]
                for e in ok_edges:
                    if carry & c18_.cfg.reachable_from(e.dst, avoid=sp_defs):
                        bad18 = True
            ck.ob("C03.18", "released-record-not-carried-forward", bool(carry) and not bad18, fn=rus["path"],
                  detail="after syscall_free succeeded `pred = sp` is reached without `sp` having been reset to the predecessor: pred then points into the unmapped segment")

    # ---- C03.19 a free chunk carries its size at both ends (head, and prev_foot of its successor: that is how free() finds the start of a
    # free predecessor); only top has no foot. So a head written directly as `size | PINUSE` (free, no foot written) is the head of the chunk
    # that the same function makes `self.top`; every other free chunk is formed through set_size_and_pinuse_of_free_chunk / set_free_with_pinuse
    n19, bad19 = 0, []
    for p19, f19 in prog.fns.items():
        if not p19.startswith(DL) or f19.get("is_test"):
            continue
        c19 = None
        tops = []
        cand = []
        for b in f19["blocks"]:
            if b.get("cleanup"):
                continue
            for i, st in enumerate(b["stmts"]):
                if st["k"] != "assign" or not st["dst"].get("p"):
                    continue
                last = st["dst"]["p"][-1]
                if last.get("k") == "field" and last.get("n") == "top" and (last.get("adt") or "").endswith("Dlmalloc"):
                    c19 = c19 or prog.ctx(f19)
                    tops.append((b["id"], canon(strip_casts(c19.prov.rvalue(st["rv"], (b["id"], i))))))
                if last.get("k") == "field" and last.get("n") == "head" and (last.get("adt") or "").endswith("Chunk") and st["dst"]["p"][0].get("k") == "deref" and len(st["dst"]["p"]) == 2:
                    c19 = c19 or prog.ctx(f19)
                    if b["id"] not in c19.cfg.live_blocks():
                        continue
                    v = strip_casts(c19.prov.rvalue(st["rv"], (b["id"], i)))
                    if isinstance(v, tuple) and v[0] == "bin" and v[1] == "BitOr" and any(str(z[2] or "").endswith("PINUSE") for x in (v[2], v[3]) for z in [strip_casts(x)] if isinstance(z, tuple) and z[0] == "const") and \
                            not mentions(v, c19.prov, lambda z: z[0] == "const" and str(z[2] or "").endswith("CINUSE")):
                        ptr = strip_casts(c19.prov.operand({"k": "copy", "p": {"l": st["dst"]["l"]}}, (b["id"], i)))
                        cand.append((b["id"], ptr))
        for bid, ptr in cand:
            n19 += 1
            # ... on the same way through the function (the same expression in another branch is another chunk)
            is_top = any(cv == canon(ptr) and (tb == bid or tb in c19.cfg.reachable_from(bid) or bid in c19.cfg.reachable_from(tb)) for tb, cv in tops) or \
                mentions(ptr, c19.prov, lambda z: z[0] == "field" and z[2] == "top")
            if not is_top:
                bad19.append((p19, c19.site(bid), show(ptr)[:80]))
    ck.floor("C03.19", "heads written as free without a foot", n19, 6)
    ck.ob("C03.19", "free-head-without-foot-only-for-top", not bad19, fn=bad19[0][0] if bad19 else None, site=bad19[0][1] if bad19 else None,
          detail=f"`(*{bad19[0][2] if bad19 else ''}).head = size | PINUSE` marks a chunk free without writing its foot, and the chunk is not the one this function makes top: "
                 "freeing the chunk behind it then computes its predecessor from a stale prev_foot")

    # ---- C03.20 add_segment places the old segment's record at old_top itself, or at least MIN_CHUNK_SIZE above it: what lies between
    # old_top and the record becomes a free chunk, and a free chunk smaller than MIN_CHUNK_SIZE has no room for its list links (they land
    # in the record chunk behind it)
    ads = prog.fns.get(DL + "add_segment")
    if ck.anchor("C03.20", "add_segment", ads):
        c20 = prog.ctx(ads)
        names20 = {x["n"]: x["p"]["l"] for x in ads.get("names", []) if isinstance(x.get("p", {}).get("l"), int) and not x["p"].get("p")}
        if ck.anchor("C03.20", "add_segment: csp and old_top", ("csp" in names20 and "old_top" in names20) or None):
            csp_l = names20["csp"]
            n20, bad20 = 0, []
            for b in ads["blocks"]:
                if b.get("cleanup") or b["id"] not in c20.cfg.live_blocks():
                    continue
                defs_here = [(i, st) for i, st in enumerate(b["stmts"]) if st["k"] == "assign" and st["dst"]["l"] == csp_l and not st["dst"].get("p")]
                t = b["term"]
                if t["k"] == "call" and t.get("dst") and t["dst"]["l"] == csp_l and not t["dst"].get("p"):
                    n20 += 1
                    bad20.append((b["id"], f"csp is the result of {t.get('callee')}"))
                for i, st in defs_here:
                    n20 += 1
                    v = strip_casts(c20.prov.rvalue(st["rv"], (b["id"], i)))
                    old = strip_casts(c20.prov.operand({"k": "copy", "p": {"l": names20["old_top"]}}, (b["id"], i)))
                    if canon(v) == canon(old):
                        continue
                    fs = panics.dominating_facts(c20, b["id"])
                    far = False
                    for f in fs:
                        if f[0] == "cmp" and f[1] in ("Ge", "Gt") and canon(strip_casts(f[2])) == canon(v):
                            lim = strip_casts(f[3])
                            if isinstance(lim, tuple) and lim[0] == "call" and (lim[1] or "").endswith("::add") and canon(strip_casts(lim[2][0])) == canon(old) and (fold(lim[2][1]) or 0) >= (prog.const(DL + "MIN_CHUNK_SIZE") or 32):
                                far = True
                    if not far:
                        bad20.append((b["id"], f"csp = {show(v)[:70]} without `that >= old_top + MIN_CHUNK_SIZE` established"))
            ck.floor("C03.20", "definitions of csp", n20, 2)
            ck.ob("C03.20", "record-at-old-top-or-a-whole-chunk-above", not bad20, fn=ads["path"], site=c20.site(bad20[0][0]) if bad20 else None,
                  detail=(bad20[0][1] if bad20 else "") + ": a gap of 1..MIN_CHUNK_SIZE-1 bytes between old_top and the record is turned into a free chunk too small for its links")

    # ---- C03.8 a failed in-place resize leaves the heap untouched ------------------------------------------------------------------------------
    trc = prog.fns.get(DL + "try_realloc_chunk")
    if ck.anchor("C03.8", "try_realloc_chunk", trc):
        ctx = prog.ctx(trc)
        cfg = ctx.cfg
        PURE = ("Chunk::size", "Chunk::plus_offset", "Chunk::minus_offset", "Chunk::mmapped", "Chunk::cinuse", "Chunk::pinuse", "Chunk::inuse", "core::ptr::null_mut", "PartialEq", "Chunk::next", "Chunk::prev", "Chunk::from_mem", "Chunk::to_mem", "Dlmalloc::overhead_for",
                "::checked_sub", "::checked_add", "::wrapping_sub", "::wrapping_add", "::saturating_sub", "Option::<T>::is_some", "Option::<T>::is_none", "Try::branch", "FromResidual::from_residual",
                "Option::<T>::filter", "cmp::Ord::min", "cmp::Ord::max", "cmp::min", "cmp::max")
        nulls = [bb for bb, t in cfg.calls(lambda t: (t.get("callee") or "").endswith("core::ptr::null_mut") and t["dst"]["l"] == 0)]
        for b in trc["blocks"]:
            if b["id"] in cfg.live_blocks() and any(s["k"] == "assign" and s["dst"]["l"] == 0 and not s["dst"].get("p") and fold(ctx.prov.rvalue(s["rv"], (b["id"], i))) == 0 for i, s in enumerate(b["stmts"])):
                nulls.append(b["id"])
        ck.floor("C03.8", "null returns of try_realloc_chunk", len(nulls), 4)
        muts = []
        for b in trc["blocks"]:
            if b["id"] not in cfg.live_blocks() or b.get("cleanup"):
                continue
            for s in b["stmts"]:
                if s["k"] == "assign" and s["dst"].get("p") and s["dst"]["p"][0]["k"] == "deref":
                    muts.append((b["id"], "store through " + str(ctx.prov.names.get(s["dst"]["l"], s["dst"]["l"]))))
            t = b["term"]
            if t["k"] == "call" and t.get("callee") and not t["callee"].endswith(PURE) and not (t["dst"]["l"] == 0 and not t["dst"].get("p")):
                muts.append((b["id"], "call of " + t["callee"].split("::")[-1]))
        ck.floor("C03.8", "mutating sites in try_realloc_chunk", len(muts), 10)
        n_bad = 0
        for mb, what in muts:
            r = cfg.reachable_from(mb)
            hit = [nb for nb in nulls if nb in r and nb != mb]
            if hit:
                n_bad += 1
                ck.ob("C03.8", f"failed-resize-mutates-nothing|{what}", False, fn=trc["path"], site=ctx.site(mb),
                      detail=f"{what} happens on a path that then returns null: the caller treats null as `nothing changed` (falls back to malloc+copy+free), so e.g. a neighbour already unlinked from its bin is lost or unlinked twice")
        ck.ob("C03.8", "failed-resize-mutates-nothing", n_bad == 0, fn=trc["path"], detail=f"{len(muts)} mutating sites, {len(nulls)} null returns checked")

    # ---- C03.5 serialisation ---------------------------------------------------------------------------------------------------------------
    ga = [f for p, f in prog.fns.items() if f.get("impl_trait") == "core::alloc::global::GlobalAlloc" and "GlobalDlMalloc" in (f.get("impl_self") or "")]
    ck.floor("C03.5", "GlobalAlloc methods", len(ga), 4)
    threaded = "threaded" in prog.features("tiny_std")
    for fn in ga:
        ctx = prog.ctx(fn)
        dl = [bb for bb, t in ctx.cfg.calls(lambda t: (t.get("callee") or "").startswith(DL))]
        locks = [bb for bb, t in ctx.cfg.calls(lambda t: (t.get("callee") or "").endswith("Mutex::<T>::lock"))]
        if threaded:
            ok = len(dl) == 1 and len(locks) == 1 and ctx.cfg.dominates(locks[0], dl[0]) and mentions(ctx.args(dl[0])[0], ctx.prov, lambda z: z[0] == "call" and (z[1] or "").endswith("deref_mut") and mentions(z, ctx.prov, lambda w: w[0] == "call" and w[3] == locks[0]) or (z[0] == "place"))
            guard_locals = [l["id"] for l in fn["locals"] if "MutexGuard" in l["ty"]]
            ck.ob("C03.5", f"{fn['path'].split('::')[-1]}|under-the-lock", ok and bool(guard_locals), fn=fn["path"], detail="every allocator entry point must call into Dlmalloc through a guard obtained from the allocator's Mutex in the same body")
        else:
            st = [z for b in fn["blocks"] for i, s in enumerate(b["stmts"]) if s["k"] == "assign" for z in walk(ctx.prov.rvalue(s["rv"], (b["id"], i))) if z[0] == "static"]
            ck.ob("C03.5", f"{fn['path'].split('::')[-1]}|single-threaded-variant", len(dl) == 1 and not locks, fn=fn["path"], detail="without `threaded` the single-threaded allocator variant is used")
    for sname, st in prog.statics.items():
        if sname.startswith(D):
            ck.ob("C03.5", f"static-private|{sname.split('::')[-1]}", "Public" not in st["vis"], detail=f"the allocator static must be private (vis {st['vis']})")
    if threaded:
        g = prog.adts.get(D + "GlobalDlMalloc")
        if ck.anchor("C03.5", "GlobalDlMalloc", g):
            ftys = [f["ty"] for v in g["variants"] for f in v["fields"]]
            ck.ob("C03.5", "instance-behind-mutex", len(ftys) == 1 and ftys[0].startswith("tiny_std::sync::mutex::Mutex<") and "Dlmalloc" in ftys[0], detail=f"GlobalDlMalloc fields {ftys}")

    # ---- C03.6 constants ------------------------------------------------------------------------------------------------------------------------
    K = lambda n: prog.const(D + n)  # noqa: E731
    KD = lambda n: prog.const(DL + n)  # noqa: E731
    ns, nt, ss, tsft = K("NSMALLBINS"), K("NTREEBINS"), K("SMALLBIN_SHIFT"), K("TREEBIN_SHIFT")
    ma, mls, msr, mcs, co = KD("MALLOC_ALIGNMENT"), KD("MIN_LARGE_SIZE"), KD("MAX_SMALL_REQUEST"), KD("MIN_CHUNK_SIZE"), KD("CHUNK_OVERHEAD")
    vals = dict(NSMALLBINS=ns, NTREEBINS=nt, SMALLBIN_SHIFT=ss, TREEBIN_SHIFT=tsft, MALLOC_ALIGNMENT=ma, MIN_LARGE_SIZE=mls, MAX_SMALL_REQUEST=msr, MIN_CHUNK_SIZE=mcs, CHUNK_OVERHEAD=co)
    if ck.ob("C03.6", "anchor|constants", all(isinstance(v, int) for v in vals.values()), detail=str(vals)):
        ck.ob("C03.6", "MIN_LARGE_SIZE==NSMALLBINS<<SMALLBIN_SHIFT==1<<TREEBIN_SHIFT", mls == ns << ss == 1 << tsft, detail=f"{mls} vs {ns << ss} vs {1 << tsft}: the small-bin index of the largest small size must stay below NSMALLBINS")
        ck.ob("C03.6", "MAX_SMALL_REQUEST<MIN_LARGE_SIZE", msr < mls, detail=f"{msr} vs {mls}")
        # the largest request served from the small bins, padded (request + CHUNK_OVERHEAD rounded up to MALLOC_ALIGNMENT), must still be
        # a small size: its bin index (size >> SMALLBIN_SHIFT) has to stay below NSMALLBINS
        if isinstance(co, int):
            padded = (msr + co + ma - 1) // ma * ma
            ck.ob("C03.6", "padded MAX_SMALL_REQUEST is a small size", padded < mls and (padded >> ss) < ns, detail=f"MAX_SMALL_REQUEST={msr} pads to {padded} (bin {padded >> ss}); small sizes end below {mls} (bins 0..{ns - 1}): a larger value indexes one past the last small bin")
        ck.ob("C03.6", "NTREEBINS==32 (bit-map width)", nt == 32 and ns == 32, detail=f"NTREEBINS={nt} NSMALLBINS={ns}: treemap/smallmap are u32 bit-maps")
        ck.ob("C03.6", "MALLOC_ALIGNMENT==2*usize, power of two", ma == 16 and ma & (ma - 1) == 0, detail=str(ma))
        ck.ob("C03.6", "MIN_CHUNK_SIZE multiple of alignment and >= 4 words", mcs % ma == 0 and mcs >= 32, detail=f"MIN_CHUNK_SIZE={mcs}")
        ck.ob("C03.6", "flag bits below the alignment", (K("FLAG_BITS") or 99) < ma and K("PINUSE") == 1 and K("CINUSE") == 2, detail=f"FLAG_BITS={K('FLAG_BITS')}")
        ck.ob("C03.6", "DEFAULT_GRANULARITY multiple of PAGE_SIZE", K("DEFAULT_GRANULARITY") % K("PAGE_SIZE") == 0, detail=f"{K('DEFAULT_GRANULARITY')} / {K('PAGE_SIZE')}")
        a = prog.adts.get(D + "Dlmalloc")
        if a:
            ftys = {f["name"]: f["ty"] for v in a["variants"] for f in v["fields"]}
            def arr_len(ty):
                import re
                m = re.search(r"; (.*)\]$", ty or "")
                if not m:
                    return None
                expr = m.group(1)
                if not re.fullmatch(r"[A-Za-z0-9_ +*()<>-]+", expr):
                    return None
                try:
                    return int(eval(expr, {"__builtins__": {}}, {k: v for k, v in vals.items() if isinstance(v, int)}))
                except Exception:
                    return None
            ck.ob("C03.6", "smallbins.len()==(NSMALLBINS+1)*2", arr_len(ftys.get("smallbins")) == (ns + 1) * 2, detail=f"smallbins: {ftys.get('smallbins')} = {arr_len(ftys.get('smallbins'))}; indexing uses get_unchecked with (idx*2) and (idx*2+2+1)")
            ck.ob("C03.6", "treebins.len()==NTREEBINS", arr_len(ftys.get("treebins")) == nt, detail=f"treebins: {ftys.get('treebins')}")
            ck.ob("C03.6", "maps are u32", ftys.get("smallmap") == "u32" and ftys.get("treemap") == "u32", detail=f"smallmap {ftys.get('smallmap')} treemap {ftys.get('treemap')}")
        ck.ob("C03.6", "Chunk::MEM_OFFSET==2*usize", prog.const(D + "Chunk::MEM_OFFSET") == 16, detail=str(prog.const(D + "Chunk::MEM_OFFSET")))


def is_direct_use(e, cb):
    """the expression is the call's result itself (through casts / tuple field .0), not something computed from it by another call."""
    e = strip_casts(e)
    seen = 0
    while isinstance(e, tuple) and seen < 8:
        seen += 1
        if e[0] == "call":
            return e[3] == cb
        if e[0] in ("field", "downcast", "deref"):
            e = strip_casts(e[1])
            continue
        if e[0] in ("ref", "addr"):
            e = strip_casts(e[2])
            continue
        return False
    return False
