"""C08.4 - C08.7: a compositional argument that the copy / fill / compare routines touch exactly [0, n) in order.

  C08.4  segment chain     on every path through a driver (copy_forward, copy_backward, set_bytes) the leaf calls tile [0, n):
                           segment k starts where segment k-1 ended (linear normal forms of the pointer arguments) and the lengths sum to n
  C08.5  drivers move no data and never step against their direction (forward: no pointer `sub`; backward: `add` only to form the end pointers)
  C08.6  leaf loops        one store per round through the destination cursor, value loaded through the source cursor (or the fill value),
                           cursors step by exactly one element in the routine's direction, store-before-advance forward / retreat-before-store backward,
                           loop bound is cursor < dest + n (forward) or dest - n < cursor (backward)
  C08.7  compare           every non-zero result is (byte at s1+i) - (byte at s2+i); i starts at 0 and only moves past positions whose bytes compared equal;
                           0 is returned only when i reached n
"""
from ..engine.prov import strip_casts, walk_deep, show
from ..engine.dtable import canon, enumerate_paths, path_local_value
from ..engine.fold import fold
from ..engine import panics
from .c07 import Lin, ptr_elem_size
from .c12 import mentions

M = "tiny_start::symbols::mem::"
PTR_ADD = ("_ptr::<impl *const T>::add", "_ptr::<impl *mut T>::add")
PTR_SUB = ("_ptr::<impl *const T>::sub", "_ptr::<impl *mut T>::sub")
PTR_OTHER_ARITH = ("::offset", "::wrapping_add", "::wrapping_sub", "::byte_add", "::byte_sub", "::wrapping_offset")


class Lin2(Lin):
    """Lin + pointer `sub`."""

    def of(self, e, depth=0):
        if isinstance(e, tuple) and e[0] == "call" and (e[1] or "").endswith(PTR_SUB) and len(e[2]) == 2:
            base = self.of(e[2][0], depth + 1)
            cnt = self.of(e[2][1], depth + 1)
            sz = self.elem_size_of(e[2][0])
            if base is None or cnt is None or sz is None:
                return ({canon(e): 1}, 0)
            return self._add(base, ({t: c * sz for t, c in cnt[0].items()}, cnt[1] * sz), -1)
        return super().of(e, depth)

    def elem_size_of(self, ptr_expr):
        e = ptr_expr
        if isinstance(e, tuple) and e[0] == "call" and (e[1] or "").endswith(PTR_SUB):
            return self.elem_size_of(e[2][0])
        return super().elem_size_of(ptr_expr)


def resolve_on_path(ctx, e, edges, depth=0):
    """Replace merged (`var`) locals by the value last assigned along this path prefix."""
    if not isinstance(e, tuple) or depth > 12:
        return e
    if e and e[0] == "var":
        v = path_local_value(ctx, edges, e[1])
        if v is None:
            argc = ctx.fn.get("argc", 0)
            if 1 <= e[1] <= argc:
                return ("param", e[1], e[2])
            return e
        if canon(v) == canon(e):
            return e
        return resolve_on_path(ctx, v, edges, depth + 1)
    out = []
    for x in e:
        if isinstance(x, tuple):
            if x and isinstance(x[0], str):
                out.append(resolve_on_path(ctx, x, edges, depth + 1))
            else:
                out.append(tuple(resolve_on_path(ctx, y, edges, depth + 1) if isinstance(y, tuple) else y for y in x))
        else:
            out.append(x)
    return tuple(out)


def lin_eq(a, b):
    return a is not None and b is not None and a[0] == b[0] and a[1] == b[1]


def lin_add(a, b, sign=1):
    return Lin._add(a, b, sign)


def raw_ptr_local(ctx, l):
    return (ctx.prov.local_ty.get(l, "") or "").startswith("*")


def deref_stores(ctx, fn):
    out = []
    for b in fn["blocks"]:
        if b.get("cleanup") or b["id"] not in ctx.cfg.live_blocks():
            continue
        for i, s in enumerate(b["stmts"]):
            if s["k"] == "assign" and s["dst"].get("p") and s["dst"]["p"][0]["k"] == "deref" and raw_ptr_local(ctx, s["dst"]["l"]):
                out.append((b["id"], i, s))
    return out


def deref_loads(ctx, fn):
    out = []

    def places(rv):
        if rv["k"] == "use" and rv["a"]["k"] in ("copy", "move"):
            yield rv["a"]["p"]
        for key in ("a", "b"):
            o = rv.get(key)
            if isinstance(o, dict) and o.get("k") in ("copy", "move") and rv["k"] != "use":
                yield o["p"]
        for o in rv.get("ops", []) or []:
            if isinstance(o, dict) and o.get("k") in ("copy", "move"):
                yield o["p"]
    for b in fn["blocks"]:
        if b.get("cleanup") or b["id"] not in ctx.cfg.live_blocks():
            continue
        for i, s in enumerate(b["stmts"]):
            if s["k"] != "assign":
                continue
            for pl in places(s["rv"]):
                if pl.get("p") and pl["p"][0]["k"] == "deref" and raw_ptr_local(ctx, pl["l"]):
                    out.append((b["id"], i, s, pl))
    return out


def ptr_calls(ctx, suffixes):
    return [(bb, t) for bb, t in ctx.cfg.calls(lambda t: (t.get("callee") or "").endswith(suffixes))]


def check(ck, prog):
    drivers = {"copy_forward": (+1, 2), "copy_backward": (-1, 2), "set_bytes": (+1, 1)}
    all_leaves = {}
    for nm, (direction, nptr) in drivers.items():
        fn = prog.fns.get(M + nm)
        if not ck.anchor("C08.4", nm, fn):
            continue
        ctx = prog.ctx(fn)
        cfg = ctx.cfg
        lin = Lin2(ctx)
        leaf_calls = [(bb, t) for bb, t in cfg.calls(lambda t: (t.get("callee") or "").startswith(M + nm + "::"))]
        leaves = sorted({t["callee"] for _, t in leaf_calls})
        ck.floor("C08.4", f"{nm}|leaf routines", len(leaves), 3 if nptr == 2 else 2)
        for lf in leaves:
            all_leaves[lf] = (direction, nptr, nm)
        # ---- C08.5 the driver itself moves no data and keeps its direction
        st, ld = deref_stores(ctx, fn), deref_loads(ctx, fn)
        ck.ob("C08.5", f"{nm}|driver-moves-no-data", not st and not ld, fn=fn["path"], site=ctx.site((st or ld)[0][0]) if (st or ld) else None,
              detail=f"{nm} loads/stores memory itself ({len(ld)} loads, {len(st)} stores) instead of through its leaf loops: the bytes it touches are outside the tiling argument (an overlapping word at the tail re-reads source bytes a forward memmove has already overwritten)")
        other = [(bb, t) for bb, t in cfg.calls(lambda t: t.get("callee") and not t["callee"].startswith(M + nm + "::") and not t["callee"].endswith(PTR_ADD + PTR_SUB + ("::wrapping_neg",)))]
        # (a discharged assertion - one whose failing edge is infeasible - is not part of the driver's behaviour)
        other = [(bb, t) for bb, t in other if not (t["callee"].startswith("core::panicking::") and [x for x in panics.sites(ctx) if x["bb"] == bb] and all(panics.discharge(ctx, x)[0] for x in panics.sites(ctx) if x["bb"] == bb))]
        ck.ob("C08.5", f"{nm}|driver-vocabulary", not other, fn=fn["path"], site=ctx.site(other[0][0]) if other else None,
              detail=f"calls other than leaf routines / pointer add,sub / wrapping_neg in the driver: {sorted({t['callee'] for _, t in other})}")
        adds, subs = ptr_calls(ctx, PTR_ADD), ptr_calls(ctx, PTR_SUB)
        if direction > 0:
            ck.ob("C08.5", f"{nm}|never-steps-backward", not subs, fn=fn["path"], site=ctx.site(subs[0][0]) if subs else None,
                  detail="a forward routine moves a pointer backward: memmove relies on the forward copy never revisiting lower addresses")
        else:
            bad = [bb for bb, t in adds if not (canon(ctx.args(bb)[1]) == "p3" and canon(ctx.args(bb)[0]) in ("p1", "p2"))]
            ck.ob("C08.5", f"{nm}|adds-only-form-the-end-pointers", not bad and len(adds) == nptr, fn=fn["path"], site=ctx.site(bad[0]) if bad else None,
                  detail="the backward routine may add only to form dest + n and src + n; every later step must go down")
        # ---- C08.4 segment chain on every path
        paths = enumerate_paths(ctx)
        ck.floor("C08.4", f"{nm}|paths", len(paths), 2)
        leaf_bbs = {bb for bb, _ in leaf_calls}
        P = [({f"p:{ctx.prov.names.get(i + 1, i + 1)}": 1}, 0) for i in range(nptr)]
        nparam = 3
        N = ({f"p:{ctx.prov.names.get(nparam, nparam)}": 1}, 0)
        for pi, edges in enumerate(paths):
            blocks = [0] + [e.dst for e in edges]
            total = ({}, 0)
            ok = True
            why = ""
            nseg = 0
            for idx, b in enumerate(blocks):
                if b not in leaf_bbs:
                    continue
                prefix = edges[:idx]
                args = [resolve_on_path(ctx, a, prefix) for a in ctx.args(b)]
                ptrs = [lin.of(a) for a in args[:nptr]]
                ln = lin.of(args[-1])
                for j in range(nptr):
                    want = lin_add(P[j], total, 1) if direction > 0 else lin_add(lin_add(P[j], N, 1), total, -1)
                    if not lin_eq(ptrs[j], want):
                        ok = False
                        why = f"segment {nseg} ({cfg.term(b)['callee'].split('::')[-1]}): pointer argument {j + 1} is {show(args[j])} = {ptrs[j]}, the tiling requires {want}"
                total = lin_add(total, ln, 1)
                nseg += 1
            if ok and not lin_eq(total, N):
                ok = False
                why = f"the {nseg} segment lengths sum to {total}, not to n"
            kinds = "+".join(cfg.term(b)["callee"].split("::")[-1].replace(nm.replace("copy_", "copy_") + "_", "") for b in blocks if b in leaf_bbs)
            ck.ob("C08.4", f"{nm}|tiles-0..n|{kinds or 'none'}", ok and nseg >= 1, fn=fn["path"],
                  detail=why or "a path through the routine calls no leaf at all")
    # ---- C08.6 leaf loops -------------------------------------------------------------------------------------------------
    for lf, (direction, nptr, drv) in sorted(all_leaves.items()):
        fn = prog.fns.get(lf)
        if not ck.anchor("C08.6", lf, fn):
            continue
        ctx = prog.ctx(fn)
        cfg = ctx.cfg
        lin = Lin2(ctx)
        short = lf.split("::")[-1]
        cyc = {b for b in cfg.live_blocks() if cfg.in_cycle(b)}
        st = deref_stores(ctx, fn)
        st_in = [x for x in st if x[0] in cyc]
        ck.ob("C08.6", f"{short}|one-store-per-round", len(st) == 1 and len(st_in) == 1, fn=lf, detail=f"stores through raw pointers: {len(st)} ({len(st_in)} inside the loop); the tiling argument needs exactly one, inside the loop")
        # the same loop written with an element index instead of moving cursors:
        #   forward:  i = 0; while i < m { *dest.add(i) = *src.add(i) | fill; i += 1 }             covers [dest, dest + m*S)
        #   backward: i = 0; while i < m { i += 1; *dest.sub(i) = *src.sub(i) }                    covers [dest - m*S, dest)
        # with S the element size of the (possibly cast) pointers and m = n (S == 1) or n / S
        if len(st) == 1 and len(st_in) == 1:
            sb, si, s0 = st_in[0]
            want_calls = PTR_ADD if direction > 0 else PTR_SUB

            def unptr(e):
                e = strip_casts(e)
                while isinstance(e, tuple) and e[0] == "call" and (e[1] or "").endswith(("::cast", "::cast_mut", "::cast_const")) and e[2]:
                    e = strip_casts(e[2][0])
                return e

            def split_index(e):
                e = strip_casts(e)
                if isinstance(e, tuple) and e[0] == "bin" and e[1] in ("Add", "AddWithOverflow", "AddUnchecked") and fold(e[3]) == 1:
                    return strip_casts(e[2]), 1
                return e, 0
            dptr = strip_casts(ctx.prov.operand({"k": "copy", "p": {"l": s0["dst"]["l"]}}, (sb, si)))
            val = ctx.prov.rvalue(s0["rv"], (sb, si))
            if isinstance(dptr, tuple) and dptr[0] == "call" and (dptr[1] or "").endswith(want_calls) and canon(unptr(dptr[2][0])) == "p1":
                iv, off = split_index(dptr[2][1])
                if isinstance(iv, tuple) and iv[0] == "var":
                    S = lin.elem_size_of(dptr[2][0]) or 1
                    defs = [strip_casts(d) for d in ctx.prov.expand(iv)]
                    starts0 = sum(1 for d in defs if fold(d) == 0) == 1
                    incs = [d for d in defs if isinstance(d, tuple) and d[0] == "bin" and d[1] in ("Add", "AddWithOverflow", "AddUnchecked") and fold(d[3]) == 1 and canon(strip_casts(d[2])) == canon(iv)]
                    counter = len(defs) == 2 and starts0 and len(incs) == 1
                    nparam = f"p{fn['argc']}"

                    def bound_ok(bnd):
                        bnd = strip_casts(bnd)
                        if S == 1:
                            return canon(bnd) == nparam
                        if isinstance(bnd, tuple) and bnd[0] == "var":
                            ds = list(ctx.prov.expand(bnd))
                            bnd = strip_casts(ds[0]) if len(ds) == 1 else bnd
                        return isinstance(bnd, tuple) and bnd[0] == "bin" and bnd[1] == "Div" and canon(strip_casts(bnd[2])) == nparam and fold(bnd[3]) == S
                    # `i != m` is the same guard for an index that runs up from 0 by one (it cannot step over m)
                    guard = any(f[0] == "cmp" and ((f[1] == "Lt" and canon(strip_casts(f[2])) == canon(iv) and bound_ok(f[3])) or
                                                   (f[1] == "Ne" and ((canon(strip_casts(f[2])) == canon(iv) and bound_ok(f[3])) or (canon(strip_casts(f[3])) == canon(iv) and bound_ok(f[2])))))
                                for f in panics.dominating_facts(ctx, sb))
                    inc_bbs = [b["id"] for b in fn["blocks"] if b["id"] in cyc for st2 in b["stmts"] if st2["k"] == "assign" and st2["dst"]["l"] == iv[1] and not st2["dst"].get("p")]
                    # forward: element i is stored, then i is bumped; backward: i is bumped first and element i (the new value) is stored
                    order = len(inc_bbs) == 1 and ((direction > 0 and off == 0 and cfg.dominates(sb, inc_bbs[0])) or (direction < 0 and off == 1) or
                                                   (direction < 0 and off == 0 and cfg.dominates(inc_bbs[0], sb) and inc_bbs[0] != sb))
                    def same_slot(e, want_base):
                        e = strip_casts(e)
                        if not (isinstance(e, tuple) and e[0] == "call" and (e[1] or "").endswith(want_calls) and canon(unptr(e[2][0])) == want_base):
                            return False
                        iv2, off2 = split_index(e[2][1])
                        return canon(iv2) == canon(iv) and off2 == off and (lin.elem_size_of(e[2][0]) or 1) == S
                    other_ptr = [bb for bb, t in ptr_calls(ctx, PTR_ADD + PTR_SUB + PTR_OTHER_ARITH) if not (same_slot(("call", t["callee"], tuple(ctx.args(bb)), bb), "p1") or same_slot(("call", t["callee"], tuple(ctx.args(bb)), bb), "p2"))]
                    if nptr == 2:
                        v = strip_casts(val)
                        if isinstance(v, tuple) and v[0] == "call" and (v[1] or "").endswith("read_usize_unaligned") and v[2]:
                            value_ok = same_slot(v[2][0], "p2")
                        else:
                            value_ok = isinstance(v, tuple) and v[0] == "deref" and same_slot(v[1], "p2")
                    else:
                        value_ok = not mentions(val, ctx.prov, lambda z: z[0] == "deref") and mentions(val, ctx.prov, lambda z: (z[0] == "param" and z[1] == 2) or z[0] == "var")
                    ck.ob("C08.6", f"{short}|index-form|counter-runs-0..m-by-one", counter and guard and order and not other_ptr, fn=lf,
                          detail=f"element-index loop: the index must start at 0, be tested `< n` (`< n / {S}` for {S}-byte elements) before every store and move by exactly one per round, the store using it {'before' if direction > 0 else 'after'} the bump (counter={counter}, guard={guard}, order={order}, other pointer arithmetic={len(other_ptr)})")
                    ck.ob("C08.6", f"{short}|index-form|stores-element-i-of-the-source-or-the-fill-value", value_ok, fn=lf, detail=f"dest[i] must receive src[i] (or the fill value); it receives {show(val)}")
                    continue
        steps = [(bb, t) for bb, t in ptr_calls(ctx, PTR_ADD + PTR_SUB) if bb in cyc]
        outside = [(bb, t) for bb, t in ptr_calls(ctx, PTR_ADD + PTR_SUB) if bb not in cyc]
        exotic = ptr_calls(ctx, PTR_OTHER_ARITH)
        want_suffix = PTR_ADD if direction > 0 else PTR_SUB
        good_steps = [bb for bb, t in steps if t["callee"].endswith(want_suffix) and fold(ctx.args(bb)[1]) == 1 and canon(ctx.args(bb)[0]).lstrip("(").startswith("var:")]
        ck.ob("C08.6", f"{short}|cursors-step-one-element-{'up' if direction > 0 else 'down'}", len(steps) == nptr and len(good_steps) == nptr and not exotic, fn=lf,
              detail=f"inside the loop the {nptr} cursor(s) must each move by exactly one element {'upward' if direction > 0 else 'downward'}; found {[(t['callee'].split('::')[-1], show(ctx.args(bb)[1])) for bb, t in steps]}")
        # the bound pointer: dest +/- n, computed once outside the loop
        bound_ok = len(outside) == 1 and outside[0][1]["callee"].endswith(want_suffix) and canon(ctx.args(outside[0][0])[0]) == "p1" and canon(ctx.args(outside[0][0])[1]) == "p3"
        # the same number of rounds counted down instead of compared with a bound pointer: remaining = n; while remaining > 0 { remaining -= 1; .. }
        countdown = None
        if not outside and st_in:
            nparam_ = f"p{fn['argc']}"
            for f in panics.dominating_facts(ctx, st_in[0][0]):
                if f[0] != "cmp":
                    continue
                cands = []
                if f[1] in ("Gt", "Ne") and fold(f[3]) == 0:
                    cands.append(strip_casts(f[2]))
                if f[1] in ("Lt", "Ne") and fold(f[2]) == 0:
                    cands.append(strip_casts(f[3]))
                for cv in cands:
                    if isinstance(cv, tuple) and cv[0] == "var":
                        defs_ = [strip_casts(d) for d in ctx.prov.expand(cv)]
                        starts = [d for d in defs_ if canon(d) == nparam_]
                        decs = [d for d in defs_ if isinstance(d, tuple) and d[0] == "bin" and d[1] in ("Sub", "SubWithOverflow", "SubUnchecked") and fold(d[3]) == 1 and canon(strip_casts(d[2])) == canon(cv)]
                        dec_bbs = [b["id"] for b in fn["blocks"] if b["id"] in cyc for st2 in b["stmts"] if st2["k"] == "assign" and st2["dst"]["l"] == cv[1] and not st2["dst"].get("p")]
                        if len(defs_) == 2 and len(starts) == 1 and len(decs) == 1 and len(dec_bbs) == 1:
                            countdown = cv
        if countdown is not None:
            bound_ok = True
        ck.ob("C08.6", f"{short}|bound-is-dest{'+' if direction > 0 else '-'}n", bound_ok, fn=lf, detail=f"the loop bound must be the destination {'plus' if direction > 0 else 'minus'} the length, formed once before the loop; pointer arithmetic outside the loop: {[(t['callee'].split('::')[-1], [show(a) for a in ctx.args(bb)]) for bb, t in outside]}")
        if st_in and len(good_steps) == nptr:
            sb, si, s = st_in[0]
            dcur = s["dst"]["l"]
            stepped = set()
            for bb in good_steps:
                a0 = strip_casts(ctx.args(bb)[0])
                if isinstance(a0, tuple) and a0[0] == "var":
                    stepped.add(a0[1])
            ck.ob("C08.6", f"{short}|store-through-destination-cursor", dcur in stepped, fn=lf, detail=f"the store goes through `{ctx.prov.names.get(dcur, dcur)}`, which is not one of the stepped cursors {sorted(ctx.prov.names.get(x, x) for x in stepped)}")
            # value stored
            val = ctx.prov.rvalue(s["rv"], (sb, si))
            if nptr == 2:
                src_curs = stepped - {dcur}
                from_src = False
                for bb2, i2, s2, pl in deref_loads(ctx, fn):
                    if pl["l"] in src_curs and s2["dst"]["l"] == (s["rv"]["a"]["p"]["l"] if s["rv"]["k"] == "use" and s["rv"]["a"]["k"] in ("copy", "move") else -1):
                        from_src = True
                if not from_src:
                    from_src = mentions(val, ctx.prov, lambda z: z[0] == "call" and (z[1] or "").endswith("read_usize_unaligned") and z[2] and mentions(z[2][0], ctx.prov, lambda w: w[0] == "var" and w[1] in src_curs))
                ck.ob("C08.6", f"{short}|stores-what-the-source-cursor-reads", from_src, fn=lf, detail=f"the stored value `{show(val)}` is not the element read through the source cursor")
            else:
                ptrish = mentions(val, ctx.prov, lambda z: z[0] == "deref")
                ck.ob("C08.6", f"{short}|stores-the-fill-value", not ptrish and mentions(val, ctx.prov, lambda z: (z[0] == "param" and z[1] == 2) or (z[0] == "var")), fn=lf, detail=f"the stored value `{show(val)}` is not derived from the fill byte")
            # order within a round
            if direction > 0:
                order = all(cfg.dominates(sb, bb) for bb in good_steps)
            else:
                order = all(cfg.dominates(bb, sb) for bb in good_steps)
            ck.ob("C08.6", f"{short}|{'store-then-advance' if direction > 0 else 'retreat-then-store'}", order, fn=lf, detail="forward loops store at the cursor and then advance; backward loops take past-the-end pointers, so they must retreat before storing")
            # loop guard: the body is entered under cursor < bound (forward) / bound < cursor (backward)
            guard = False
            for sbk in cyc:
                if cfg.term(sbk)["k"] != "switch":
                    continue
                for e in cfg.succ[sbk]:
                    if e.dst in cyc and cfg.edge_dominates(e, sb):
                        for f in ctx.edge_facts(e):
                            if f[0] == "cmp" and f[1] == "Lt":
                                lo, hi = strip_casts(f[2]), strip_casts(f[3])
                                cur, bnd = (lo, hi) if direction > 0 else (hi, lo)
                                is_cur = isinstance(cur, tuple) and cur[0] == "var" and cur[1] == dcur
                                is_bnd = mentions(bnd, ctx.prov, lambda z: z[0] == "call" and z[3] == (outside[0][0] if outside else -1))
                                if is_cur and is_bnd:
                                    guard = True
                            if f[0] == "cmp" and f[1] == "Ne":
                                # a cursor that moves one element at a time towards the bound cannot step over it: `!=` is the same guard
                                for cur, bnd in ((strip_casts(f[2]), strip_casts(f[3])), (strip_casts(f[3]), strip_casts(f[2]))):
                                    if isinstance(cur, tuple) and cur[0] == "var" and cur[1] == dcur and mentions(bnd, ctx.prov, lambda z: z[0] == "call" and z[3] == (outside[0][0] if outside else -1)):
                                        guard = True
            if countdown is not None:
                guard = True
            ck.ob("C08.6", f"{short}|loop-guard", guard, fn=lf, detail="the loop body must run exactly while the destination cursor is " + ("below dest + n" if direction > 0 else "above dest - n"))
    # unaligned word read: 8 bytes at the given address
    ru = prog.fns.get(M + "read_usize_unaligned")
    if ck.anchor("C08.6", "read_usize_unaligned", ru):
        c = prog.ctx(ru)
        reads = [bb for bb, t in c.cfg.calls(lambda t: (t.get("callee") or "").endswith("::read"))]
        ok = len(reads) == 1 and canon(strip_casts(c.args(reads[0])[0])).replace("cast(", "").rstrip(")") in ("p1",) or (len(reads) == 1 and mentions(c.args(reads[0])[0], c.prov, lambda z: z[0] == "param" and z[1] == 1) and not ptr_calls(c, PTR_ADD + PTR_SUB + PTR_OTHER_ARITH))
        tys = [c.prov.local_ty.get(c.cfg.term(bb)["dst"]["l"], "") for bb in reads]
        ck.ob("C08.6", "read_usize_unaligned|reads-one-word-at-its-argument", ok and tys == ["[u8; 8]"], fn=ru["path"], detail=f"must read exactly [u8; 8] at the pointer it is given (read sites {len(reads)}, types {tys})")
    # ---- C08.7 compare -----------------------------------------------------------------------------------------------------------
    cb = prog.fns.get(M + "compare_bytes")
    if cb is None and prog.fns.get(M + "memcmp") is not None and any(prog.ctx(prog.fns[M + "memcmp"]).cfg.in_cycle(b) for b in prog.ctx(prog.fns[M + "memcmp"]).cfg.live_blocks()):
        cb = prog.fns[M + "memcmp"]        # the comparison loop written directly in memcmp (same parameters s1, s2, n)
    if ck.anchor("C08.7", "compare_bytes", cb):
        c = prog.ctx(cb)
        cfg = c.cfg

        def byte_at(e, which):
            """e is a u8 load *(p_which + i): returns the index expression or None."""
            e = strip_casts(e)
            if isinstance(e, tuple) and e[0] == "call" and (e[1] or "").endswith("From::from") and e[2]:
                e = strip_casts(e[2][0])
            if isinstance(e, tuple) and e[0] == "deref":
                p = strip_casts(e[1])
                if isinstance(p, tuple) and p[0] == "call" and (p[1] or "").endswith(PTR_ADD) and canon(p[2][0]) == f"p{which}":
                    if ptr_elem_size(c.prov.local_ty.get(which, "")) == 1:
                        return p[2][1]
            return None
        # results
        n_res, bad_res, diffs = 0, [], []
        for b in cb["blocks"]:
            if b["id"] not in cfg.live_blocks() or b.get("cleanup"):
                continue
            for i, s in enumerate(b["stmts"]):
                if s["k"] == "assign" and s["dst"]["l"] == 0 and not s["dst"].get("p"):
                    n_res += 1
                    e = c.prov.rvalue(s["rv"], (b["id"], i))
                    if fold(e) == 0:
                        facts = [f for sb in cfg.live_blocks() if cfg.term(sb)["k"] == "switch" for ed in cfg.succ[sb] if cfg.edge_dominates(ed, b["id"]) for f in c.edge_facts(ed)]
                        done = any(f[0] == "cmp" and ((f[1] == "Ge" and canon(f[3]) == "p3") or (f[1] == "Le" and canon(f[2]) == "p3")) for f in facts)
                        if not done:
                            bad_res.append(("zero-before-the-end", b["id"], e))
                        continue
                    e2 = strip_casts(e)
                    ok = False
                    if isinstance(e2, tuple) and e2[0] == "bin" and e2[1] == "Sub":
                        i1, i2 = byte_at(e2[2], 1), byte_at(e2[3], 2)
                        ok = i1 is not None and i2 is not None and canon(i1) == canon(i2)
                        if ok:
                            diffs.append((b["id"], i1))
                    if not ok:
                        bad_res.append(("not-a-byte-difference", b["id"], e))
        ck.ob("C08.7", "results-are-zero-at-the-end-or-the-byte-difference", not bad_res and n_res >= 2, fn=cb["path"], site=c.site(bad_res[0][1]) if bad_res else None,
              detail=("; ".join(f"{k}: `{show(e)}`" for k, _, e in bad_res) or f"result assignments found: {n_res}") + " - memcmp's sign is that of the first differing BYTE pair (a word compare orders by the last byte on little-endian)")
        # index
        # the index variable: the merged local added to s1 for the byte loads
        idx = []
        for bbx, tx in c.cfg.calls(lambda t: (t.get("callee") or "").endswith(PTR_ADD)):
            ax = c.args(bbx)
            a1 = strip_casts(ax[1]) if len(ax) > 1 else None
            if canon(ax[0]) == "p1" and isinstance(a1, tuple) and a1[0] == "var" and a1[1] not in idx:
                idx.append(a1[1])
        if ck.anchor("C08.7", "index variable i", idx):
            il = idx[0]
            defs = []
            for b in cb["blocks"]:
                if b["id"] not in cfg.live_blocks() or b.get("cleanup"):
                    continue
                for i, s in enumerate(b["stmts"]):
                    if s["k"] == "assign" and s["dst"]["l"] == il and not s["dst"].get("p"):
                        defs.append((b["id"], c.prov.rvalue(s["rv"], (b["id"], i))))
            # the sign is that of the FIRST differing pair: a difference is answered only at the scan position (everything below it compared equal)
            off = [(b, e) for b, e in diffs if not (isinstance(strip_casts(e), tuple) and strip_casts(e)[0] == "var" and strip_casts(e)[1] == il)]
            ck.ob("C08.7", "difference-answered-at-the-scan-position", not off, fn=cb["path"], site=c.site(off[0][0]) if off else None,
                  detail=f"a byte difference is returned for position `{show(off[0][1]) if off else ''}`, which is not the scan index: bytes before it may differ the other way (memcmp(\"ba\", \"ab\", 2) must be positive)")
            init = [e for b, e in defs if not cfg.in_cycle(b)]
            stepd = [(b, e) for b, e in defs if cfg.in_cycle(b)]
            ck.ob("C08.7", "index-starts-at-zero", len(init) == 1 and fold(init[0]) == 0, fn=cb["path"], detail=f"initial values of i: {[show(e) for e in init]}")
            bad = []
            for b, e in stepd:
                e2 = strip_casts(e)
                k = fold(e2[3]) if isinstance(e2, tuple) and e2[0] == "bin" and e2[1] == "Add" and isinstance(strip_casts(e2[2]), tuple) and strip_casts(e2[2])[0] == "var" and strip_casts(e2[2])[1] == il else None
                if k is None:
                    bad.append((b, f"i is set to `{show(e)}`"))
                    continue
                # an equality between the k bytes at s1+i and s2+i must dominate the step
                facts = [f for sb in cfg.live_blocks() if cfg.term(sb)["k"] == "switch" for ed in cfg.succ[sb] if cfg.edge_dominates(ed, b) for f in c.edge_facts(ed)]
                eq = False
                for f in facts:
                    if f[0] == "cmp" and f[1] == "Eq":
                        i1, i2 = byte_at(f[2], 1), byte_at(f[3], 2)
                        if i1 is None or i2 is None:
                            i1, i2 = byte_at(f[3], 1), byte_at(f[2], 2)
                        if i1 is not None and i2 is not None and canon(i1) == canon(i2) and isinstance(strip_casts(i1), tuple) and strip_casts(i1)[0] == "var" and strip_casts(i1)[1] == il and k == 1:
                            eq = True
                if not eq:
                    bad.append((b, f"i advances by {k} without the {k} byte(s) at s1+i and s2+i having compared equal"))
            # no byte is looked at outside [0, n): every pointer formed for a load (s1 + i, s2 + i) is formed under i < n - a loop tested at
            # the bottom reads byte 0 of a zero-length comparison (and may answer "different" for it)
            unguarded = []
            for bbx, tx in c.cfg.calls(lambda t: (t.get("callee") or "").endswith(PTR_ADD)):
                ax = c.args(bbx)
                a1 = strip_casts(ax[1]) if len(ax) > 1 else None
                if canon(ax[0]) in ("p1", "p2") and isinstance(a1, tuple) and a1[0] == "var" and a1[1] == il:
                    fs = panics.dominating_facts(c, bbx)
                    inside = any(f[0] == "cmp" and ((f[1] == "Lt" and isinstance(strip_casts(f[2]), tuple) and strip_casts(f[2])[0] == "var" and strip_casts(f[2])[1] == il and canon(strip_casts(f[3])) == "p3") or
                                                    (f[1] == "Gt" and isinstance(strip_casts(f[3]), tuple) and strip_casts(f[3])[0] == "var" and strip_casts(f[3])[1] == il and canon(strip_casts(f[2])) == "p3") or
                                                    (f[1] == "Ne" and {canon(strip_casts(f[2])), canon(strip_casts(f[3]))} == {"p3", canon(a1)})) for f in fs)
                    if not inside:
                        unguarded.append(bbx)
            ck.ob("C08.7", "bytes-read-only-below-n", not unguarded, fn=cb["path"], site=c.site(unguarded[0]) if unguarded else None,
                  detail="a byte of s1/s2 is addressed without `i < n` having been established: with n == 0 nothing may be read, and the answer must be 0")
            ck.ob("C08.7", "index-moves-only-past-equal-bytes", not bad and len(stepd) >= 1, fn=cb["path"], site=c.site(bad[0][0]) if bad else None, detail="; ".join(x for _, x in bad) or "no index step found")
        for nm in ("memcmp",):
            f = prog.fns.get(M + nm)
            if f is not None:
                cc = prog.ctx(f)
                calls = [(bb, t) for bb, t in cc.cfg.calls()]
                if f is cb:
                    ck.ob("C08.7", "memcmp-is-compare_bytes", True, fn=f["path"], detail="memcmp holds the comparison loop itself")
                    continue
                ok = len(calls) == 1 and calls[0][1].get("callee") == M + "compare_bytes" and [canon(x) for x in cc.args(calls[0][0])] == ["p1", "p2", "p3"] and \
                    all(isinstance(v, tuple) and v[0] == "call" and v[3] == calls[0][0] for v in cc.ret_expr().values())
                ck.ob("C08.7", "memcmp-is-compare_bytes", ok, fn=f["path"], detail="memcmp must return compare_bytes(s1, s2, n) unchanged")
