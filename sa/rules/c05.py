"""C05 — threads: closure runs once; join awaits exit and returns the value / None on panic; spawn failure is an error."""
from ..engine.prov import const_value, strip_casts, walk, walk_deep, show
from ..engine.atomics import inventory, is_acquire, is_release
from ..engine.dtable import canon
from ..engine.fold import fold
from ..engine import panics
from .c12 import mentions
from .futexflavour import check_flavour
from . import threads as T

CONFIGS_QUICK = ["A"]
CONFIGS_THOROUGH = ["A", "R", "X"]

EXPLANATION = (
    "Decided (static, MIR + the trampoline's assembly): C05.1 the value returned by the clone trampoline is examined and its failure edge leads to an Err return of spawn; "
    "C05.2 on every Err return of spawn everything acquired so far (join block, boxed closure, stack mapping, TLS block) has been released, on Ok everything was handed to the thread/handle; "
    "C05.3 the start function re-boxes the closure and calls it exactly once (not in a loop), and the trampoline has exactly one indirect call, on the child side; "
    "C05.4 in the thread's closure the user function is called, then the result slot is written, then the hand-over flag is flipped (dominance), and only that closure writes the slot - the panic handler does not, so None <=> panicked; the thread-local block is freed only after the user's function returned (a panicking function leaves it to the panic handler, which needs it to end the thread); "
    "C05.5 join (and the handle's Drop) read/free the shared block only after observing the exit word != UNFINISHED with a load of ordering >= Acquire made after the wait returned (re-check loop), and a thread that frees its own join block resets its clear-tid address first (so its exit write cannot land in a recycled block - another thread's exit word); "
    "C05.6 clone flags contain VM|FS|FILES|SIGHAND|THREAD|SETTLS|CHILD_CLEARTID, the child-tid argument is the address of the exit word, the exit word starts as UNFINISHED != 0 and waits expect exactly that value, with the futex flavour of the kernel's wake; "
    "C05.7 the x86_64 trampoline (aarch64 in the thorough tier) puts syscall number, flags, new stack, child-tid and TLS in the registers the ABI wants and the start function and its argument reach the indirect call. "
    "C05.1 also: the clone call is attempted once (no retry loop around it), so a refusal is returned. "
    "C05.6 also: no library code stores to the exit word after initialisation or wakes its waiters (only the kernel's clear-tid write releases a joiner). "
    "C05.5 also: a thread resets its clear-tid address only on a way on which it frees the join block itself (otherwise a joiner is never released); C05.6 also: the stack pointer given to clone is (the result of the stack mmap itself) + (the length that mmap was given) minus alignment and the start arguments, so the child runs inside its mapping. C05.4 also: nothing is read through the thread-local block after it was freed (the panic handler copies what it needs out first). NOT decided: that a created thread really starts/finishes (kernel), timing of join vs exit beyond these ordering obligations.")
ASSUMPTIONS = ["CLONE_CHILD_CLEARTID: the kernel stores 0 to the child-tid word and futex-wakes it when the thread exits", "System V x86_64 / AAPCS64 calling conventions"]


def run(ck, progs, tier):
    for cfgname, prog in progs.items():
        ck.set_config(prog)
        run_one(ck, prog)


def run_one(ck, prog):
    sp = prog.fns.get(T.SPAWN)
    if not ck.anchor("C05.1", "thread::spawn", sp):
        return
    ctx = prog.ctx(sp)
    cfg = ctx.cfg
    unfinished = prog.const(T.M + "UNFINISHED")
    # the exit word changes hands exactly once, and the kernel does it: nothing in the library stores to it after initialisation or wakes
    # its waiters (a thread that clears the word itself lets join return - and free the block - while the thread is still running on it)
    from ..engine.atomics import inventory as _inv
    writers = []
    wakers = []
    for p6, f6 in prog.fns.items():
        if "tiny_std::thread::spawn" not in p6:
            continue
        c6 = prog.ctx(f6)
        for op in _inv(f6, c6.cfg, c6.prov):
            if op.op != "load" and mentions(op.recv, c6.prov, lambda z: z[0] == "call" and (z[1] or "").endswith("Tsm::get_futex")):
                writers.append((p6, op.op))
        for bb6, t6 in c6.cfg.calls(lambda t: (t.get("callee") or "").endswith("futex::futex_wake")):
            if mentions(c6.args(bb6)[0], c6.prov, lambda z: z[0] == "call" and (z[1] or "").endswith("Tsm::get_futex")):
                wakers.append(p6)
    ck.ob("C05.6", "exit-word-written-only-by-the-kernel", not writers and not wakers, detail=f"library code writes the exit word ({writers}) or wakes its waiters ({wakers}); only the kernel's CLONE_CHILD_CLEARTID write at thread exit may release a joiner")
    ck.ob("C05.6", "exit-word-constant", isinstance(unfinished, int) and unfinished != 0, detail=f"UNFINISHED = {unfinished}; must differ from 0 (the kernel clears the word to 0 on exit)")

    clones = T.call_blocks(ctx, T.M + "__clone")
    ck.ob("C05.1", "anchor|one clone site", len(clones) == 1, fn=T.SPAWN, detail=f"__clone call sites in spawn: {len(clones)}")
    if len(clones) != 1:
        return
    cb = clones[0]
    # ---- C05.1 result examined -----------------------------------------------------------------------------------
    fail_edges = []
    for sb in cfg.live_blocks():
        if cfg.term(sb)["k"] != "switch":
            continue
        for e in cfg.succ[sb]:
            for f in ctx.edge_facts(e):
                if f[0] == "cmp":
                    xs, ys = strip_casts(f[2]), strip_casts(f[3])
                    # the failing side: result < 0 (or <= -1); the trampoline returns the new tid or -errno
                    if isinstance(xs, tuple) and xs[0] == "call" and xs[3] == cb and ((f[1] == "Lt" and fold(f[3]) == 0) or (f[1] == "Le" and fold(f[3]) == -1)):
                        fail_edges.append((e, f))
                    if isinstance(ys, tuple) and ys[0] == "call" and ys[3] == cb and ((f[1] == "Gt" and fold(f[2]) == 0) or (f[1] == "Ge" and fold(f[2]) == -1)):
                        fail_edges.append((e, f))
                if f[0] == "truth" and isinstance(f[1], tuple) and f[1][0] == "call" and f[1][2]:
                    nm = f[1][1] or ""
                    arg = strip_casts(f[1][2][0])
                    direct = isinstance(arg, tuple) and arg[0] == "call" and arg[3] == cb
                    # `res.is_negative()` true / `res.is_positive()`-style tests written as method calls
                    if direct and ((nm.endswith("::is_negative") and f[2] is True)):
                        fail_edges.append((e, f))
    ok_examined = False
    for e, f in fail_edges:
        # from this edge every return is an Err (no JoinHandle built)
        r = cfg.reachable_from(e.dst)
        builds = [b for b in r if any(s["k"] == "assign" and s["rv"]["k"] == "agg" and (s["rv"].get("adt") or "").endswith("JoinHandle") for s in cfg.block(b)["stmts"])]
        rets = [rb for rb in cfg.return_blocks() if rb in r]
        if rets and not builds:
            ok_examined = True
    ck.ob("C05.1", "clone-result-examined", ok_examined, fn=T.SPAWN, site=ctx.site(cb),
          detail="the value returned by __clone (the new tid, or -errno) is never compared: when the thread cannot be created (EAGAIN at the thread limit) spawn still returns Ok(handle) and join waits forever on an exit word nobody will clear")
    # one attempt: whatever the kernel answers comes back to the caller (a retry loop never returns while the limit that refused the thread lasts)
    ck.ob("C05.1", "clone-attempted-once", not cfg.in_cycle(cb), fn=T.SPAWN, site=ctx.site(cb),
          detail="the clone call sits in a loop: when the kernel keeps refusing (EAGAIN at a task limit) spawn never returns instead of returning the error")
    # the handle is only built after the success side
    builds = [b["id"] for b in sp["blocks"] for s in b["stmts"] if s["k"] == "assign" and s["rv"]["k"] == "agg" and (s["rv"].get("adt") or "").endswith("JoinHandle")]
    ck.ob("C05.1", "handle-built-after-clone", bool(builds) and all(cfg.dominates(cb, b) for b in builds), fn=T.SPAWN, detail="the JoinHandle must be built after the clone call")

    # ---- C05.2 failure paths give back what was acquired (shared with C06.6) ------------------------------------------
    T.check_failure_release(ck, prog, "C05.2")

    # ---- C05.3 exactly-once execution -------------------------------------------------------------------------------------
    sf = prog.fns.get(T.START_FN)
    if ck.anchor("C05.3", "start_fn", sf):
        c2 = prog.ctx(sf)
        runs = T.call_blocks_suffix(c2, "FnOnce::call_once")
        ck.ob("C05.3", "start-fn-calls-closure-once", len(runs) == 1 and not c2.cfg.in_cycle(runs[0]), fn=T.START_FN, detail=f"call_once sites: {len(runs)} (must be exactly one, outside any loop)")
        reb = T.call_blocks_suffix(c2, "Box::<T>::from_raw")
        ck.ob("C05.3", "start-fn-reboxes-closure", len(reb) == 1 and runs and c2.cfg.dominates(reb[0], runs[0]), fn=T.START_FN, detail="the closure box must be reconstructed (and thereby freed after the call) before it is called")
    T.check_trampoline_x86(ck, prog, "C05.7", "C05.7b") if ck.config != "X" else T.check_trampoline_a64(ck, prog, "C05.7", "C05.7b")

    # ---- C05.4 publication order ---------------------------------------------------------------------------------------------
    cl = prog.fns.get(T.CLOSURE)
    if ck.anchor("C05.4", "thread closure", cl):
        c3 = prog.ctx(cl)
        user = T.call_blocks_suffix(c3, "FnOnce::call_once")
        slot = T.call_blocks(c3, T.TSM + "value_mut")
        cas = [op for op in inventory(cl, c3.cfg, c3.prov) if op.op == "compare_exchange"]
        ck.ob("C05.4", "closure-shape", len(user) == 1 and len(slot) == 1 and len(cas) == 1, fn=T.CLOSURE, detail=f"user calls {len(user)}, slot accesses {len(slot)}, flag CAS {len(cas)}")
        if len(user) == 1 and len(slot) == 1 and len(cas) == 1:
            # the store through the slot pointer
            stores = []
            for b in cl["blocks"]:
                if b.get("cleanup") or b["id"] not in c3.cfg.live_blocks():
                    continue
                for i, s in enumerate(b["stmts"]):
                    if s["k"] == "assign" and s["dst"].get("p") and s["dst"]["p"][0]["k"] == "deref":
                        e = c3.prov.place({"l": s["dst"]["l"]}, (b["id"], i))
                        if mentions(e, c3.prov, lambda x: x[0] == "call" and x[3] == slot[0]):
                            rv = c3.prov.rvalue(s["rv"], (b["id"], i))
                            stores.append((b["id"], rv))
            ck.ob("C05.4", "result-stored-once", len(stores) == 1, fn=T.CLOSURE, detail=f"writes to the result slot: {len(stores)}")
            if stores:
                sb, rv = stores[0]
                is_some_of_user = isinstance(rv, tuple) and rv[0] == "agg" and rv[2] == "Some" and mentions(rv, c3.prov, lambda x: x[0] == "call" and x[3] == user[0])
                ck.ob("C05.4", "result-is-some-of-closure-value", is_some_of_user, fn=T.CLOSURE, detail=f"the slot must receive Some(<value returned by the user's closure>), got {show(rv)}")
                ck.ob("C05.4", "order|run<store<flag", c3.cfg.dominates(user[0], sb) and c3.cfg.dominates(sb, cas[0].bb) and sb != cas[0].bb, fn=T.CLOSURE,
                      detail="the result must be written after the user function returned and before the hand-over flag is flipped")
            ck.ob("C05.4", "flag-release", is_release(cas[0].success_order), fn=T.CLOSURE, detail=f"the hand-over CAS publishes the result; ordering {cas[0].success_order}")
    T.check_tls_outlives_user_fn(ck, prog, "C05.4")
    T.check_tls_not_read_after_free(ck, prog, "C05.4")
    # the exit word a joiner trusts is written by the kernel when the thread exits; a thread that frees its own join block must first
    # detach that write (else it hits recycled memory: another thread's exit word, whose join then returns before that thread finished)
    T.check_clear_tid_reset(ck, prog, "C05.5")
    cg = prog.callgraph()
    writers = sorted(cg.callers.get(T.TSM + "value_mut", ()))
    ck.ob("C05.4", "slot-writers", writers == [T.CLOSURE], detail=f"only the thread's closure may take the mutable slot pointer; callers of Tsm::value_mut: {writers}")
    pn = prog.fns.get(T.PANIC)
    if ck.anchor("C05.4", "panic handler", pn):
        reach = cg.reach([T.PANIC])
        ck.ob("C05.4", "panic-handler-does-not-touch-slot", T.TSM + "value_mut" not in reach and T.TSM + "get_value" not in reach, fn=T.PANIC, detail="the panic handler must leave the result slot as None")
    init = prog.fns.get(T.TSM + "init")
    if ck.anchor("C05.4", "Tsm::init", init):
        c4 = prog.ctx(init)
        nones = [1 for bb, t in c4.cfg.calls(lambda t: (t.get("callee") or "").endswith("UnsafeCell::<T>::new")) if isinstance(c4.args(bb)[0], tuple) and c4.args(bb)[0][0] == "agg" and c4.args(bb)[0][2] == "None"]
        ck.ob("C05.4", "slot-initialised-none", len(nones) == 1, fn=init["path"], detail="the result slot must be explicitly initialised to None (a zeroed slot is not None for niche-optimised Option<T>)")
        # exit word initialised to UNFINISHED, flag to false
        news = [(c4.args(bb)[0], t.get("callee")) for bb, t in c4.cfg.calls(lambda t: (t.get("callee") or "").endswith("::new") and "atomic" in (t.get("callee") or ""))]
        vals = sorted(str(fold(a)) for a, _ in news)
        ck.ob("C05.6", "exit-word-initialised", str(unfinished) in vals and ("0" in vals), fn=init["path"], detail=f"atomics initialised with {vals}; the exit word must start as UNFINISHED={unfinished} and the hand-over flag as false")

    # ---- C05.5 join / drop re-check with Acquire --------------------------------------------------------------------------------
    # helper summary (inlining bound 1): a function all of whose returns are dominated by an edge on which an Acquire load of
    # the exit word was observed != UNFINISHED "returns only after the thread exited".
    waiters = {}
    for p, fn in prog.fns.items():
        if not p.startswith(T.M) or fn["kind"] == "Closure" or p in (T.JOIN, T.DROP):
            continue
        c = prog.ctx(fn)
        edges = T.exit_word_checked_edges(c, unfinished)
        rets = c.cfg.return_blocks()
        if edges and rets and all(any(c.cfg.edge_dominates(e, rb) for e, lb, o in edges if is_acquire(o)) for rb in rets):
            waiters[p] = c
    for p, c in waiters.items():
        for w in T.call_blocks(c, T.WAIT):
            a = c.args(w)
            ck.ob("C05.6", f"wait-expects-unfinished|{p.split('::')[-1]}", fold(a[1]) == unfinished, fn=p, site=c.site(w), detail=f"the wait must expect UNFINISHED, got {show(a[1])}")
            ck.ob("C05.5", f"wait-in-recheck-loop|{p.split('::')[-1]}", c.cfg.in_cycle(w), fn=p, site=c.site(w), detail="the wait must be retried until the exit word changed (loop)")
    for nm, consumer in ((T.JOIN, T.TSM + "get_value"), (T.JOIN, T.TSM + "dealloc"), (T.DROP, T.TSM + "dealloc")):
        fn = prog.fns.get(nm)
        if not ck.anchor("C05.5", nm, fn):
            continue
        c5 = prog.ctx(fn)
        who = "join" if "join" in nm else "drop"
        uses = T.call_blocks(c5, consumer)
        ck.ob("C05.5", f"anchor|{who}|{consumer.split('::')[-1]}", len(uses) == 1, fn=nm, detail=f"{consumer} sites: {len(uses)}")
        edges = T.exit_word_checked_edges(c5, unfinished)
        for u in uses:
            good = [(e, lb, o) for e, lb, o in edges if c5.cfg.edge_dominates(e, u)]
            via_helper = [bb for bb, t in c5.cfg.calls(lambda t: t.get("callee") in waiters) if c5.cfg.term(bb).get("t") is not None and c5.cfg.dominates(c5.cfg.term(bb)["t"], u)
                          and mentions(c5.args(bb)[0], c5.prov, lambda z: z[0] == "field" and z[2] == "tsm")]
            ck.ob("C05.5", f"exit-observed-before|{who}|{consumer.split('::')[-1]}", bool(good) or bool(via_helper), fn=nm, site=c5.site(u),
                  detail="the shared block is read/freed without first observing the exit word != UNFINISHED: futex_wait_fast returns on any wake-up (a stale wake on a recycled address) or error, "
                         "so the handle would read the result and free the block while the thread is still running")
            ck.ob("C05.5", f"exit-load-acquire|{who}|{consumer.split('::')[-1]}", any(is_acquire(o) for e, lb, o in good) or bool(via_helper), fn=nm, site=c5.site(u),
                  detail="the load that observes the thread's exit must be Acquire (or stronger): otherwise nothing orders the thread's write of its result before the handle's read")
        for w in T.call_blocks(c5, T.WAIT):
            a = c5.args(w)
            ck.ob("C05.6", f"wait-expects-unfinished|{who}", fold(a[1]) == unfinished and mentions(a[0], c5.prov, lambda z: z[0] == "call" and (z[1] or "").endswith("Tsm::get_futex")),
                  fn=nm, site=c5.site(w), detail=f"the wait must be on the exit word with expected value UNFINISHED, got ({show(a[0])}, {show(a[1])})")
            ck.ob("C05.5", f"wait-in-recheck-loop|{who}", c5.cfg.in_cycle(w), fn=nm, site=c5.site(w), detail="the wait must be retried until the exit word changed (loop)")
    ck.floor("C05.5", "exit waits", sum(len(T.call_blocks(c, T.WAIT)) for c in waiters.values()) + sum(len(T.call_blocks(prog.ctx(n), T.WAIT)) for n in (T.JOIN, T.DROP) if n in prog.fns), 1)

    # ---- C05.6 kernel hand-shake ------------------------------------------------------------------------------------------------------
    args = ctx.args(cb)
    flags = T.fold_flags(prog, ctx, args[2]) if len(args) > 2 else None
    for name, bit in T.CLONE_FLAGS.items():
        ck.ob("C05.6", f"clone-flag|{name}", flags is not None and flags & bit == bit, fn=T.SPAWN, site=ctx.site(cb), detail=f"clone flags fold to {flags}; {name} is required")
    if len(args) >= 8:
        ck.ob("C05.6", "child-tid-is-exit-word", mentions(args[5], ctx.prov, lambda z: z[0] == "call" and (z[1] or "").endswith("Tsm::get_futex")), fn=T.SPAWN, site=ctx.site(cb),
              detail=f"the child-tid pointer passed to clone is {show(args[5])}; it must be the address of the exit word the handle waits on")
        ck.ob("C05.6", "start-fn-arg", mentions(args[0], ctx.prov, lambda z: z[0] == "call" and (z[1] or "").endswith("onwed_split_fn_once")), fn=T.SPAWN, detail="start function must come from the closure split")
        ck.ob("C05.6", "unmap-args", mentions(args[6], ctx.prov, lambda z: z[0] == "call" and (z[1] or "").endswith("mmap::mmap")), fn=T.SPAWN, detail=f"stack_unmap_ptr {show(args[6])} must be the mapping's base")
        # the child's stack top is the end of what was mapped: base (the mmap result itself, through Result plumbing only) + the
        # length that very mmap call was given, minus alignment / room for the start arguments. A base that came from elsewhere (a
        # second, smaller mapping tried after a refusal) with the first length puts the child's stack outside of its mapping.
        def is_base(e, depth=0):
            e = strip_casts(e)
            if not isinstance(e, tuple) or depth > 12:
                return None
            if e[0] == "call" and (e[1] or "").endswith("unistd::mmap::mmap"):
                return e
            if e[0] == "call":
                if (e[1] or "").endswith(("Try>::branch", "Try::branch", "::unwrap", "::unwrap_unchecked", "::expect", "::map_err", "::inspect_err", "::ok", "::ok_or", "::ok_or_else")) and e[2]:
                    return is_base(e[2][0], depth + 1)      # none of these changes the success value
                return None
            if e[0] in ("field", "downcast"):
                return is_base(e[1], depth + 1)
            return None
        def size_value(e):
            e = strip_casts(e)
            while isinstance(e, tuple) and e[0] == "call" and (e[1] or "").endswith("new_unchecked") and e[2]:
                e = strip_casts(e[2][0])
            v = fold(e)
            return v if v is not None else canon(e)
        top = strip_casts(args[1])
        for _ in range(8):
            if isinstance(top, tuple) and top[0] == "bin" and top[1] in ("Sub", "BitAnd"):
                top = strip_casts(top[2])
            else:
                break
        ok_top, why = False, f"stack pointer {show(args[1])[:120]} is not <mmap result> + <mapped length> - ..."
        if isinstance(top, tuple) and top[0] == "bin" and top[1] == "Add":
            m = is_base(top[2])
            if m is None:
                why = f"the base of the child's stack, {show(top[2])[:120]}, is not the result of the stack mmap itself"
            elif size_value(top[3]) != size_value(m[2][1]):
                why = f"the child's stack top is base + {size_value(top[3])} but that mapping is {size_value(m[2][1])} long"
            else:
                ok_top = True
        ck.ob("C05.6", "child-stack-top-is-the-end-of-its-mapping", ok_top, fn=T.SPAWN, site=ctx.site(cb), detail=why + ": the new thread would run on (and the parent would write its start arguments into) memory outside the mapping")
    gf = prog.fns.get(T.TSM + "get_futex")
    if ck.anchor("C05.6", "Tsm::get_futex", gf) and init is not None:
        # both use the same offset constant
        c6 = prog.ctx(gf)
        off_g = [x for x in walk_deep(list(c6.ret_expr().values())[0], c6.prov) if x[0] == "const" and x[2] and x[2].endswith("FUTEX_OFFSET")]
        ck.ob("C05.6", "exit-word-offset", bool(off_g), fn=gf["path"], detail="get_futex must address the block at FUTEX_OFFSET (where init wrote the exit word)")
    check_flavour(ck, prog, "C05.6f")
    check_layout(ck, prog)


def check_layout(ck, prog):
    """C05.8 the join block's layout: the fields are pushed one after another, each step continuing from the previous step's
    (size, align); the allocation is made with the size padded to, and the alignment of, the LAST step (which includes the result
    slot's alignment) - a result type aligned more strictly than the header would otherwise sit misaligned in the block."""
    M = T.M
    lf = next((f for p2, f in prog.fns.items() if p2.startswith(T.TSM) and "layout_thread_shared_memory" in p2), None)
    if not ck.anchor("C05.8", "Tsm::layout_thread_shared_memory", lf):
        return
    c = prog.ctx(lf)
    pushes = sorted(bb for bb, t in c.cfg.calls(lambda t: (t.get("callee") or "").endswith("spawn::push_aligned")))
    ck.floor("C05.8", "push_aligned steps", len(pushes), 5)

    def is_acc(e, which, src):
        """e == Layout::<which>(&<call at block src>)"""
        e = strip_casts(e)
        return isinstance(e, tuple) and e[0] == "call" and (e[1] or "").endswith("Layout::" + which) and e[2] and is_call_at(e[2][0], src)

    def is_call_at(e, src):
        e = strip_casts(e)
        n = 0
        while isinstance(e, tuple) and e[0] in ("ref", "addr", "deref") and n < 6:
            e = strip_casts(e[2] if e[0] in ("ref", "addr") else e[1])
            n += 1
        return isinstance(e, tuple) and e[0] == "call" and e[3] == src
    ok_chain = True
    why = ""
    for i, bb in enumerate(pushes):
        a = c.args(bb)
        if i == 0:
            good = fold(a[0]) == 0 and fold(a[1]) == 0
        else:
            good = is_acc(a[0], "size", pushes[i - 1]) and is_acc(a[1], "align", pushes[i - 1])
        if not good:
            ok_chain = False
            why = f"step {i} continues from ({show(a[0])[:60]}, {show(a[1])[:60]})"
    ck.ob("C05.8", "layout-steps-chain", ok_chain, fn=lf["path"], detail=why or "each push_aligned must continue from the previous step's size and alignment (the first from 0, 0)")
    fin = [bb for bb, t in c.cfg.calls(lambda t: (t.get("callee") or "").endswith("Layout::from_size_align_unchecked"))]
    if ck.ob("C05.8", "anchor|final-layout", len(fin) == 1 and bool(pushes), fn=lf["path"], detail=f"final Layout constructions: {len(fin)}"):
        a = c.args(fin[0])
        last = pushes[-1]
        align_ok = is_acc(a[1], "align", last)
        sz = strip_casts(a[0])
        size_ok = isinstance(sz, tuple) and sz[0] == "bin" and sz[1] == "Add" and is_acc(sz[2], "size", last) and isinstance(strip_casts(sz[3]), tuple) and strip_casts(sz[3])[0] == "call" and \
            (strip_casts(sz[3])[1] or "").endswith("spawn::padding") and is_acc(strip_casts(sz[3])[2][0], "size", last) and is_acc(strip_casts(sz[3])[2][1], "align", last)
        ck.ob("C05.8", "block-aligned-as-the-last-step", align_ok, fn=lf["path"], site=c.site(fin[0]),
              detail=f"the block must be allocated with the alignment accumulated over ALL steps including the result slot; it uses {show(a[1])[:120]}")
        ck.ob("C05.8", "block-size-padded-to-its-alignment", size_ok, fn=lf["path"], site=c.site(fin[0]), detail=f"size must be last.size() + padding(last.size(), last.align()); got {show(a[0])[:160]}")
        gen = str(c.cfg.term(last).get("generic") or "")
        ck.ob("C05.8", "last-step-is-the-result-slot", "UnsafeCell" in gen and "Option" in gen, fn=lf["path"], detail=f"the last step must push UnsafeCell<Option<T>>; generic arguments: {gen}")
    pa = prog.fns.get(M + "push_aligned")
    if ck.anchor("C05.8", "push_aligned", pa):
        c2 = prog.ctx(pa)
        fin2 = [bb for bb, t in c2.cfg.calls(lambda t: (t.get("callee") or "").endswith("Layout::from_size_align_unchecked"))]
        ok = False
        if len(fin2) == 1:
            a = c2.args(fin2[0])
            s0 = canon(strip_casts(a[0]))
            ok = s0.replace(" ", "") in ("((p1Addpadding(p1,align_of()))Addsize_of())",) and canon(strip_casts(a[1])).replace(" ", "") == "max(p2,align_of())"
        ck.ob("C05.8", "push_aligned-formula", ok, fn=pa["path"], detail=f"push_aligned must return (base + padding(base, align_of T) + size_of T, max(max_align, align_of T)); found {[canon(x) for x in c2.args(fin2[0])] if fin2 else None}")
    pd = prog.fns.get(M + "padding")
    if ck.anchor("C05.8", "padding", pd):
        c3 = prog.ctx(pd)
        vals = sorted(canon(strip_casts(v)).replace(" ", "") for v in c3.ret_expr().values())
        ok = len(vals) <= 2 and all(v in ("0", "(p2Sub(p1Remp2))") for v in vals) and any(v != "0" for v in vals)
        if len(c3.ret_expr()) == 1:
            # single return of a merged value: look at the assignments to _0
            vals = sorted({canon(strip_casts(c3.prov.rvalue(st["rv"], (b["id"], i)))).replace(" ", "") for b in pd["blocks"] for i, st in enumerate(b["stmts"]) if st["k"] == "assign" and st["dst"]["l"] == 0})
            ok = set(vals) == {"0", "(p2Sub(p1Remp2))"}
        # the same function without the branch: (align - base % align) % align  (base % align < align, so the difference is in 1..=align)
        if not ok and set(vals) == {"((p2Sub(p1Remp2))Remp2)"}:
            ok = True
        ck.ob("C05.8", "padding-formula", ok, fn=pd["path"], detail=f"padding(base, align) must be 0 when base % align == 0 and align - base % align otherwise; results {vals}")
    mx = prog.fns.get(M + "max")
    if ck.anchor("C05.8", "max", mx):
        c4 = prog.ctx(mx)
        res = {}
        for b in mx["blocks"]:
            for i, st in enumerate(b["stmts"]):
                if st["k"] == "assign" and st["dst"]["l"] == 0:
                    facts = panics.dominating_facts(c4, b["id"]) if "panics" in globals() else []
                    res[canon(c4.prov.rvalue(st["rv"], (b["id"], i)))] = [(f[1], canon(f[2]), canon(f[3])) for f in facts if f[0] == "cmp"]
        def norm(fs):
            out = []
            for op, a, b in fs or []:
                if (a, b) == ("p2", "p1"):
                    op = {"Gt": "Lt", "Ge": "Le", "Lt": "Gt", "Le": "Ge"}.get(op, op)
                    a, b = b, a
                out.append((op, a, b))
            return out
        ok = norm(res.get("p1")) in ([("Gt", "p1", "p2")], [("Ge", "p1", "p2")]) and norm(res.get("p2")) in ([("Le", "p1", "p2")], [("Lt", "p1", "p2")])
        ck.ob("C05.8", "max-is-max", ok, fn=mx["path"], detail=f"max(a, b) must return a when a > b and b otherwise; found {res}")
