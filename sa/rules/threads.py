"""Shared rules for C05 (closure runs once, join semantics, spawn failure) and C06 (resources released exactly once)."""
import sys

from ..engine.prov import const_value, strip_casts, walk, walk_deep, show
from ..engine.atomics import inventory, is_acquire, is_release, target_of
from ..engine.dtable import canon
from ..engine.fold import fold
from ..engine import asm
from ..engine import pathsens
from .c12 import mentions
from .futexflavour import check_flavour

M = "tiny_std::thread::spawn::"
SPAWN = M + "spawn"
CLOSURE = M + "spawn::{closure#0}"
JOIN = M + "JoinHandle::<T>::join"
DROP = "<tiny_std::thread::spawn::JoinHandle<T> as core::ops::drop::Drop>::drop"
PANIC = M + "on_panic"
START_FN = M + "start_fn"
TSM = M + "Tsm::"
WAIT = "tiny_std::sync::futex_wait_fast"
CLONE_FLAGS = {"CLONE_VM": 0x100, "CLONE_FS": 0x200, "CLONE_FILES": 0x400, "CLONE_SIGHAND": 0x800, "CLONE_THREAD": 0x10000,
               "CLONE_SETTLS": 0x80000, "CLONE_CHILD_CLEARTID": 0x200000}


def call_blocks(ctx, name):
    return [bb for bb, t in ctx.cfg.calls(lambda t: t.get("callee") == name or t.get("resolved") == name)]


def call_blocks_suffix(ctx, suffix):
    return [bb for bb, t in ctx.cfg.calls(lambda t: (t.get("callee") or "").endswith(suffix))]


def fold_flags(prog, ctx, e, depth=0):
    """fold an expression made of CloneFlags constants combined with BitOr::bitor calls."""
    e = strip_casts(e)
    v = fold(e)
    if v is not None:
        return v
    if not isinstance(e, tuple) or depth > 20:
        return None
    if e[0] == "call" and (e[1] or "").endswith(("BitOr>::bitor", "BitOr::bitor")) and len(e[2]) == 2:
        a, b = fold_flags(prog, ctx, e[2][0], depth + 1), fold_flags(prog, ctx, e[2][1], depth + 1)
        return None if a is None or b is None else a | b
    if e[0] == "call" and (e[1] or "").endswith("::bits") and e[2]:
        return fold_flags(prog, ctx, e[2][0], depth + 1)
    if e[0] in ("ref", "field"):
        return fold_flags(prog, ctx, e[2] if e[0] == "ref" else e[1], depth + 1)
    return None


def exit_word_checked_edges(ctx, unfinished):
    """edges on which an Acquire load of the exit word was observed != UNFINISHED: [(edge, load_bb, ordering)]"""
    ops = {op.bb: op for op in inventory(ctx.fn, ctx.cfg, ctx.prov) if op.op == "load"}
    out = []
    for sb in ctx.cfg.live_blocks():
        if ctx.cfg.term(sb)["k"] != "switch":
            continue
        for e in ctx.cfg.succ[sb]:
            for f in ctx.edge_facts(e):
                if f[0] == "cmp" and f[1] == "Ne":
                    for x, y in ((f[2], f[3]), (f[3], f[2])):
                        xs = strip_casts(x)
                        if fold(y) == unfinished and isinstance(xs, tuple) and xs[0] == "call" and xs[3] in ops:
                            op = ops[xs[3]]
                            if mentions(op.recv, ctx.prov, lambda z: z[0] == "call" and (z[1] or "").endswith("Tsm::get_futex")):
                                out.append((e, xs[3], op.success_order))
    return out


def clone_asm(prog):
    for g in prog.global_asm:
        if "__clone" in g["template"]:
            return g
    return None


def check_trampoline_x86(ck, prog, rule_c05, rule_c06):
    g = clone_asm(prog)
    if not ck.anchor(rule_c05, "__clone trampoline (global_asm)", g):
        return
    lines = asm.split_template(g["template"])
    st = asm.run_x86(lines, 8)
    ck.ob(rule_c05, "asm|all-instructions-understood", not st.unknown, detail=f"unrecognised instructions in the trampoline: {st.unknown}")
    sysc = [e for e in st.events if e[0] == "syscall"]
    calls = [e for e in st.events if e[0] == "call"]
    nr_clone = prog.const("sc::platform::nr::CLONE") or 56
    nr_munmap = prog.const("sc::platform::nr::MUNMAP") or 11
    nr_exit = prog.const("sc::platform::nr::EXIT") or 60
    ck.ob(rule_c05, "asm|three-syscalls", len(sysc) == 3, detail=f"expected clone, munmap, exit; found {len(sysc)} syscalls")
    if len(sysc) != 3:
        return
    c = sysc[0][1]
    want = {"rax": ("const", nr_clone), "rdi": ("arg", 3), "rdx": ("const", 0), "r10": ("arg", 6), "r8": ("arg", 5)}
    for r, v in want.items():
        ck.ob(rule_c05, f"asm|clone-{r}", c.get(r) == v, detail=f"at the clone syscall {r} holds {c.get(r)}, must be {v} (nr / flags / parent_tid=0 / child_tid / tls)")
    rsi = c.get("rsi")
    ck.ob(rule_c05, "asm|clone-stack", isinstance(rsi, tuple) and rsi[0] == "newsp" and rsi[1] == ("arg", 2), detail=f"new stack pointer register holds {rsi}; must be the 16-aligned stack argument minus the pushed words")
    # new stack layout matches the order the child pops
    forks = [i for i, e in enumerate(st.events) if e[0] == "fork"]
    ck.ob(rule_c05, "asm|child-branch-after-clone", len(forks) == 1 and st.events.index(sysc[0]) < forks[0], detail="the child/parent test must directly follow the clone syscall")
    ck.ob(rule_c05, "asm|exactly-one-indirect-call", len(calls) == 1, detail=f"the trampoline must call the start function exactly once; found {len(calls)} calls")
    if len(calls) == 1:
        tgt, regs = calls[0][1], calls[0][2]
        ck.ob(rule_c05, "asm|call-target-is-start-fn", tgt == ("arg", 1), detail=f"indirect call target is {tgt}, must be the start_fn argument")
        ck.ob(rule_c05, "asm|call-arg-is-args-ptr", regs.get("rdi") == ("arg", 4), detail=f"first argument of the start function is {regs.get('rdi')}, must be args_ptr")
        ci = st.events.index(calls[0])
        ck.ob(rule_c05, "asm|call-on-child-side", forks and ci > forks[0], detail="the start function must only be called on the child side of the clone result test")
    # C06.4: munmap(stack_unmap_ptr, stack_sz) then exit, no stack use in between / after
    m, x = sysc[1][1], sysc[2][1]
    ck.ob(rule_c06, "asm|munmap-nr", m.get("rax") == ("const", nr_munmap), detail=f"second syscall number {m.get('rax')}, must be MUNMAP")
    ck.ob(rule_c06, "asm|munmap-args", m.get("rdi") == ("arg", 7) and m.get("rsi") == ("arg", 8), detail=f"munmap(addr={m.get('rdi')}, len={m.get('rsi')}) must be (stack_unmap_ptr, stack_sz) carried in callee-saved registers across the call")
    ck.ob(rule_c06, "asm|exit-nr", x.get("rax") == ("const", nr_exit), detail=f"last syscall number {x.get('rax')}, must be EXIT (thread exit, not exit_group)")
    i1 = st.events.index(sysc[1])
    after = [e for e in st.events[i1 + 1:] if e[0] in ("stack", "stackref", "call")]
    ck.ob(rule_c06, "asm|no-stack-use-after-munmap", not after, detail=f"after the thread's own stack is unmapped nothing may touch it: {after}")
    ci = st.events.index(calls[0]) if calls else 0
    between = [e for e in st.events[ci + 1:i1] if e[0] in ("stack", "stackref", "call")]
    ck.ob(rule_c06, "asm|munmap-args-from-registers", not between, detail=f"munmap's arguments must come from callee-saved registers, not from the stack after the call: {between}")


def check_trampoline_a64(ck, prog, rule_c05, rule_c06):
    g = clone_asm(prog)
    if not ck.anchor(rule_c05, "__clone trampoline aarch64", g):
        return
    events, unknown, newstack = asm.run_a64(asm.split_template(g["template"]))
    ck.ob(rule_c05, "a64|all-instructions-understood", not unknown, detail=f"unrecognised instructions: {unknown}")
    sysc = [e for e in events if e[0] == "syscall"]
    calls = [e for e in events if e[0] == "call"]
    ck.ob(rule_c05, "a64|three-syscalls", len(sysc) == 3, detail=f"found {len(sysc)}")
    if len(sysc) != 3:
        return
    c = sysc[0][1]
    want = {"x8": ("const", 220), "x0": ("arg", 3), "x2": ("const", 0), "x3": ("arg", 5), "x4": ("arg", 6)}
    for r, v in want.items():
        ck.ob(rule_c05, f"a64|clone-{r}", c.get(r) == v, detail=f"{r} = {c.get(r)}, must be {v}")
    ck.ob(rule_c05, "a64|one-call", len(calls) == 1 and calls[0][1] == ("arg", 1) and calls[0][2].get("x0") == ("arg", 4), detail=f"calls: {[(x[1], x[2].get('x0')) for x in calls]}")
    m, x = sysc[1][1], sysc[2][1]
    ck.ob(rule_c06, "a64|munmap", m.get("x8") == ("const", 215) and m.get("x0") == ("arg", 7) and m.get("x1") == ("arg", 8), detail=f"munmap regs x8={m.get('x8')} x0={m.get('x0')} x1={m.get('x1')}")
    ck.ob(rule_c06, "a64|exit", x.get("x8") == ("const", 93), detail=f"exit nr {x.get('x8')}")
    i1 = events.index(sysc[1])
    ck.ob(rule_c06, "a64|no-stack-use-after-munmap", not [e for e in events[i1 + 1:] if e[0] in ("stack", "call")], detail="stack touched after munmap")


def infeasible_edges(ctx):
    """Switch edges contradicting a test that dominates them: after `x.is_err() == false` (or the Ok arm of a match on x) the
    Break/Err edge of a later `x?` cannot be taken. Keyed on the canonical expression of x (temporaries are single-assignment)."""
    from ..engine.prov import strip_casts
    POS, NEG = ("Ok", "Some", "Continue"), ("Err", "None", "Break")
    cfg = ctx.cfg
    tests = []
    for sb in cfg.live_blocks():
        if cfg.term(sb)["k"] != "switch":
            continue
        for e in cfg.succ[sb]:
            for f in ctx.edge_facts(e):
                if f[0] != "variant" or f[2] not in POS + NEG:
                    continue
                x = strip_casts(f[1])
                n = 0
                while isinstance(x, tuple) and x and n < 6:
                    if x[0] == "call" and (x[1] or "").endswith("Try::branch") and x[2]:
                        x = strip_casts(x[2][0])
                    elif x[0] in ("ref",):
                        x = strip_casts(x[2])
                    else:
                        break
                    n += 1
                tests.append((e, canon(x), f[2] in POS))
    out = set()
    for e2, k2, p2 in tests:
        for e1, k1, p1 in tests:
            if e1 is not e2 and k1 == k2 and p1 != p2 and e1.src != e2.src and cfg.edge_dominates(e1, e2.src):
                out.add((e2.src, e2.dst))
    return out


from .locks import through_result_adapters


def check_failure_release(ck, prog, rule):
    """Every resource spawn acquires (join block, boxed closure, stack mapping, TLS block) is released again on every path
    on which spawn returns an error: a failed spawn leaves nothing behind."""
    from ..engine.prov import strip_casts
    from .c12 import mentions
    T = sys.modules[__name__]
    sp = prog.fns.get(SPAWN)
    if sp is None:
        ck.anchor(rule, "thread::spawn", None)
        return
    ctx = prog.ctx(sp)
    cfg = ctx.cfg
    resources = {
        "join-block": (T.call_blocks(ctx, T.TSM + "init"), lambda t: t.get("callee") == T.TSM + "dealloc"),
        "closure-box": (T.call_blocks(ctx, T.M + "onwed_split_fn_once"), lambda t: (t.get("callee") or "").endswith("Box::<T>::from_raw") or (t.get("callee") or "").endswith("mem::drop")),
        "stack-mapping": (T.call_blocks_suffix(ctx, "unistd::mmap::mmap"), lambda t: (t.get("callee") or "").endswith("unistd::mmap::munmap")),
        "tls-block": ([bb for bb in T.call_blocks_suffix(ctx, "Box::<T>::into_raw") ], lambda t: (t.get("callee") or "").endswith("Box::<T>::from_raw")),
    }
    ok_blocks = {b["id"] for b in sp["blocks"] for s in b["stmts"] if s["k"] == "assign" and s["dst"]["l"] == 0 and s["rv"]["k"] == "agg" and s["rv"].get("variant") == "Ok"}
    infeasible = infeasible_edges(ctx)
    for name, (creators, is_free) in resources.items():
        ck.ob(rule, f"anchor|{name}", len(creators) >= 1, fn=T.SPAWN, detail=f"creation site of the {name} not found")
        for cr in creators[:1]:
            frees = set()
            for bb, t in cfg.calls(is_free):
                args = ctx.args(bb)
                if args and mentions(args[0], ctx.prov, lambda x: x[0] == "call" and x[3] == cr):
                    frees.add(bb)
            # the release written inside the error closure of `fallible(..).map_err(|e| { release; e })?`: the closure captures the
            # resource and frees it; it runs exactly on the Err path that follows
            for bb, t in cfg.calls(lambda t: (t.get("callee") or "").endswith(("Result::<T, E>::map_err", "Result::<T, E>::inspect_err", "Result::<T, E>::or_else"))):
                a = ctx.args(bb)
                clo = strip_casts(a[1]) if len(a) == 2 else None
                if not (isinstance(clo, tuple) and clo[0] == "agg" and isinstance(clo[2], str) and clo[2] in prog.fns):
                    continue
                if not any(mentions(cap, ctx.prov, lambda x: x[0] == "call" and x[3] == cr) for cap in (clo[3] or ())):
                    continue
                cc = prog.ctx(prog.fns[clo[2]])
                if any(cc.args(b2) and mentions(cc.args(b2)[0], cc.prov, lambda x: x[0] == "param" and x[1] == 1) for b2, t2 in cc.cfg.calls(is_free)):
                    frees.add(bb)
            # start after the creator succeeded: for `?`-creators the Continue edge, else the return edge
            t = cfg.term(cr)
            start = t.get("t")
            succ_edges = []
            for sb in cfg.live_blocks():
                if cfg.term(sb)["k"] != "switch":
                    continue
                for e in cfg.succ[sb]:
                    for f in ctx.edge_facts(e):
                        if f[0] == "variant" and f[2] in ("Continue", "Ok"):
                            x = strip_casts(f[1])
                            inner = through_result_adapters(x[2][0]) if isinstance(x, tuple) and x[0] == "call" and x[2] else None   # creator(..).map_err(..)?
                            if isinstance(x, tuple) and x[0] == "call" and (x[3] == cr or (isinstance(inner, tuple) and inner[0] == "call" and inner[3] == cr) or
                                                                             (isinstance(through_result_adapters(x), tuple) and through_result_adapters(x)[0] == "call" and through_result_adapters(x)[3] == cr)):
                                succ_edges.append(e)
            starts = [e.dst for e in succ_edges] or [start]
            r = set()
            for e0 in succ_edges:
                r |= pathsens.reachable(ctx, e0.dst, avoid=frees | ok_blocks, avoid_edges=infeasible, via_edge=(e0.src, e0.dst))
            if not succ_edges:
                r |= pathsens.reachable(ctx, start, avoid=frees | ok_blocks, avoid_edges=infeasible)
            leaks = [rb for rb in cfg.return_blocks() if rb in r]
            path = None
            if leaks:
                path = cfg.find_path(starts[0], lambda b: b in leaks, avoid=frees | ok_blocks)
            ck.ob(rule, f"released-on-failure|{name}", not leaks, fn=T.SPAWN, site=ctx.site(cr),
                  detail=f"spawn can return an error after acquiring the {name} without releasing it (leak per failed spawn)",
                  path=cfg.render_path(path) if path else None)



def check_tls_outlives_user_fn(ck, prog, rule):
    """the thread-local block is still allocated while the user's function runs: the panic handler finds the thread's stack and join
    block through it (and frees it itself), so the thread wrapper may free it only AFTER the user function has returned.
    Shared by C05.4 (a panicking thread must still end with `join() == None`) and C06.3 (freed exactly once)."""
    from .c12 import mentions
    cl = prog.fns.get(CLOSURE)
    if cl is None:
        ck.anchor(rule, "thread closure", None)
        return
    c = prog.ctx(cl)
    user = call_blocks_suffix(c, "FnOnce::call_once")
    frees = [bb for bb, t in c.cfg.calls(lambda t: (t.get("callee") or "") == "alloc::alloc::dealloc")
             if mentions(c.args(bb)[0], c.prov, lambda z: z[0] == "call" and (z[1] or "").endswith("get_tls_ptr"))]
    ck.ob(rule, "anchor|user-call-and-tls-free", len(user) == 1 and len(frees) >= 1, fn=CLOSURE, detail=f"user function calls {len(user)}, TLS frees {len(frees)}")
    if len(user) == 1:
        early = [fb for fb in frees if not c.cfg.dominates(user[0], fb) or user[0] in c.cfg.reachable_from(fb)]
        ck.ob(rule, "tls-block-freed-only-after-the-user-function-returned", not early, fn=CLOSURE, site=c.site(early[0]) if early else None,
              detail="the thread frees its thread-local block before (or around) the call of the user's function: if that function panics, the panic handler reads the freed block to find the stack and the join block and frees it a second time")


def check_tls_not_read_after_free(ck, prog, rule):
    """the panic handler (and the thread epilogue) take what they need OUT of the thread-local block before freeing it: after
    dealloc(get_tls_ptr()) nothing is read through a pointer into that block (a by-value `tls.read()` copy is fine, a reference
    `&*tls` is not - the freed chunk may already be another thread's TLS)."""
    from ..engine.prov import walk
    COPY = ("::read", "::read_unaligned", "::read_volatile", "Clone::clone", "ptr::read")
    for p in (PANIC, CLOSURE):
        fn = prog.fns.get(p)
        if fn is None:
            continue
        c = prog.ctx(fn)
        memo = {}

        def derives(e, depth=0):
            """e evaluates to (something containing) a pointer into the TLS block"""
            if not isinstance(e, tuple) or not e or depth > 40:
                return False
            if not isinstance(e[0], str):
                return any(derives(x, depth + 1) for x in e)
            if e[0] == "call":
                nm = e[1] or ""
                if nm.endswith(COPY):
                    return False
                if nm.endswith("get_tls_ptr"):
                    return True
                return any(derives(x, depth + 1) for x in (e[2] or ()))
            if e[0] == "var":
                key = (e[1], e[3] if len(e) > 3 else None)
                if key in memo:
                    return memo[key]
                memo[key] = False
                memo[key] = any(derives(d, depth + 1) for d in c.prov.expand(e))
                return memo[key]
            if e[0] == "const":
                return False
            return any(derives(x, depth + 1) for x in e[1:] if isinstance(x, tuple))

        frees = [bb for bb, t in c.cfg.calls(lambda t: (t.get("callee") or "") == "alloc::alloc::dealloc") if derives(c.args(bb)[0])]
        if not frees:
            continue
        late = []
        for fb in frees:
            nxt = c.cfg.term(fb).get("t")
            after = c.cfg.reachable_from(nxt) if nxt is not None else set()
            for b in fn["blocks"]:
                if b["id"] not in after or b.get("cleanup"):
                    continue
                for i, st in enumerate(b["stmts"]):
                    if st["k"] != "assign":
                        continue
                    e = c.prov.rvalue(st["rv"], (b["id"], i))
                    for z in walk(e):
                        if z[0] == "deref" and derives(z[1]):
                            late.append((b["id"], show(e)[:80]))
                            break
                for a in (c.args(b["id"]) if b["term"]["k"] == "call" and b["id"] != fb else []):
                    for z in walk(a):
                        if z[0] == "deref" and derives(z[1]):
                            late.append((b["id"], show(a)[:80]))
                            break
        ck.ob(rule, f"tls-block-not-read-after-it-was-freed|{p.split('::')[-1]}", not late, fn=p, site=c.site(late[0][0]) if late else None,
              detail=f"`{late[0][1] if late else ''}` is read through the thread-local block after dealloc(get_tls_ptr()): the handler must copy what it needs out first (tls.read()), the freed chunk may be reused at once")


def check_clear_tid_reset(ck, prog, rule):
    """on the thread side SET_TID_ADDRESS(0) precedes the free of the join block: otherwise the exiting thread's kernel-side clear-tid
    write (0 + futex wake) lands in freed memory - which by then may be ANOTHER thread's join block, whose exit word then reads
    "finished" while that thread still runs (its join returns early).  Shared by C06.2 and C05.5."""
    from ..engine.cfg import is_raw_syscall
    from .futexflavour import nr_name
    dealloc = TSM + "dealloc"
    for p in (CLOSURE, PANIC):
        fn = prog.fns.get(p)
        if not ck.anchor(rule, p, fn):
            continue
        c = prog.ctx(fn)
        tid = []
        for bb, t in c.cfg.calls(lambda t: is_raw_syscall(t.get("callee"))):
            a = c.args(bb)
            if a and nr_name(a[0]) == "SET_TID_ADDRESS":
                tid.append((bb, fold(a[1]) if len(a) > 1 else None))
        ds = call_blocks(c, dealloc)
        ok = bool(ds) and all(any(c.cfg.dominates(tb, d) and tb != d and v == 0 for tb, v in tid) for d in ds)
        ck.ob(rule, f"clear-tid-reset-before-free|{p}", ok, fn=p, detail="on the thread side SET_TID_ADDRESS(0) must precede freeing the block: otherwise the kernel writes 0 into (and futex-wakes) freed memory when the thread exits")
        # and only then: a thread that resets its clear-tid address while a joiner may still wait on the exit word is never reported
        # as finished (the kernel's write at exit is the only thing that releases the joiner, C05.6)
        lone = []
        for tb, v in tid:
            seen = c.cfg.reachable_from(tb, avoid=frozenset(ds))
            ends = [b for b in seen if b not in ds and not c.cfg.block(b).get("cleanup") and not [e for e in c.cfg.succ[b] if e.kind != "unwind"]]
            if ends:
                lone.append(c.site(tb))
        ck.ob(rule, f"clear-tid-reset-only-when-freeing|{p}", not lone, fn=p, detail=f"SET_TID_ADDRESS at {lone} can be followed by the thread's end without the thread freeing the join block itself: "
              "a handle that still waits for the exit word would never be woken (join never returns)")
