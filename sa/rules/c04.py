"""C04 — allocator: freed space is reused / given back (the structural spine of the memory bound)."""
from ..engine.prov import const_value, strip_casts, walk, walk_deep, show
from ..engine.dtable import canon
from ..engine.fold import fold
from ..engine import panics
from .c12 import mentions

CONFIGS_QUICK = ["A", "C"]
CONFIGS_THOROUGH = ["A", "C", "R", "X"]

EXPLANATION = (
    "Decided (static, MIR; necessary conditions of 'freed space is reused and given back'): C04.1 every freed chunk is disposed of: on every path of free and dispose_chunk to return the chunk is unmapped (syscall_free), "
    "merged into top (self.top/topsize written), merged into or made the designated victim (dv/dvsize written), or inserted into a bin (insert_small_chunk / insert_large_chunk / insert_chunk) - a path that drops it leaks per call; "
    "C04.2 coalescing exists: free has a `next == top` edge that writes top and unlinks a free neighbour before re-inserting the merged chunk; "
    "C04.3 trimming is reachable and accounted: free's top-merge edge calls sys_trim under should_trim, sys_trim reaches syscall_free_part and release_unused_segments, release_unused_segments reaches syscall_free, "
    "the large-chunk path of free counts release_checks down and calls release_unused_segments at zero, every successful unmap is followed by `footprint -= size` and every successful map by `footprint += size`; "
    "C04.4 reuse before growth: inner_malloc's only call of sys_alloc comes after the dv / top / bin attempts (dominated by the failing edges of the `nb <= dvsize` and `nb < topsize` tests), and sys_alloc has no other caller; "
    "C04.5 segments are not forgotten: add_segment stores the previous segment record and links it; "
    "C04.6 nothing is dropped on the way to the free routine: every GlobalAlloc::dealloc reaches Dlmalloc::free with its argument on every path, and every remainder split off in try_realloc_chunk is handed to dispose_chunk on every path. "
    "C04.7 the two comparisons reuse hinges on: tmalloc_large passes over a fitting tree chunk only under dvsize >= size, and release_unused_segments unmaps under chunk_top >= top. "
    "C04.9 a chunk put into a bin has been stamped free (size|PINUSE, foot) on every path, and sys_trim sweeps for releasable segments whatever the top released. "
    "C04.8 the catch-all tree bin (every size above compute_tree_index's bound) is walked with shift 0 in leftshift_for_tree_index, so the bits that order its tree are kept. "
    "C04.10 top spans its segment: init_top gets (new mapping - foot) for a fresh mapping and topsize +/- exactly the change when the segment holding top grows or shrinks in place. "
    "C04.4 also: the tree attempts depend on allocator state only through the tests that make them necessary and possible, and tmalloc_large searches the larger bins whenever nothing fitting was found; C04.6 also: a block obtained inside Dlmalloc::realloc is, on every path, the result or freed. "
    "C04.11 syscall_alloc reports exactly the length it mapped and sys_alloc sizes its request from the request alone. "
    "C04.3 also: sys_trim asks the kernel to shrink from the recorded size, still unreduced, to that size minus the release. NOT decided: the bound itself (a quantitative statement about fragmentation over arbitrary histories) and VmSize behaviour.")
ASSUMPTIONS = ["dlmalloc's bin/tree invariants (not established here)"]

D = "tiny_std::allocator::dlmalloc::"
DL = D + "Dlmalloc::"
DISPOSE_CALLS = (D + "syscall_free", DL + "insert_small_chunk", DL + "insert_large_chunk", DL + "insert_chunk", DL + "dispose_chunk", DL + "replace_dv")
DISPOSE_FIELDS = ("top", "topsize", "dv", "dvsize")


def run(ck, progs, tier):
    for cfgname, prog in progs.items():
        ck.set_config(prog)
        run_one(ck, prog)


def field_write_blocks(ctx, fields):
    out = set()
    for b in ctx.fn["blocks"]:
        if b.get("cleanup") or b["id"] not in ctx.cfg.live_blocks():
            continue
        for s in b["stmts"]:
            if s["k"] == "assign" and s["dst"].get("p") and s["dst"]["l"] == 1:
                pr = s["dst"]["p"]
                if pr[0]["k"] == "deref" and len(pr) >= 2 and pr[1]["k"] == "field" and pr[1].get("n") in fields and (pr[1].get("adt") or "").endswith("Dlmalloc"):
                    out.add(b["id"])
    return out


def run_one(ck, prog):
    # ---- C04.1 every freed chunk is disposed of -------------------------------------------------------------------------
    for nm in ("free", "dispose_chunk"):
        fn = prog.fns.get(DL + nm)
        if not ck.anchor("C04.1", nm, fn):
            continue
        ctx = prog.ctx(fn)
        cfg = ctx.cfg
        events = {bb for bb, t in cfg.calls(lambda t: t.get("callee") in DISPOSE_CALLS)} | field_write_blocks(ctx, DISPOSE_FIELDS)
        ck.floor("C04.1", f"{nm} disposal events", len(events), 5)
        r = cfg.reachable_from(0, avoid=events)
        bad = [rb for rb in cfg.return_blocks() if rb in r]
        path = cfg.find_path(0, lambda b: b in bad, avoid=events) if bad else None
        ck.ob("C04.1", f"{nm}|every-path-disposes-of-the-chunk", not bad, fn=fn["path"],
              detail="a path of the free routine returns without unmapping the chunk, merging it into top/dv or putting it into a bin: that chunk is lost for good (one leak per such call)",
              path=cfg.render_path(path) if path else None)

    # ---- C04.6 nothing is dropped on the way to the free routine ------------------------------------------------------------------
    # (a) every GlobalAlloc::dealloc reaches Dlmalloc::free on every path (a free that is skipped leaks the block for good)
    deallocs = [f for p2, f in prog.fns.items() if p2.endswith("GlobalAlloc>::dealloc") and "allocator" in p2]
    ck.floor("C04.6", "GlobalAlloc::dealloc implementations", len(deallocs), 1)
    for f in deallocs:
        c6 = prog.ctx(f)
        frees = {bb for bb, t in c6.cfg.calls(lambda t: t.get("callee") == DL + "free")}
        r6 = c6.cfg.reachable_from(0, avoid=frees)
        skipped = [rb for rb in c6.cfg.return_blocks() if rb in r6]
        path = c6.cfg.find_path(0, lambda b: b in skipped, avoid=frees) if skipped else None
        who = f["path"].split(" as ")[0].lstrip("<").split("::")[-1]
        ck.ob("C04.6", f"dealloc-always-frees|{who}", bool(frees) and not skipped, fn=f["path"], path=c6.cfg.render_path(path) if path else None,
              detail="GlobalAlloc::dealloc can return without calling Dlmalloc::free (e.g. after giving up on the lock): every such call leaks its block, so the heap grows with the number of calls")
        for fb in frees:
            a = c6.args(fb)
            ck.ob("C04.6", f"dealloc-frees-its-argument|{who}", len(a) >= 2 and canon(a[1]) == "p2", fn=f["path"], site=c6.site(fb), detail=f"free must be given the pointer being deallocated, got {show(a[1]) if len(a) > 1 else None}")
    # (b) a remainder split off a chunk (marked in use so that dispose_chunk can take it) is disposed of on every path
    trc = prog.fns.get(DL + "try_realloc_chunk")
    if ck.anchor("C04.6", "try_realloc_chunk", trc):
        c7 = prog.ctx(trc)
        n_rem = 0
        for bb, t in c7.cfg.calls(lambda t: (t.get("callee") or "").endswith("Chunk::set_inuse")):
            a = c7.args(bb)
            if canon(a[0]) == "p2":
                continue          # the chunk being resized itself
            n_rem += 1
            disp = {db for db, t2 in c7.cfg.calls(lambda t2: t2.get("callee") == DL + "dispose_chunk") if canon(c7.args(db)[1]) == canon(a[0])}
            nxt = c7.cfg.term(bb).get("t")
            r7 = c7.cfg.reachable_from(nxt, avoid=disp) if nxt is not None else set()
            lost = [rb for rb in c7.cfg.return_blocks() if rb in r7]
            path = c7.cfg.find_path(nxt, lambda b: b in lost, avoid=disp) if lost else None
            ck.ob("C04.6", f"split-remainder-always-disposed|{canon(a[0])}", bool(disp) and not lost, fn=trc["path"], site=c7.site(bb), path=c7.cfg.render_path(path) if path else None,
                  detail="the tail split off by a shrinking/extending realloc is marked in use but not handed to dispose_chunk on every path: it becomes an in-use chunk nobody owns (never freed, and it blocks coalescing of its neighbours)")
        ck.floor("C04.6", "remainders split in try_realloc_chunk", n_rem, 2)

    # ---- C04.7 freed space is actually reused / returned: two comparisons everything hinges on -------------------------------------------
    # (a) tmalloc_large passes over a fitting tree chunk (returns null so that malloc uses dv) only when dv can hold the request
    tl = prog.fns.get(DL + "tmalloc_large")
    if ck.anchor("C04.7", "tmalloc_large", tl):
        c8 = prog.ctx(tl)
        cfg8 = c8.cfg
        nulls = [bb for bb, t in cfg8.calls(lambda t: (t.get("callee") or "").endswith("core::ptr::null_mut") and t["dst"]["l"] == 0)]
        vtests = [bb for bb, t in cfg8.calls(lambda t: (t.get("callee") or "").endswith("::is_null")) if isinstance(strip_casts(c8.args(bb)[0]), tuple) and strip_casts(c8.args(bb)[0])[0] == "var" and not cfg8.in_cycle(bb)]   # the final `v.is_null() || ..` (the loops test their cursor t)
        dv_edges = set()
        for sb in cfg8.live_blocks():
            if cfg8.term(sb)["k"] != "switch":
                continue
            for e in cfg8.succ[sb]:
                for f in c8.edge_facts(e):
                    if f[0] == "cmp" and ((f[1] == "Ge" and mentions(f[2], c8.prov, lambda z: z[0] == "field" and z[2] == "dvsize") and canon(f[3]) == "p2") or
                                          (f[1] == "Le" and mentions(f[3], c8.prov, lambda z: z[0] == "field" and z[2] == "dvsize") and canon(f[2]) == "p2")):
                        dv_edges.add((e.src, e.dst))
        ck.ob("C04.7", "tmalloc_large|anchor", bool(nulls) and bool(vtests), fn=tl["path"], detail=f"null returns {len(nulls)}, `v.is_null()` tests {len(vtests)}")
        bad = []
        # the test that matters is the innermost one dominating the null return (`if v.is_null() || ..` right before it)
        for nb0 in nulls:
            doms = [vt for vt in vtests if cfg8.dominates(vt, nb0)]
            inner = [vt for vt in doms if all(cfg8.dominates(o, vt) for o in doms)]
            vtests = [vt for vt in vtests if vt in inner or not cfg8.dominates(vt, nb0)]
        for vt in vtests:
            nxt = cfg8.term(vt).get("t")
            for e in cfg8.succ.get(nxt, []) if nxt is not None else []:
                fs = c8.edge_facts(e)
                if any(f[0] == "truth" and f[2] is False and isinstance(f[1], tuple) and f[1][0] == "call" and f[1][3] == vt for f in fs):
                    r8 = cfg8.reachable_from(e.dst, avoid={vt}, avoid_edges=dv_edges)
                    bad += [nb for nb in nulls if nb in r8 and cfg8.dominates(vt, nb)]
        ck.ob("C04.7", "tmalloc_large|fitting-chunk-passed-over-only-if-dv-holds-the-request", bool(dv_edges) and not bad, fn=tl["path"], site=c8.site(bad[0]) if bad else None,
              detail="with a fitting tree chunk in hand tmalloc_large can return null without `dvsize >= size` having held: malloc then finds dv too small, carves from top or asks the OS, and the freed chunks in the tree bins are never reused (the heap grows with every large request)")
    # (b) release_unused_segments may unmap a segment whose first chunk reaches EXACTLY the segment's top (>=, not >)
    ru = prog.fns.get(DL + "release_unused_segments")
    if ck.anchor("C04.7", "release_unused_segments", ru):
        c9 = prog.ctx(ru)
        frees = [bb for bb, t in c9.cfg.calls(lambda t: (t.get("callee") or "").endswith("dlmalloc::syscall_free"))]
        ck.ob("C04.7", "release_unused_segments|anchor", len(frees) == 1, fn=ru["path"], detail=f"syscall_free sites: {len(frees)}")
        for fb in frees:
            ok = False
            seen = []
            for f in panics.dominating_facts(c9, fb):
                if f[0] != "cmp" or f[1] not in ("Ge", "Gt", "Le", "Lt", "Eq"):
                    continue
                names = {y[2] for x in (f[2], f[3]) for y in walk_deep(x, c9.prov, limit=200) if y[0] == "call" and False}
                a_top = mentions(f[2], c9.prov, lambda z: z[0] == "call" and (z[1] or "").endswith("Chunk::size")) and mentions(f[3], c9.prov, lambda z: z[0] == "call" and (z[1] or "").endswith("top_foot_size"))
                b_top = mentions(f[3], c9.prov, lambda z: z[0] == "call" and (z[1] or "").endswith("Chunk::size")) and mentions(f[2], c9.prov, lambda z: z[0] == "call" and (z[1] or "").endswith("top_foot_size"))
                if a_top or b_top:
                    seen.append(f[1])
                    if (a_top and f[1] == "Ge") or (b_top and f[1] == "Le"):
                        ok = True
            ck.ob("C04.7", "release_unused_segments|whole-segment-test-is->=", ok, fn=ru["path"], site=c9.site(fb),
                  detail=f"a segment is unmapped when its first (free) chunk reaches the segment's top: chunk_top >= top. Found comparison(s) {seen}: with `>` a completely free segment (chunk_top == top, always the case) is never returned to the OS")

    fr = prog.fns.get(DL + "free")
    if fr is None:
        return
    ctx = prog.ctx(fr)
    cfg = ctx.cfg
    # ---- C04.10 top reaches to the end of its segment less the foot: a fresh mapping gives top = mapping - foot; when the segment that holds
    # top grows or shrinks in place, top changes by exactly that amount (the foot was already set aside - subtracting it again strands
    # that many bytes at every growth, and they are never handed out or given back)
    n_top = 0
    foot_v = None
    tf = prog.fns.get(DL + "top_foot_size")
    for p10, f10 in prog.fns.items():
        if not p10.startswith(DL):
            continue
        c10 = prog.ctx(f10)
        for bb, t in c10.cfg.calls(lambda t: (t.get("callee") or "") == DL + "init_top"):
            a = c10.args(bb)
            if len(a) < 3:
                continue
            n_top += 1
            atoms = {}

            def lin(e, sign):
                e = strip_casts(e)
                v = fold(e)
                if v is not None:
                    atoms["#"] = atoms.get("#", 0) + sign * v
                    return
                if isinstance(e, tuple) and e and e[0] == "field" and isinstance(e[1], tuple) and e[1][0] == "bin" and str(e[1][1]).endswith("WithOverflow"):
                    e = e[1]
                if isinstance(e, tuple) and e and e[0] == "bin" and e[1] in ("Add", "Sub", "AddWithOverflow", "SubWithOverflow"):
                    lin(e[2], sign)
                    lin(e[3], sign if e[1].startswith("Add") else -sign)
                    return
                if isinstance(e, tuple) and e and e[0] == "call" and (e[1] or "").endswith("top_foot_size"):
                    k = "foot"
                elif isinstance(e, tuple) and e and e[0] in ("field", "deref") and mentions(e, c10.prov, lambda z: z[0] == "field" and z[2] == "topsize") and not mentions(e, c10.prov, lambda z: z[0] == "call"):
                    k = "topsize"
                else:
                    k = canon(e)
                atoms[k] = atoms.get(k, 0) + sign
            lin(a[2], 1)
            atoms = {k: v for k, v in atoms.items() if v != 0}
            in_place = mentions(a[1], c10.prov, lambda z: z[0] == "field" and z[2] == "top") and not mentions(a[1], c10.prov, lambda z: z[0] == "call")
            others = {k: v for k, v in atoms.items() if k not in ("topsize", "foot", "#")}
            if in_place:
                ok = atoms.get("topsize") == 1 and "foot" not in atoms and "#" not in atoms and len(others) == 1 and set(others.values()) <= {1, -1}
                want = "topsize +/- the amount the segment changed by"
            else:
                ok = atoms.get("foot") == -1 and "topsize" not in atoms and "#" not in atoms and len(others) == 1 and set(others.values()) == {1}
                want = "the size of the new mapping - top_foot_size()"
            ck.ob("C04.10", f"{p10.split('::')[-1]}|top-spans-its-segment|{'in-place' if in_place else 'new-mapping'}", ok, fn=p10, site=c10.site(bb),
                  detail=f"init_top is given {show(a[2])[:120]}; must be {want}")
    ck.floor("C04.10", "init_top call sites", n_top, 4)

    # ---- C04.8 the catch-all tree bin keeps every size bit ---------------------------------------------------------------------------------
    # compute_tree_index sends every size above a bound to one last bin; the sizes in it differ in bits up to the top one, so the
    # per-bin left shift the tree walks (tmalloc_large, insert_large_chunk) use must be 0 for it - any other shift discards
    # the distinguishing bits, the tree loses its order and fitting free chunks are no longer found (growth instead of reuse).
    from ..engine import dtable
    cti, lsh = prog.fns.get(DL + "compute_tree_index"), prog.fns.get(D + "leftshift_for_tree_index")
    if ck.anchor("C04.8", "compute_tree_index", cti) and ck.anchor("C04.8", "leftshift_for_tree_index", lsh):
        cc, cl = prog.ctx(cti), prog.ctx(lsh)
        last = set()
        for edges in dtable.enumerate_paths(cc):
            fs = [f for e in edges if e.kind == "sw" for f in cc.edge_facts(e)]
            v = fold(dtable.path_return_value(cc, edges))
            if v is not None and any(f[0] == "cmp" and f[1] in ("Gt", "Ge") and fold(f[3]) is not None for f in fs):
                last.add(v)
        ck.ob("C04.8", "catch-all-bin|anchor", len(last) == 1, fn=cti["path"], detail=f"constant bin indices returned under an unbounded `size > K` test: {sorted(last)}")
        if len(last) == 1:
            B = next(iter(last))
            bad, seen_zero = [], 0
            for edges in dtable.enumerate_paths(cl):
                fs = [f for e in edges if e.kind == "sw" for f in cl.edge_facts(e)]
                excluded = any(f[0] == "cmp" and f[1] == "Ne" and fold(f[3]) == B for f in fs) or any(f[0] == "cmp" and f[1] == "Eq" and fold(f[3]) not in (None, B) for f in fs)
                if excluded:
                    continue
                v = fold(dtable.path_return_value(cl, edges))
                if v == 0:
                    seen_zero += 1
                else:
                    bad.append(edges)
            ck.ob("C04.8", "catch-all-bin-shifts-by-zero", seen_zero >= 1 and not bad, fn=lsh["path"], path=cl.cfg.render_path([0] + [e.dst for e in bad[0]]) if bad else None,
                  detail=f"for the catch-all tree bin ({B}) the tree-walk shift must be 0: that bin holds every size above the bound, a non-zero shift drops the bits that order its tree and free chunks in it stop being found")

    # ---- C04.9 what goes into a bin is marked free first, and whole segments are looked for on every trim ------------------------------
    # (a) a chunk handed to insert_chunk / insert_small_chunk / insert_large_chunk has, on every path, been stamped by
    #     set_free_with_pinuse / set_size_and_pinuse_of_free_chunk (size | PINUSE, foot, successor's PINUSE cleared): a chunk binned
    #     without PINUSE reads as "in use" to release_unused_segments and pins its segment for ever
    MARKS = ("Chunk::set_free_with_pinuse", "Chunk::set_size_and_pinuse_of_free_chunk")
    INSERTS = ("Dlmalloc::insert_chunk", "Dlmalloc::insert_small_chunk", "Dlmalloc::insert_large_chunk")
    ALREADY_FREE = {("insert_chunk", "insert_small_chunk"): "dispatch inside insert_chunk", ("insert_chunk", "insert_large_chunk"): "dispatch inside insert_chunk",
                    ("replace_dv", "insert_small_chunk"): "the old designated victim is a free chunk already",
                    ("release_unused_segments", "insert_large_chunk"): "a free chunk taken out of its bin and put back when the unmap failed"}

    def chunk_key(e):
        e = strip_casts(e)
        while isinstance(e, tuple) and e[0] == "call" and (e[1] or "").endswith(("::cast", "::cast_mut", "::cast_const")) and e[2]:
            e = strip_casts(e[2][0])
        return canon(e)
    n_ins = 0
    for p9, f9 in sorted(prog.fns.items()):
        if not p9.startswith(DL):
            continue
        c9 = None
        for b in f9["blocks"]:
            t = b["term"]
            if t["k"] != "call" or b.get("cleanup") or not (t.get("callee") or "").endswith(INSERTS):
                continue
            key = (p9.split("::")[-1], t["callee"].split("::")[-1])
            if key in ALREADY_FREE:
                continue
            c9 = c9 or prog.ctx(f9)
            if b["id"] not in c9.cfg.live_blocks():
                continue
            n_ins += 1
            who = chunk_key(c9.args(b["id"])[1])
            marks = {bb for bb, t2 in c9.cfg.calls(lambda t2: (t2.get("callee") or "").endswith(MARKS)) if chunk_key(c9.args(bb)[0]) == who}
            unmarked = b["id"] in c9.cfg.reachable_from(0, avoid=marks)
            ck.ob("C04.9", f"{key[0]}|binned-chunk-marked-free-first|{key[1]}({who})", bool(marks) and not unmarked, fn=p9, site=c9.site(b["id"]),
                  detail=f"{key[1]}({who}, ..) can be reached without the chunk having been stamped free (size | PINUSE, foot) by {' / '.join(m.split('::')[-1] for m in MARKS)}")
    ck.floor("C04.9", "chunks put into bins", n_ins, 4)
    # (b) sys_trim looks for releasable segments whatever the top gave back: the call is not conditional on the amount released so far
    stf = prog.fns.get(DL + "sys_trim")
    if ck.anchor("C04.9", "sys_trim", stf):
        sc9 = prog.ctx(stf)
        rel9 = [bb for bb, t in sc9.cfg.calls(lambda t: (t.get("callee") or "").endswith("Dlmalloc::release_unused_segments"))]
        relv = {z[1] for r in sc9.ret_expr().values() for z in walk_deep(r, sc9.prov) if z[0] == "var"}
        for rb9 in rel9:
            cond = [f for f in panics.dominating_facts(sc9, rb9) if f[0] == "cmp" and any(z[0] == "var" and z[1] in relv for x in (f[2], f[3]) for z in walk_deep(x, sc9.prov, limit=40))]
            ck.ob("C04.9", "sys_trim|segments-swept-whatever-the-top-released", not cond, fn=stf["path"], site=sc9.site(rb9),
                  detail="release_unused_segments is only called under a test of the amount already released: once the top gives something back, fully free older segments are never unmapped")

    # ---- C04.2 coalescing --------------------------------------------------------------------------------------------------
    top_edges = []
    for sb in cfg.live_blocks():
        if cfg.term(sb)["k"] != "switch":
            continue
        for e in cfg.succ[sb]:
            for f in ctx.edge_facts(e):
                if f[0] == "cmp" and f[1] == "Eq" and any(mentions(x, ctx.prov, lambda z: z[0] == "field" and z[2] == "top") for x in (f[2], f[3])) and any(mentions(x, ctx.prov, lambda z: z[0] == "call" and (z[1] or "").endswith("Chunk::plus_offset")) for x in (f[2], f[3])):
                    top_edges.append(e)
    ck.ob("C04.2", "merge-with-top-branch", len(top_edges) >= 1, fn=fr["path"], detail="free has no `next == self.top` branch: memory freed next to the top chunk could never be trimmed")
    topw = field_write_blocks(ctx, ("top",))
    for e in top_edges[:1]:
        ck.ob("C04.2", "top-branch-moves-top", any(cfg.edge_dominates(e, b) for b in topw), fn=fr["path"], detail="the `next == top` branch must make the freed chunk the new top")
    unl = [bb for bb, t in cfg.calls(lambda t: (t.get("callee") or "").endswith("Dlmalloc::unlink_chunk"))]
    ins = [bb for bb, t in cfg.calls(lambda t: (t.get("callee") or "").endswith(("Dlmalloc::insert_small_chunk", "Dlmalloc::insert_large_chunk")))]
    ck.ob("C04.2", "neighbours-unlinked-before-reinsert", len(unl) >= 2 and len(ins) == 2 and all(any(i in cfg.reachable_from(u) for i in ins) for u in unl), fn=fr["path"],
          detail=f"free neighbours must be unlinked (found {len(unl)} unlink sites) and the merged chunk inserted once per size class ({len(ins)} insert sites)")

    # ---- C04.3 trimming reachable and accounted -----------------------------------------------------------------------------------
    cg = prog.callgraph()
    trims = [bb for bb, t in cfg.calls(lambda t: (t.get("callee") or "").endswith("Dlmalloc::sys_trim"))]
    ck.ob("C04.3", "free-calls-sys_trim", len(trims) == 1, fn=fr["path"], detail=f"sys_trim call sites in free: {len(trims)}")
    for tb in trims:
        facts = panics.dominating_facts(ctx, tb)
        is_tc = lambda z: z[0] == "field" and z[2] == "trim_check"
        guard = any(f[0] == "truth" and f[2] is True and isinstance(f[1], tuple) and f[1][0] == "call" and (f[1][1] or "").endswith("should_trim") for f in facts) or \
            any(f[0] == "cmp" and ((f[1] == "Gt" and mentions(f[3], ctx.prov, is_tc) and not mentions(f[2], ctx.prov, is_tc)) or (f[1] == "Lt" and mentions(f[2], ctx.prov, is_tc) and not mentions(f[3], ctx.prov, is_tc))) for f in facts)   # the helper written out
        ok = guard and any(cfg.edge_dominates(e, tb) for e in top_edges)
        ck.ob("C04.3", "trim-on-top-merge-under-should_trim", ok, fn=fr["path"], site=ctx.site(tb), detail="sys_trim must be called on the top-merge edge when should_trim(topsize) holds")
    st = prog.fns.get(DL + "should_trim")
    if st is not None:
        c2 = prog.ctx(st)
        r = list(c2.ret_expr().values())
        ok = len(r) == 1 and isinstance(strip_casts(r[0]), tuple) and strip_casts(r[0])[0] == "bin" and strip_casts(r[0])[1] == "Gt" and mentions(strip_casts(r[0])[3], c2.prov, lambda z: z[0] == "field" and z[2] == "trim_check")
        ck.ob("C04.3", "should_trim=size>trim_check", ok, fn=st["path"], detail=f"should_trim must be `size > self.trim_check`, found {show(r[0]) if r else None}")
    for a, b in ((DL + "sys_trim", D + "syscall_free_part"), (DL + "sys_trim", DL + "release_unused_segments"), (DL + "release_unused_segments", D + "syscall_free")):
        ck.ob("C04.3", f"calls|{a.split('::')[-1]}->{b.split('::')[-1]}", b in cg.callees.get(a, ()), fn=a, detail=f"{a.split('::')[-1]} must reach {b.split('::')[-1]}")
    # sys_trim asks the kernel to shrink the mapping from the size it HAS to a smaller one: syscall_free_part(base, old, old - extra) with
    # `old` the segment's recorded size as it still stands (a record reduced beforehand makes it mremap(n, n): nothing is unmapped, yet the
    # allocator books the tail as released - and the same happens on every later trim)
    stf = prog.fns.get(DL + "sys_trim")
    if stf is not None:
        c3 = prog.ctx(stf)
        parts = [bb for bb, t in c3.cfg.calls(lambda t: t.get("callee") == D + "syscall_free_part")]
        for pb in parts:
            a = c3.args(pb)
            ok = False
            if len(a) >= 3:
                oldv, newv = strip_casts(a[1]), strip_casts(a[2])
                if isinstance(newv, tuple) and newv[0] == "bin" and newv[1] in ("Sub", "SubUnchecked") and canon(strip_casts(newv[2])) == canon(oldv):
                    ok = True
                if isinstance(newv, tuple) and newv[0] == "call" and (newv[1] or "").endswith(("::wrapping_sub", "::saturating_sub", "::unchecked_sub")) and newv[2] and canon(strip_casts(newv[2][0])) == canon(oldv):
                    ok = True
                # the helper may take (base, size, tail) and compute the kept size itself: then ITS mremap must go from its size parameter to
                # that parameter minus another, and the call hands the recorded size in that position
                if not ok:
                    hf = prog.fns.get(D + "syscall_free_part")
                    if hf is not None:
                        ch = prog.ctx(hf)
                        from ..engine.cfg import is_raw_syscall as _raw3
                        from .futexflavour import nr_name as _nr
                        for hb, ht in ch.cfg.calls(lambda t: _raw3(t.get("callee"))):
                            ha = ch.args(hb)
                            if ha and _nr(ha[0]) == "MREMAP" and len(ha) >= 4:
                                o_, n_ = strip_casts(ha[2]), strip_casts(ha[3])
                                if isinstance(o_, tuple) and o_[0] == "param" and isinstance(n_, tuple) and n_[0] == "bin" and n_[1] in ("Sub", "SubUnchecked") and canon(strip_casts(n_[2])) == canon(o_) and \
                                        0 < o_[1] <= len(a) and canon(strip_casts(a[o_[1] - 1])) == canon(oldv):
                                    ok = True
                # and the record is not reduced before the kernel was asked
                early = []
                for b in stf["blocks"]:
                    if b.get("cleanup") or b["id"] not in c3.cfg.live_blocks() or not (pb in c3.cfg.reachable_from(b["id"]) and b["id"] != pb):
                        continue
                    for st_ in b["stmts"]:
                        if st_["k"] == "assign" and st_["dst"].get("p") and st_["dst"]["p"][-1].get("k") == "field" and st_["dst"]["p"][-1].get("n") == "size" and (st_["dst"]["p"][-1].get("adt") or "").endswith("Segment"):
                            early.append(b["id"])
                ok = ok and not early
            ck.ob("C04.3", "trim-asks-the-kernel-for-old-size-minus-the-release", ok, fn=stf["path"], site=c3.site(pb),
                  detail=f"syscall_free_part is called with sizes ({show(a[1])[:60]}, {show(a[2])[:60]}); the new size must be the old recorded size minus what is released, the record still unreduced")
        ck.floor("C04.3", "partial releases in sys_trim", len(parts), 1)
    rel = [bb for bb, t in cfg.calls(lambda t: (t.get("callee") or "").endswith("Dlmalloc::release_unused_segments"))]
    ck.ob("C04.3", "free-counts-down-release_checks", len(rel) == 1, fn=fr["path"], detail=f"release_unused_segments call sites in free: {len(rel)}")
    for rb in rel:
        facts = panics.dominating_facts(ctx, rb)
        ok = any(f[0] == "cmp" and f[1] == "Eq" and 0 in (fold(f[2]), fold(f[3])) and any(mentions(x, ctx.prov, lambda z: z[0] == "field" and z[2] == "release_checks") for x in (f[2], f[3])) for f in facts)
        dec = False
        for b in fr["blocks"]:
            for i, s in enumerate(b["stmts"]):
                if s["k"] == "assign" and s["dst"].get("p") and any(pe["k"] == "field" and pe.get("n") == "release_checks" for pe in s["dst"]["p"]):
                    e = ctx.prov.rvalue(s["rv"], (b["id"], i))
                    if isinstance(e, tuple) and e[0] == "bin" and e[1] == "Sub" and fold(e[3]) == 1 and cfg.dominates(b["id"], rb):
                        dec = True
        ck.ob("C04.3", "segments-released-when-counter-hits-zero", ok and dec, fn=fr["path"], site=ctx.site(rb), detail="the large-chunk path must decrement release_checks and release unused segments when it reaches 0")
    # footprint accounting
    for nm, mapper, sign in (("free", "syscall_free", "Sub"), ("release_unused_segments", "syscall_free", "Sub"), ("sys_trim", "syscall_free_part", "Sub"), ("sys_alloc", "syscall_alloc", "Add")):
        fn = prog.fns.get(DL + nm)
        if fn is None:
            continue
        c3 = prog.ctx(fn)
        sites = [bb for bb, t in c3.cfg.calls(lambda t: (t.get("callee") or "").endswith("dlmalloc::" + mapper))]
        fp = []
        for b in fn["blocks"]:
            if b["id"] not in c3.cfg.live_blocks():
                continue
            for i, s in enumerate(b["stmts"]):
                if s["k"] == "assign" and s["dst"].get("p") and any(pe["k"] == "field" and pe.get("n") == "footprint" for pe in s["dst"]["p"]) and s["dst"]["p"][-1].get("n") == "footprint":
                    e = c3.prov.rvalue(s["rv"], (b["id"], i))
                    if isinstance(e, tuple) and e[0] == "bin" and e[1] == sign:
                        fp.append(b["id"])
        for sb in sites:
            ok = any(f in c3.cfg.reachable_from(sb) and f != sb for f in fp)
            ck.ob("C04.3", f"footprint-accounted|{nm}|{mapper}", ok, fn=fn["path"], site=c3.site(sb),
                  detail=f"a successful {mapper} must be followed by footprint {'-=' if sign == 'Sub' else '+='} size: the trim trigger works on these numbers")

    # ---- C04.4 reuse before growth ---------------------------------------------------------------------------------------------------
    im = prog.fns.get(DL + "inner_malloc")
    if ck.anchor("C04.4", "inner_malloc", im):
        c4 = prog.ctx(im)
        sa = [bb for bb, t in c4.cfg.calls(lambda t: t.get("callee") == DL + "sys_alloc")]
        ck.ob("C04.4", "one-sys_alloc-call", len(sa) == 1, fn=im["path"], detail=f"sys_alloc call sites in inner_malloc: {len(sa)}")
        callers = cg.callers.get(DL + "sys_alloc", set())
        ck.ob("C04.4", "sys_alloc-only-from-inner_malloc", callers == {DL + "inner_malloc"}, detail=f"callers of sys_alloc: {sorted(callers)}")
        for sb in sa:
            facts = panics.dominating_facts(c4, sb)
            dv = any(f[0] == "cmp" and f[1] in ("Gt", "Lt", "Ge", "Le") and any(mentions(x, c4.prov, lambda z: z[0] == "field" and z[2] == "dvsize") for x in (f[2], f[3])) for f in facts)
            tp = any(f[0] == "cmp" and f[1] in ("Gt", "Lt", "Ge", "Le") and any(mentions(x, c4.prov, lambda z: z[0] == "field" and z[2] == "topsize") for x in (f[2], f[3])) for f in facts)
            ck.ob("C04.4", "os-asked-last", dv and tp, fn=im["path"], site=c4.site(sb), detail="the OS must only be asked after the designated victim and the top chunk were found too small (else every request grows the heap)")
            # bins tried before
            bins = [bb for bb, t in c4.cfg.calls(lambda t: (t.get("callee") or "").endswith(("tmalloc_small", "tmalloc_large")))]
            ck.ob("C04.4", "bins-tried-before-growth", len(bins) >= 2 and all(sb in c4.cfg.reachable_from(b) for b in bins) and not any(b in c4.cfg.reachable_from(sb) for b in bins), fn=im["path"], detail=f"tree-bin attempts that precede sys_alloc: {len(bins)}")

        # a source of free space is tried WHENEVER it is non-empty: the tree attempts of inner_malloc depend on the allocator's state only
        # through the tests that make them necessary (no fitting small bin: (smallmap >> idx) [& 3] == 0; the designated victim too small)
        # and possible (treemap != 0). Any further condition on the state - "only when the small bins are empty" - hides free tree chunks
        # behind an unrelated bin and sends the request on to top and the OS
        def state_guard_kind(f):
            if f[0] != "cmp":
                return "other" if any(isinstance(x, tuple) and mentions(x, c4.prov, lambda z: z[0] == "field" and z[2] in STATE_FIELDS) for x in f[1:]) else None
            both = (f[2], f[3])
            flds = {z[2] for x in both for z in walk_deep(x, c4.prov) if z[0] == "field" and z[2] in STATE_FIELDS}
            if not flds:
                return None
            zero = 0 in (fold(f[2]), fold(f[3]))
            if flds == {"smallmap"}:
                return "no-fitting-small-bin" if f[1] == "Eq" and zero and any(mentions(x, c4.prov, lambda z: z[0] == "bin" and z[1] in ("Shr", "ShrUnchecked")) for x in both) else "other"
            if flds == {"dvsize"}:
                return "dv-too-small" if f[1] in ("Gt", "Lt") else "other"
            if flds == {"treemap"}:
                return "tree-non-empty" if f[1] == "Ne" and zero else "other"
            return "other"
        STATE_FIELDS = ("smallmap", "treemap", "dvsize", "dv", "topsize", "top", "footprint", "release_checks")
        for bb, t in c4.cfg.calls(lambda t: (t.get("callee") or "").endswith(("Dlmalloc::tmalloc_small", "Dlmalloc::tmalloc_large"))):
            kinds = [(state_guard_kind(f), f) for f in panics.dominating_facts(c4, bb)]
            extra = [f for k, f in kinds if k == "other"]
            which = t["callee"].split("::")[-1]
            ck.ob("C04.4", f"{which}|tried-whenever-the-tree-is-non-empty", any(k == "tree-non-empty" for k, _ in kinds) and not extra, fn=im["path"], site=c4.site(bb),
                  detail=f"the tree attempt depends on further allocator state: {[(f[1], show(f[2])[:50], show(f[3])[:50]) if f[0] == 'cmp' else (f[0], show(f[1])[:60]) for f in extra]}")
    tl = prog.fns.get(DL + "tmalloc_large")
    if ck.anchor("C04.4", "tmalloc_large", tl):
        c4l = prog.ctx(tl)
        # the larger tree bins are searched whenever no fitting chunk was found in the request's own bin (not: whenever that bin is empty)
        nxt = [bb for bb, t in c4l.cfg.calls(lambda t: (t.get("callee") or "").endswith("::left_bits"))]
        ck.ob("C04.4", "tmalloc_large|anchor|next-bin-search", len(nxt) == 1, fn=tl["path"], detail=f"left_bits sites: {len(nxt)}")
        for bb in nxt:
            fs = panics.dominating_facts(c4l, bb)
            nulls = [f for f in fs if f[0] == "truth" and isinstance(f[1], tuple) and f[1][0] == "call" and (f[1][1] or "").endswith("::is_null")]
            on_vars = [f for f in nulls if isinstance(strip_casts(f[1][2][0]), tuple) and strip_casts(f[1][2][0])[0] == "var"]
            others = [f for f in fs if f not in on_vars]
            ck.ob("C04.4", "tmalloc_large|larger-bins-searched-whenever-nothing-fitting-was-found", bool(on_vars) and all(f[2] is True for f in on_vars) and not others, fn=tl["path"], site=c4l.site(bb),
                  detail=f"the search of the larger tree bins must depend only on the walk's result (t and v null), found further conditions: {[show(f[1])[:70] if f[0] == 'truth' else (f[1], show(f[2])[:40], show(f[3])[:40]) for f in others]}")

    # ---- C04.6 (realloc) a block obtained on the way through realloc is handed to the caller or given back: on every path after the
    # non-null edge of an allocating call in Dlmalloc::realloc, the pointer is the function's result or an argument of free
    # (an intermediate block that is neither leaks once per over-aligned reallocation that had to move)
    rl = prog.fns.get(DL + "realloc")
    if ck.anchor("C04.6", "Dlmalloc::realloc", rl):
        cr = prog.ctx(rl)
        ALLOCS = (DL + "inner_realloc", DL + "malloc", DL + "inner_malloc", DL + "memalign", DL + "calloc")
        n_r = 0
        for bb, t in cr.cfg.calls(lambda t: t.get("callee") in ALLOCS):
            n_r += 1
            dl_ = t["dst"]["l"]
            is_it = lambda z: z[0] == "call" and z[3] == bb  # noqa: E731
            frees = {b2 for b2, t2 in cr.cfg.calls(lambda t2: t2.get("callee") == DL + "free") if mentions(cr.args(b2)[1], cr.prov, is_it)}
            from ..engine.dtable import enumerate_paths, path_return_value
            lost = []
            nn_pairs = {(ed.src, ed.dst) for sb in cr.cfg.live_blocks() if cr.cfg.term(sb)["k"] == "switch" for ed in cr.cfg.succ[sb] for f in cr.edge_facts(ed)
                        if f[0] == "truth" and f[2] is False and isinstance(f[1], tuple) and f[1][0] == "call" and (f[1][1] or "").endswith("::is_null") and mentions(f[1], cr.prov, is_it)}
            null_pairs = {(ed.src, ed.dst) for sb in cr.cfg.live_blocks() if cr.cfg.term(sb)["k"] == "switch" for ed in cr.cfg.succ[sb] for f in cr.edge_facts(ed)
                          if f[0] == "truth" and f[2] is True and isinstance(f[1], tuple) and f[1][0] == "call" and (f[1][1] or "").endswith("::is_null") and mentions(f[1], cr.prov, is_it)}
            for edges in enumerate_paths(cr, max_paths=400):
                blocks = [0] + [ed.dst for ed in edges]
                if bb not in blocks or any((ed.src, ed.dst) in null_pairs for ed in edges) or any(b2 in frees for b2 in blocks):
                    continue
                v = path_return_value(cr, edges)
                # the value returned on this path, resolved to the definition made on the path
                def on_path(x, depth=0):
                    x = strip_casts(x)
                    if isinstance(x, tuple) and x and x[0] == "call" and x[3] == bb:
                        return True
                    if isinstance(x, tuple) and x and x[0] == "var" and depth < 4:
                        from ..engine.dtable import path_local_value
                        pv = path_local_value(cr, edges, x[1])
                        return pv is not None and on_path(pv, depth + 1)
                    return False
                if not on_path(v):
                    lost.append(blocks[-1])
            # a result that is only sometimes this block: every definition of the returned variable reachable without a free must be it
            ck.ob("C04.6", f"realloc|block-from-{t['callee'].split('::')[-1]}@{n_r}|returned-or-freed", not lost, fn=rl["path"], site=cr.site(bb),
                  detail="a block obtained inside realloc can reach a return on which it is neither the result nor freed")
        ck.floor("C04.6", "allocating calls in realloc", n_r, 2)

    # ---- C04.11 what is mapped is what is accounted: syscall_alloc reports exactly the length it handed to mmap (a tail that was mapped but
    # not reported is never handed out, trimmed or unmapped), and sys_alloc asks for an amount that depends on the request alone (growth
    # sized by the allocator's own high-water mark feeds back on itself)
    sy = prog.fns.get(D + "syscall_alloc")
    if ck.anchor("C04.11", "syscall_alloc", sy):
        cy = prog.ctx(sy)
        from ..engine.cfg import is_raw_syscall as _raw
        mm = [bb for bb, t in cy.cfg.calls(lambda t: _raw(t.get("callee")))]
        ok11 = False
        why11 = f"raw syscalls in syscall_alloc: {len(mm)}"
        if len(mm) == 1:
            la = cy.args(mm[0])
            ln = canon(strip_casts(la[2])) if len(la) > 2 else None
            reported = set()
            for rb, e in cy.ret_expr().items():
                for z in walk_deep(e, cy.prov, limit=80):
                    if z[0] == "agg" and z[1] == "tuple" and len(z[3]) == 3:
                        comp = strip_casts(z[3][1])
                        # the length may come out of a pair built per branch (`let (base, mapped) = if failed { (null, 0) } else { (addr, size) }`)
                        if isinstance(comp, tuple) and comp[0] == "field" and isinstance(strip_casts(comp[1]), tuple) and strip_casts(comp[1])[0] == "var":
                            parts = [strip_casts(d) for d in cy.prov.expand(strip_casts(comp[1]))]
                            if parts and all(isinstance(d, tuple) and d[0] == "agg" and d[1] == "tuple" and len(d[3]) > int(comp[2]) for d in parts):
                                for d in parts:
                                    reported.add(canon(strip_casts(d[3][int(comp[2])])))
                                continue
                        reported.add(canon(comp))
            reported.discard("0")
            ok11 = ln is not None and reported == {ln}
            why11 = f"mmap is asked for {ln} bytes, the caller is told {sorted(reported)}"
        ck.ob("C04.11", "syscall_alloc-reports-the-length-it-mapped", ok11, fn=sy["path"], detail=why11)
    sa11 = prog.fns.get(DL + "sys_alloc")
    if sa11 is not None:
        ca = prog.ctx(sa11)
        for bb, t in ca.cfg.calls(lambda t: t.get("callee") == D + "syscall_alloc"):
            a = ca.args(bb)
            state = sorted({str(z[2]) for z in walk_deep(a[0], ca.prov, limit=120) if z[0] == "field" and mentions(z[1], ca.prov, lambda w: w[0] == "param" and w[1] == 1)}) if a else ["?"]
            ck.ob("C04.11", "growth-depends-on-the-request-alone", not state, fn=sa11["path"], site=ca.site(bb),
                  detail=f"the amount requested from the kernel depends on allocator state {state}; it must be computed from the request (plus constants) only")

    # ---- C04.5 segments not forgotten ------------------------------------------------------------------------------------------------------
    ad = prog.fns.get(DL + "add_segment")
    if ck.anchor("C04.5", "add_segment", ad):
        c5 = prog.ctx(ad)
        stores_old = links = False
        for b in ad["blocks"]:
            for i, s in enumerate(b["stmts"]):
                if s["k"] != "assign" or not s["dst"].get("p"):
                    continue
                pr = s["dst"]["p"]
                e = c5.prov.rvalue(s["rv"], (b["id"], i))
                # *ss = self.seg
                if pr[0]["k"] == "deref" and len(pr) == 1 and s["dst"]["l"] != 1 and mentions(e, c5.prov, lambda z: z[0] == "field" and z[2] == "seg"):
                    stores_old = True
                # self.seg.next = ss
                if any(pe["k"] == "field" and pe.get("n") == "seg" for pe in pr) and pr[-1].get("n") == "next":
                    links = True
        ck.ob("C04.5", "previous-segment-record-kept-and-linked", stores_old and links, fn=ad["path"], detail="add_segment must copy the previous segment record into the new segment and link it (self.seg.next), else that segment can never be released")
