"""C02 — RwLock: writer exclusion, reader sharing, visibility, wake/sleep pairing, try_* non-blocking."""
import re
from ..engine.prov import const_value, strip_casts, walk, walk_deep, show
from ..engine.atomics import is_acquire, is_release, target_of
from ..engine.dtable import canon, true_rows
from ..engine.fold import fold
from . import locks
from .c12 import mentions
from .c01 import check_wait_helper
from .futexflavour import check_flavour

CONFIGS_QUICK = ["A", "B"]
CONFIGS_THOROUGH = ["A", "B", "R", "X"]

EXPLANATION = (
    "Decided (static, MIR): safety of tiny-std's RwLock by the invariant 'the MASK field of the state word equals the number of live read guards, or all-ones while a write guard lives', "
    "with every premise checked on all paths: C02.0 bit-layout constants are consistent; C02.1 every atomic RMW on the state word is classified by its effect on the MASK field "
    "(read-acquire +1, write-acquire |MASK, release -1/-MASK, or field-preserving) - anything unclassifiable is a violation; C02.2 each read-acquiring RMW is dominated by is_read_lockable(expected) "
    "and each write-acquiring RMW by is_unlocked(expected) or expected==0, and the six bit predicates have exactly their layout meaning (decision tables); C02.3 releases only from the matching guard's Drop, on every path; "
    "C02.4 read()/write()/..._contended return only through an acquiring success edge, try_* return exactly is_ok(acquiring fetch_update), guards are built only after the matching acquisition, "
    "data only via guards, DerefMut only on the write guard, Send/Sync bounds; C02.5 acquire>=Acquire, release>=Release. Liveness necessary conditions: C02.6 unlock calls the hand-off on the waiting-bit edges, "
    "C02.7 the hand-off pairs every cleared waiting bit with its wake (writer: notify bump >=Release then wake>=1 on the notify word; readers: wake i32::MAX on the state word; fall through to readers when no writer was woken), "
    "C02.8 sleepers set/observe their waiting bit first, writers sample the notify sequence (>=Acquire) before re-checking state and sleep on that sample, waits sit in retry loops, "
    "C02.9 try_read/try_write reach no blocking call; plus futex helper/flavour (shared with C01). "
    "C02.11 potential-panic inventory of the lock's own functions (every arithmetic/assert site auto-discharged or in a reviewed table), and try_read/try_write compute the new lock word lazily under their admission predicate; "
    "C02.10 type-level witnesses: neither guard is Send, a read guard gives no mutable access (no DerefMut), the protected value is private; "
    "NOT decided: lost-wake-up freedom and termination over all interleavings, writer/reader starvation.")
ASSUMPTIONS = ["Linux futex semantics", "Rust memory model (acquire RMW reading from a release sequence synchronises)",
               "Atomic::fetch_update stores exactly the closure's Some(new) with a CAS on the value passed to the closure (std semantics)",
               "bool::then / bool::then_some evaluate/return the payload only when the receiver is true (std semantics)"]

RW = "tiny_std::sync::rwlock::RwLock"
INNER = "tiny_std::sync::rwlock::InnerLock"
RG = "tiny_std::sync::rwlock::RwLockReadGuard"
WG = "tiny_std::sync::rwlock::RwLockWriteGuard"
M = "tiny_std::sync::rwlock::"
PRED = lambda n: M + n  # noqa: E731


def run(ck, progs, tier):
    for cfgname, prog in progs.items():
        ck.set_config(prog)
        run_one(ck, prog)
    # type-level witnesses (compile_fail doctests with compiling twins) against the public API of the tree under analysis
    from ..engine import witness
    witness.check(ck, ck.repo, "C02", "C02.10")


def K(prog, name):
    return prog.const(M + name)


def run_one(ck, prog):
    if not ck.anchor("C02.0", "RwLock type", prog.adts.get(RW)):
        return
    consts = {n: K(prog, n) for n in ("READ_LOCKED", "MASK", "WRITE_LOCKED", "MAX_READERS", "READERS_WAITING", "WRITERS_WAITING")}
    if not ck.ob("C02.0", "anchor|layout constants", all(isinstance(v, int) for v in consts.values()), detail=f"layout constants not all found: {consts}"):
        return
    RL, MASK, WL, MAXR, RWAIT, WWAIT = (consts[n] for n in ("READ_LOCKED", "MASK", "WRITE_LOCKED", "MAX_READERS", "READERS_WAITING", "WRITERS_WAITING"))
    ck.ob("C02.0", "WRITE_LOCKED==MASK", WL == MASK, detail=f"{WL} vs {MASK}")
    ck.ob("C02.0", "MASK is low-bit mask", MASK > 0 and (MASK & (MASK + 1)) == 0, detail=str(MASK))
    ck.ob("C02.0", "MAX_READERS<MASK", 0 < MAXR < MASK, detail=f"{MAXR} vs {MASK}: a reader count equal to MASK would read as write-locked")
    ck.ob("C02.0", "READ_LOCKED==1", RL == 1, detail=str(RL))
    ck.ob("C02.0", "waiting bits outside MASK and disjoint", RWAIT & MASK == 0 and WWAIT & MASK == 0 and RWAIT & WWAIT == 0 and RWAIT and WWAIT and (RWAIT | WWAIT | MASK) < (1 << 32),
          detail=f"RW={RWAIT} WW={WWAIT} MASK={MASK}")

    fields = locks.find_atomic_fields(prog, RW)
    # the two words are told apart by what is done to them, not by their names: the state word is the one that is compare-exchanged,
    # the writers' sequence word (`writer_notify`) is only loaded and bumped
    cands = sorted({(f[0], f[1]) for f in fields})
    ck.ob("C02.0", "words|state+writer_notify", len(cands) == 2, detail=f"atomic fields reachable from RwLock: {fields} (expected two: the state word and the writers' sequence word)")
    if len(cands) != 2:
        return
    all_ops = locks.word_ops(prog, set(cands))
    cas_words = {(op.target[1], op.target[2]) for _, op in all_ops if op.op.startswith("compare_exchange")}
    ck.ob("C02.0", "words|exactly-one-is-compare-exchanged", len(cas_words) == 1, detail=f"words with compare_exchange operations: {sorted(cas_words)}")
    if len(cas_words) != 1:
        return
    STATE = next(iter(cas_words))
    NOTIFY = next(c for c in cands if c != STATE)
    ops = all_ops
    passes = locks.word_passes(prog, {STATE, NOTIFY})
    cg = prog.callgraph()

    # ---- predicates: decision tables (part of C02.2) ----------------------------------
    def norm_atoms(row):
        """one spelling per bit test: the waiting-bit helpers written out, and `x & (A|B) == 0` split into its single-bit tests"""
        out = set()
        for a in row:
            m = re.fullmatch(r"(!?)has_(readers|writers)_waiting\((.*)\)", a)
            if m:
                out.add(f"(({m.group(3)} BitAnd {RWAIT if m.group(2) == 'readers' else WWAIT}) {'Eq' if m.group(1) else 'Ne'} 0)")
                continue
            m = re.fullmatch(r"\(\((.*) BitAnd ([0-9() BitOr]+)\) (Eq|Ne) 0\)", a)
            if m and re.fullmatch(r"[0-9() |]+", m.group(2).replace("BitOr", "|")):
                mask = eval(m.group(2).replace("BitOr", "|"), {"__builtins__": {}})   # digits, parentheses and | only
                bits = [b for b in (RWAIT, WWAIT) if mask & b]
                if mask and mask == sum(bits) and (m.group(3) == "Eq" or len(bits) == 1):
                    for b in bits:
                        out.add(f"(({m.group(1)} BitAnd {b}) {m.group(3)} 0)")
                    continue
            out.add(a)
        return sorted(out)

    def pred_rows(name):
        f = prog.fns.get(PRED(name))
        if not ck.anchor("C02.2", f"predicate {name}", f):
            return None
        return sorted(norm_atoms(r) for r in true_rows(prog.ctx(f)))
    expect = {
        "is_unlocked": [[f"((p1 BitAnd {MASK}) Eq 0)"]],
        "is_write_locked": [[f"((p1 BitAnd {MASK}) Eq {WL})"]],
        "has_readers_waiting": [[f"((p1 BitAnd {RWAIT}) Ne 0)"]],
        "has_writers_waiting": [[f"((p1 BitAnd {WWAIT}) Ne 0)"]],
        "has_reached_max_readers": [[f"((p1 BitAnd {MASK}) Eq {MAXR})"]],
        "is_read_lockable": [sorted([f"((p1 BitAnd {MASK}) Lt {MAXR})", "!has_readers_waiting(p1)", "!has_writers_waiting(p1)"])],
    }
    for name, exp in expect.items():
        rows = pred_rows(name)
        if rows is None:
            continue
        exp = sorted(norm_atoms(r) for r in exp)
        ck.ob("C02.2", f"predicate-table|{name}", rows == exp, fn=PRED(name),
              detail=f"predicate {name} returns true under {rows}; the bit layout requires {exp}")

    # ---- C02.1 classification ------------------------------------------------------------
    cls = {}     # (path, bb) -> kind
    closures = {}
    n_ops = 0
    for ctx, op in ops:
        n_ops += 1
        word = (op.target[1], op.target[2])
        kind, why = classify(prog, ctx, op, word, STATE, NOTIFY, consts)
        cls[(ctx.path, op.bb)] = (kind, op, ctx)
        key = f"{ctx.path}|{op.op}|{canon_args(op)}"
        okord = bool(op.orderings) and not any(o is None or str(o).startswith("phi") for o in op.orderings)
        ck.ob("C02.1", key, kind is not None and okord, fn=ctx.path, site=ctx.site(op.bb),
              detail=why if kind is None else ("ordering not a constant" if not okord else f"classified {kind}"))
    ck.floor("C02.1", "atomic ops on state/writer_notify", n_ops, 17)

    def of_kind(*kinds):
        return [(ctx, op) for (p, bb), (k, op, ctx) in cls.items() if k in kinds]

    # ---- C02.2 admission -------------------------------------------------------------------
    for ctx, op in of_kind("read-acquire"):
        if op.op == "fetch_update":
            continue  # closure predicate checked in classify
        ok, why = admitted(ctx, op, PRED("is_read_lockable"))
        ck.ob("C02.2", f"admission|{ctx.path}|read", ok, fn=ctx.path, site=ctx.site(op.bb),
              detail="read-acquiring CAS is not dominated by is_read_lockable(expected) == true on the very value used as expected: " + why)
    for ctx, op in of_kind("write-acquire"):
        if op.op == "fetch_update":
            continue
        if const_value(op.args[0]) == 0:
            ok, why = True, ""
        else:
            ok, why = admitted(ctx, op, PRED("is_unlocked"))
        ck.ob("C02.2", f"admission|{ctx.path}|write", ok, fn=ctx.path, site=ctx.site(op.bb),
              detail="write-acquiring CAS is neither CAS(0->..) nor dominated by is_unlocked(expected) == true: " + why)
    ck.floor("C02.2", "read-acquiring ops", len(of_kind("read-acquire")), 3)
    ck.floor("C02.2", "write-acquiring ops", len(of_kind("write-acquire")), 3)

    # ---- C02.3 release only by holders ---------------------------------------------------------
    drops = {g: [p for p, f in prog.fns.items() if f.get("impl_trait") == "core::ops::drop::Drop" and (f.get("impl_self") or "").startswith(g)] for g in (RG, WG)}
    for g in (RG, WG):
        ck.anchor("C02.3", f"Drop for {g.split('::')[-1]}", drops[g])
    for kind, g in (("read-release", RG), ("write-release", WG)):
        rel = of_kind(kind)
        ck.floor("C02.3", kind, len(rel), 1)
        for ctx, op in rel:
            callers = sorted(cg.callers.get(ctx.path, ()))
            ck.ob("C02.3", f"only-callers|{ctx.path}", callers and set(callers) <= set(drops[g]), fn=ctx.path,
                  detail=f"{kind} must be called only from Drop of {g.split('::')[-1]}; callers: {callers}")
            ck.ob("C02.3", f"release-unconditional|{ctx.path}", all(ctx.cfg.dominates(op.bb, rb) for rb in ctx.cfg.return_blocks()), fn=ctx.path, site=ctx.site(op.bb),
                  detail="the release op must run on every path of the unlock function")
        rel_fns = {ctx.path for ctx, _ in rel}
        for gd in drops[g]:
            c = prog.ctx(gd)
            calls = [bb for bb, t in c.cfg.calls(lambda t: t.get("callee") in rel_fns)]
            other = {ctx.path for ctx, _ in of_kind("read-release" if kind == "write-release" else "write-release")}
            wrong = [bb for bb, t in c.cfg.calls(lambda t: t.get("callee") in other)]
            ck.ob("C02.3", f"drop-reaches-release|{gd}", bool(calls) and not wrong and all(any(c.cfg.dominates(x, rb) for x in calls) for rb in c.cfg.return_blocks()), fn=gd,
                  detail=f"Drop of the guard must perform exactly its own kind of release ({kind}) on every path")

    # ---- C02.4 acquire evidence, guard construction ------------------------------------------------
    acq_by_fn = {}
    for ctx, op in of_kind("read-acquire", "write-acquire"):
        k = cls[(ctx.path, op.bb)][0]
        acq_by_fn.setdefault(ctx.path, {})[op.bb] = ("cas", k) if op.op.startswith("compare_exchange") else ("fu", k)
    unit = {"read": set(), "write": set()}
    results = {}
    unit_fns = [p for p in acq_by_fn if prog.fns[p]["locals"][0]["ty"] == "()"]
    changed = True
    while changed:
        changed = False
        for p in unit_fns:
            if p in unit["read"] or p in unit["write"]:
                continue
            ctx = prog.ctx(p)
            for kind in ("read", "write"):
                at = {bb: ("cas",) for bb, (how, k) in acq_by_fn[p].items() if how == "cas" and k == kind + "-acquire"}
                pairs, descr = locks.acquiring_edges(ctx, at, unit[kind])
                ok, path = locks.returns_only_via(ctx, pairs)
                results[(p, kind)] = (ok, path)
                if ok and (at or any(t.get("callee") in unit[kind] for _, t in ctx.cfg.calls())):
                    unit[kind].add(p)
                    changed = True
    for p in unit_fns:
        ok = p in unit["read"] or p in unit["write"]
        path = results.get((p, "read"), (None, None))[1] or results.get((p, "write"), (None, None))[1]
        ctx = prog.ctx(p)
        ck.ob("C02.4", f"acquire-evidence|{p}", ok, fn=p, site=ctx.site(0),
              detail="a path reaches `return` without passing the Ok edge of an acquiring CAS of one kind (or a call of such a function)",
              path=ctx.cfg.render_path(path) if path else None)
    boolf = {"read": set(), "write": set()}
    for p in acq_by_fn:
        if prog.fns[p]["locals"][0]["ty"] != "bool":
            continue
        ctx = prog.ctx(p)
        rets = ctx.ret_expr()
        kinds = set()
        ok = bool(rets)
        for rb, e in rets.items():
            e = strip_casts(e)
            good = isinstance(e, tuple) and e[0] == "call" and (e[1] or "").endswith("::is_ok") and e[2]
            if good:
                inner = e[2][0]
                while isinstance(inner, tuple) and inner[0] == "ref":
                    inner = inner[2]
                inner = strip_casts(inner)
                a = acq_by_fn[p].get(inner[3]) if isinstance(inner, tuple) and inner[0] == "call" else None
                good = a is not None and (a[0] == "fu" or a[0] == "cas")
                if good and a[0] == "cas":
                    opx = cls[(p, inner[3])][1]
                    good = opx.op == "compare_exchange"
                if good:
                    kinds.add(a[1].split("-")[0])
            ok = ok and bool(good)
        if ok and len(kinds) == 1:
            boolf[kinds.pop()].add(p)
        ck.ob("C02.4", f"try-evidence|{p}", ok, fn=p, site=ctx.site(0), detail="the boolean returned by the try-acquire function must be exactly is_ok(acquiring fetch_update / strong CAS)")
    ck.floor("C02.4", "blocking acquirers", len(unit["read"]) + len(unit["write"]), 4)
    ck.floor("C02.4", "try acquirers", len(boolf["read"]) + len(boolf["write"]), 2)

    n_sites = 0
    for g, kind in ((RG, "read"), (WG, "write")):
        builders = sorted({p for p, fn in prog.fns.items() for b in fn["blocks"] for s in b["stmts"]
                           if s["k"] == "assign" and s["rv"]["k"] == "agg" and s["rv"].get("adt") == g})
        ck.ob("C02.4", f"guard-constructors|{kind}", len(builders) == 1, detail=f"{g} built in {builders}")
        for bp in builders:
            for caller in sorted(cg.callers.get(bp, ())):
                cctx = prog.ctx(caller)
                if cctx is None:
                    continue
                for bb, t in cctx.cfg.calls(lambda t: t.get("callee") == bp):
                    n_sites += 1
                    ok = False
                    for ab, at in cctx.cfg.calls(lambda t: t.get("callee") in unit[kind]):
                        if at.get("t") is not None and cctx.cfg.dominates(at["t"], bb):
                            ok = True
                    # ... or by the true edge of the bool-returning try-acquirer of that kind (`if inner.try_read() { Some(guard) }`)
                    for ab, at in cctx.cfg.calls(lambda t: t.get("callee") in boolf[kind]):
                        for sb in cctx.cfg.live_blocks():
                            if cctx.cfg.term(sb)["k"] != "switch":
                                continue
                            for e in cctx.cfg.succ[sb]:
                                for f in cctx.edge_facts(e):
                                    if f[0] == "truth" and f[2] is True and isinstance(f[1], tuple) and f[1][0] == "call" and f[1][3] == ab and cctx.cfg.edge_dominates(e, bb):
                                        ok = True
                    if not ok and prog.fns[caller]["kind"] == "Closure":
                        ok = closure_under_then(prog, cg, caller, boolf[kind])
                    ck.ob("C02.4", f"guard-after-acquire|{caller}", ok, fn=caller, site=cctx.site(bb),
                          detail=f"a {kind} guard is constructed on a path that did not first perform a {kind} acquisition")
    ck.floor("C02.4", "guard construction sites", n_sites, 4)

    # data access
    users = set()
    for p, fn in prog.fns.items():
        for b in fn["blocks"]:
            t = b["term"]
            if t["k"] == "call" and not b.get("cleanup") and (t.get("callee") or "").startswith("core::cell::UnsafeCell::<T>::"):
                ctx = prog.ctx(fn)
                if b["id"] not in ctx.cfg.live_blocks() or not t["args"]:
                    continue
                tg = target_of(ctx.args(b["id"])[0])
                if tg and tg[0] == "field" and tg[1] == RW and tg[2] == "data":
                    users.add(p)
    allowed = {f"{RG}::<'rwlock, T>::new", f"<{WG}<'_, T> as core::ops::deref::Deref>::deref", f"<{WG}<'_, T> as core::ops::deref::DerefMut>::deref_mut",
               RW + "::<T>::get_mut", RW + "::<T>::into_inner"}
    for u in sorted(users):
        ck.ob("C02.4", f"data-access|{u}", u in allowed, fn=u, detail="the protected data is reached outside the guards and the exclusive accessors")
    ck.floor("C02.4", "data accessors", len(users), 3)
    for nm, need in ((RW + "::<T>::get_mut", "&'a mut "), (RW + "::<T>::into_inner", "fn(tiny_std::sync::rwlock::RwLock<T>)")):
        f = prog.fns.get(nm)
        if f is not None:
            ck.ob("C02.4", f"exclusive-receiver|{nm}", need in f.get("sig", ""), fn=nm, detail=f"sig: {f.get('sig')}")
    dm = sorted(i["self"].split("<")[0] for i in prog.impls if i.get("trait") == "core::ops::deref::DerefMut" and i["self"].startswith("tiny_std::sync::"))
    ck.ob("C02.4", "DerefMut impls", dm == ["tiny_std::sync::mutex::MutexGuard", WG], detail=f"DerefMut among lock guards must be exactly MutexGuard and RwLockWriteGuard; found {dm}")
    for i in prog.impls:
        if i["self"].startswith(RW + "<") and i.get("trait") == "core::marker::Sync":
            ck.ob("C02.4", "impl-bound|Sync for RwLock", "T: core::marker::Send" in i["where"] and "T: core::marker::Sync" in i["where"], detail=f"where = {i['where']}")
        if i["self"].startswith(RW + "<") and i.get("trait") == "core::marker::Send":
            ck.ob("C02.4", "impl-bound|Send for RwLock", "T: core::marker::Send" in i["where"], detail=f"where = {i['where']}")
        for g in (RG, WG):
            if i["self"].startswith(g + "<") and i.get("trait") == "core::marker::Sync":
                ck.ob("C02.4", f"impl-bound|Sync for {g.split('::')[-1]}", "T: core::marker::Sync" in i["where"], detail=f"where = {i['where']}")
            if i["self"].startswith(g + "<") and i.get("trait") == "core::marker::Send":
                ck.ob("C02.4", f"guard-not-send|{g.split('::')[-1]}", i.get("polarity") == "Negative", detail="guards must not be Send")
    for g in (RG, WG):
        a = prog.adts.get(g)
        if ck.anchor("C02.4", g, a):
            ftys = [f["ty"] for v in a["variants"] for f in v["fields"]]
            ck.ob("C02.4", f"guard-notsend-marker|{g.split('::')[-1]}", any("NotSend" in t for t in ftys), detail=f"fields {ftys}")
    for v in prog.adts[RW]["variants"]:
        for f in v["fields"]:
            ck.ob("C02.4", f"field-private|RwLock.{f['name']}", "Public" not in f["vis"], detail=f["vis"])

    # ---- C02.5 orderings ---------------------------------------------------------------------------
    for ctx, op in of_kind("read-acquire", "write-acquire"):
        ck.ob("C02.5", f"acquire-order|{ctx.path}|{op.op}|{canon_args(op)}", is_acquire(op.success_order), fn=ctx.path, site=ctx.site(op.bb),
              detail=f"acquiring {op.op} has success ordering {op.success_order}")
    for ctx, op in of_kind("read-release", "write-release"):
        ck.ob("C02.5", f"release-order|{ctx.path}", is_release(op.success_order), fn=ctx.path, site=ctx.site(op.bb), detail=f"releasing op ordering {op.success_order}")

    # ---- C02.6 unlock wakes ----------------------------------------------------------------------------
    handoff = None
    wake_users = [c.path for c, bb, t, i, w in passes if t.get("callee") in locks.WAKE_WRAPPERS and w == STATE]
    if ck.ob("C02.6", "anchor|hand-off function", len(set(wake_users)) == 1, detail=f"functions waking the state word: {wake_users}"):
        handoff = wake_users[0]
    for kind, preds in (("read-release", [("is_unlocked", True), ("has_writers_waiting", True)]), ("write-release", [("has_writers_waiting", True), ("has_readers_waiting", True)])):
        for ctx, op in of_kind(kind):
            if handoff is None:
                continue
            wake_blocks = {bb for bb, t in ctx.cfg.calls(lambda t: t.get("callee") == handoff)}
            ck.ob("C02.6", f"unlock-calls-handoff|{ctx.path}", bool(wake_blocks), fn=ctx.path, detail="unlock never calls the hand-off function")
            # the state passed on / tested derives from the release op's result minus the released amount
            for pn, val in preds:
                skip_edges = set()
                for sb in ctx.cfg.live_blocks():
                    if ctx.cfg.term(sb)["k"] != "switch":
                        continue
                    for e in ctx.cfg.succ[sb]:
                        for f in ctx.edge_facts(e):
                            if f[0] == "truth" and isinstance(f[1], tuple) and f[1][0] == "call" and f[1][1] == PRED(pn) and f[2] is (not val):
                                if derives_from_release(f[1][2][0], op, kind, consts):
                                    skip_edges.add((e.src, e.dst))
                            # the helper written out: (X & M) == 0 with the predicate's bit in M
                            bit = {"has_writers_waiting": WWAIT, "has_readers_waiting": RWAIT}.get(pn)
                            if bit and val is True and f[0] == "cmp" and f[1] == "Eq" and 0 in (const_value(f[2]), const_value(f[3])):
                                mexp = strip_casts(f[3] if const_value(f[2]) == 0 else f[2])
                                if isinstance(mexp, tuple) and mexp[0] == "bin" and mexp[1] == "BitAnd":
                                    for mk, x in ((mexp[2], mexp[3]), (mexp[3], mexp[2])):
                                        mv = fold(mk)
                                        if isinstance(mv, int) and mv & bit and derives_from_release(x, op, kind, consts):
                                            skip_edges.add((e.src, e.dst))
                if kind == "read-release":
                    # skipping the wake requires !is_unlocked or !has_writers_waiting: removing all such edges must cut every wake-free path
                    pass
                cls_edges = skip_edges
                if kind == "write-release":
                    # each predicate's false edge must be on every wake-free path (both must be false to skip)
                    r = ctx.cfg.reachable_from(0, avoid=wake_blocks, avoid_edges=cls_edges)
                    bad = [rb for rb in ctx.cfg.return_blocks() if rb in r]
                    ck.ob("C02.6", f"skip-needs-not-{pn}|{ctx.path}", not bad, fn=ctx.path,
                          detail=f"write unlock can return without the hand-off although {pn}(state) may hold")
            if kind == "read-release":
                allskip = set()
                for pn, val in preds:
                    for sb in ctx.cfg.live_blocks():
                        if ctx.cfg.term(sb)["k"] != "switch":
                            continue
                        for e in ctx.cfg.succ[sb]:
                            for f in ctx.edge_facts(e):
                                if f[0] == "truth" and isinstance(f[1], tuple) and f[1][0] == "call" and f[1][1] == PRED(pn) and f[2] is False and derives_from_release(f[1][2][0], op, kind, consts):
                                    allskip.add((e.src, e.dst))
                # the two predicates as one comparison: `state & (MASK | WRITERS_WAITING) == WRITERS_WAITING` - its `!=` edge skips
                for sb in ctx.cfg.live_blocks():
                    if ctx.cfg.term(sb)["k"] != "switch":
                        continue
                    for e in ctx.cfg.succ[sb]:
                        for f in ctx.edge_facts(e):
                            if f[0] == "cmp" and f[1] == "Ne":
                                for x, y in ((f[2], f[3]), (f[3], f[2])):
                                    mexp = strip_casts(x)
                                    if fold(y) == WWAIT and isinstance(mexp, tuple) and mexp[0] == "bin" and mexp[1] == "BitAnd":
                                        for mk, w in ((mexp[2], mexp[3]), (mexp[3], mexp[2])):
                                            if fold(mk) == (consts["MASK"] | WWAIT) and derives_from_release(w, op, kind, consts):
                                                allskip.add((e.src, e.dst))
                r = ctx.cfg.reachable_from(0, avoid=wake_blocks, avoid_edges=allskip)
                bad = [rb for rb in ctx.cfg.return_blocks() if rb in r]
                ck.ob("C02.6", f"last-reader-hands-off|{ctx.path}", not bad, fn=ctx.path,
                      detail="read unlock can return without the hand-off although the lock became unlocked with a writer waiting")

    # ---- C02.7 hand-off pairing -----------------------------------------------------------------------------
    if handoff:
        check_handoff(ck, prog, handoff, cls, STATE, NOTIFY, consts)

    # ---- C02.11 no panic on the way: potential-panic inventory of the lock's own functions ---------------------------------------------
    # (debug builds check arithmetic: a sum computed for a state that does not admit the caller overflows - try_write would panic
    # instead of answering false). Every site is auto-discharged or listed here with the reason it cannot fire.
    from ..engine import panics
    REVIEWED = {
        ("read", "overflow_add(load"): "evaluated only after is_read_lockable(state) (short-circuit ||): state < MAX_READERS",
        ("read_contended", "overflow_add(var:state,1)"): "inside `if is_read_lockable(state)`: state < MAX_READERS",
        ("read_contended", "explicit-"): "deliberate: more than MAX_READERS simultaneous readers (as in std)",
        ("read_unlock", "overflow_sub(fetch_sub"): "the caller holds a read lock: the previous value is >= READ_LOCKED",
        ("read_unlock", "explicit-"): "debug_assert on the state a read-holder must see",
        ("write_unlock", "overflow_sub(fetch_sub"): "the caller holds the write lock: the previous value contains WRITE_LOCKED",
        ("write_unlock", "explicit-"): "debug_assert on the state the write-holder must see",
        ("wake_writer_or_readers", "explicit-"): "debug_assert: called only on an unlocked state",
        ("wake_writer", "call:unwrap"): "futex_wake on a mapped, aligned word cannot fail (EFAULT/EINVAL only)",
        ("try_read::{closure#0}::{closure#0}", "overflow_add("): "the lazy closure of `is_read_lockable(s).then(..)`: runs only for an admitting state (s < MAX_READERS)",
        ("try_write::{closure#0}::{closure#0}", "overflow_add("): "the lazy closure of `is_unlocked(s).then(..)`: runs only for s & MASK == 0 (s + MASK fits)",
    }
    n_sites = 0
    for p2, f2 in sorted(prog.fns.items()):
        if not p2.startswith(INNER + "::") or f2.get("is_test"):
            continue
        c2 = prog.ctx(f2)
        for site in panics.sites(c2):
            n_sites += 1
            okd, whyd = panics.discharge(c2, site)
            short = p2[len(INNER) + 2:]
            if not okd and site["kind"].startswith("overflow") and short in ("try_read::{closure#0}", "try_write::{closure#0}"):
                # the branch form of the lazy closure: `if pred(s) { Some(s + C) } else { None }` - the sum is under the admission test
                pr = "is_read_lockable" if short.startswith("try_read") else "is_unlocked"
                if any(f[0] == "truth" and f[2] is True and isinstance(f[1], tuple) and f[1][0] == "call" and (f[1][1] or "").endswith("::" + pr) for f in panics.dominating_facts(c2, site["bb"])):
                    okd, whyd = True, f"computed only under {pr}(s) == true: the sum fits"
            rev = next((r for (fn_, pre), r in REVIEWED.items() if fn_ == short and site["key"].startswith(pre)), None)
            from ..engine.cfg import span_str
            ck.ob("C02.11", f"{short}|{site['key'][:70]}", okd or rev is not None, fn=p2, site=span_str(site["sp"]),
                  detail=(whyd if okd else (f"reviewed: {rev}" if rev else f"potential panic in the lock's own code: {whyd} - e.g. `cond.then_some(s + X)` evaluates the sum eagerly, for EVERY state, and overflows in builds with overflow checks")))
    ck.floor("C02.11", "potential-panic sites in InnerLock", n_sites, 8 if ck.config != "R" else 2)
    # the two lazy closures really are lazy: they are handed to bool::then on the admission predicate
    for nm, pred in (("try_read", "is_read_lockable"), ("try_write", "is_unlocked")):
        outer = prog.fns.get(f"{INNER}::{nm}::{{closure#0}}")
        if not ck.anchor("C02.11", f"{nm} update closure", outer):
            continue
        c3 = prog.ctx(outer)
        thens = [(bb, t) for bb, t in c3.cfg.calls(lambda t: (t.get("callee") or "").endswith(("bool::then", "bool::then_some", "<impl bool>::then", "<impl bool>::then_some")))]
        ok = len(thens) == 1 and thens[0][1]["callee"].endswith("::then") and mentions(c3.args(thens[0][0])[0], c3.prov, lambda z: z[0] == "call" and (z[1] or "").endswith("::" + pred)) and \
            not any(site["kind"].startswith("overflow") for site in panics.sites(c3))
        if not thens:
            # branch form: every arithmetic site of the closure sits under pred(s) == true
            ar = [site for site in panics.sites(c3) if site["kind"].startswith("overflow")]
            ok = all(any(f[0] == "truth" and f[2] is True and isinstance(f[1], tuple) and f[1][0] == "call" and (f[1][1] or "").endswith("::" + pred) for f in panics.dominating_facts(c3, site["bb"])) for site in ar) and \
                any(f[0] == "truth" and isinstance(f[1], tuple) and f[1][0] == "call" and (f[1][1] or "").endswith("::" + pred) for sb in c3.cfg.live_blocks() if c3.cfg.term(sb)["k"] == "switch" for e in c3.cfg.succ[sb] for f in c3.edge_facts(e))
        ck.ob("C02.11", f"{nm}|new-word-computed-only-for-an-admitting-state", ok, fn=outer["path"],
              detail=f"the new lock word must be computed lazily under {pred}(s) (`{pred}(s).then(|| s + ..)`); computing it before the test overflows for non-admitting states")

    # ---- C02.8 sleep discipline --------------------------------------------------------------------------------
    waits = [(c, bb, t, w) for c, bb, t, i, w in passes if t.get("callee") in locks.WAIT_WRAPPERS]
    ck.floor("C02.8", "wait sites", len(waits), 2)
    for ctx, bb, t, w in waits:
        ck.ob("C02.8", f"wait-in-loop|{ctx.path}", ctx.cfg.in_cycle(bb), fn=ctx.path, site=ctx.site(bb), detail="the futex wait is not inside a retry loop")
        args = ctx.args(bb)
        exp = args[1]
        if w == STATE:
            # expected == state | READERS_WAITING ; bit known set before
            es = strip_casts(exp)
            shape = isinstance(es, tuple) and es[0] == "bin" and es[1] == "BitOr" and RWAIT in (const_value(es[2]), const_value(es[3]))
            ck.ob("C02.8", f"reader-wait-expected|{ctx.path}", shape, fn=ctx.path, site=ctx.site(bb), detail=f"reader sleeps on the state word expecting {show(exp)}; must be state|READERS_WAITING")
            if shape:
                sv = es[2] if const_value(es[3]) == RWAIT else es[3]
                ok = bit_announced(ctx, bb, sv, "has_readers_waiting", RWAIT, cls)
                ck.ob("C02.8", f"reader-bit-set-before-sleep|{ctx.path}", ok, fn=ctx.path, site=ctx.site(bb),
                      detail="a path reaches the reader's wait without the READERS_WAITING bit having been set (CAS Ok) or observed on the waited value; unlock would not wake readers")
        else:
            # writer: expected = seq = load(notify, >=Acquire); load dominates state reload which dominates wait
            es = strip_casts(exp)
            isload = isinstance(es, tuple) and es[0] == "call" and (es[1] or "").endswith("::load") and cls.get((ctx.path, es[3]), (None,))[0] == "notify-load"
            ck.ob("C02.8", f"writer-wait-expected|{ctx.path}", isload, fn=ctx.path, site=ctx.site(bb), detail=f"writer sleeps on writer_notify expecting {show(exp)}; must be the sequence it loaded")
            if isload:
                seq_bb = es[3]
                seq_op = cls[(ctx.path, seq_bb)][1]
                ck.ob("C02.8", f"writer-seq-acquire|{ctx.path}", is_acquire(seq_op.success_order), fn=ctx.path, site=ctx.site(seq_bb), detail=f"sequence load ordering {seq_op.success_order}")
                # state re-check after sampling: is_unlocked(S)==false and has_writers_waiting(S)==true edges dominate the wait with S = a state load dominated by the seq load
                ok_u = recheck(ctx, bb, seq_bb, "is_unlocked", False, cls)
                ok_w = recheck(ctx, bb, seq_bb, "has_writers_waiting", True, cls)
                ck.ob("C02.8", f"writer-recheck-unlocked-after-seq|{ctx.path}", ok_u, fn=ctx.path, site=ctx.site(bb),
                      detail="the writer must re-load the state AFTER sampling the notify sequence and not sleep if it is unlocked (else a wake between the check and the sample is lost)")
                ck.ob("C02.8", f"writer-recheck-bit-after-seq|{ctx.path}", ok_w, fn=ctx.path, site=ctx.site(bb),
                      detail="the writer must re-check has_writers_waiting on a state loaded AFTER sampling the notify sequence")
                # no second load of notify between seq load and the wait
                others = [b2 for (p, b2), (k, o, c) in cls.items() if p == ctx.path and k == "notify-load" and b2 != seq_bb]
                ck.ob("C02.8", f"writer-single-seq-sample|{ctx.path}", not others, fn=ctx.path, detail="more than one load of the notify sequence in the writer's sleep path")
                ok = bit_announced_any(ctx, bb, "has_writers_waiting", WWAIT, cls)
                ck.ob("C02.8", f"writer-bit-set-before-sleep|{ctx.path}", ok, fn=ctx.path, site=ctx.site(bb),
                      detail="a path reaches the writer's wait without WRITERS_WAITING having been set (CAS Ok) or observed")

    helper = prog.fns.get("tiny_std::sync::futex_wait_fast")
    if ck.anchor("C02.8", "futex_wait_fast", helper):
        check_wait_helper(ck, prog, helper, "C02.8h")
    check_flavour(ck, prog, "C02.8f")

    # ---- C02.9 try_* cannot block ---------------------------------------------------------------------------------
    for nm in ("try_read", "try_write"):
        f = prog.fns.get(RW + "::<T>::" + nm)
        if ck.anchor("C02.9", nm, f):
            chain = locks.reaches_any(prog, f["path"], locks.BLOCKING)
            ck.ob("C02.9", f"{nm}-no-blocking-call", chain is None, fn=f["path"], detail=f"{nm} reaches a blocking call: {chain}")
            for p in sorted(cg.reach([f["path"]])):
                fn2 = prog.fns.get(p)
                if fn2 is not None and "tiny_std" in p:
                    ck.ob("C02.9", f"{nm}-acyclic|{p}", not prog.ctx(fn2).cfg.cycle_blocks(), fn=p, detail="loop on a try_* path")


# ------------------------------------------------------------------------------------------------------
def canon_args(op):
    return ",".join(canon(a) for a in op.args)


def classify(prog, ctx, op, word, STATE, NOTIFY, C):
    MASK, RL, WL = C["MASK"], C["READ_LOCKED"], C["WRITE_LOCKED"]
    if word == NOTIFY:
        if op.op == "load":
            return "notify-load", ""
        if op.op == "fetch_add" and const_value(op.args[0]) == 1:
            return "notify-bump", ""
        return None, f"`{op.op}` on writer_notify is outside the table (load / fetch_add(1))"
    if op.op == "load":
        return "load", ""
    if op.op == "fetch_sub":
        c = const_value(op.args[0])
        if c == RL:
            return "read-release", ""
        if c == WL:
            return "write-release", ""
        return None, f"fetch_sub({show(op.args[0])}) releases neither one reader nor the writer"
    if op.op in ("compare_exchange", "compare_exchange_weak"):
        exp, new = op.args[0], op.args[1]
        ce, cn = const_value(exp), const_value(new)
        if ce is None and cn is not None:
            ce = dominating_eq_const(ctx, op.bb, exp)
        if ce is not None and cn is not None:
            if (ce & MASK) == (cn & MASK):
                return "preserve", ""
            if (ce & MASK) == 0 and (cn & MASK) == MASK:
                return "write-acquire", ""
            if (ce & MASK) == 0 and (cn & MASK) == RL:
                return "read-acquire", ""
            return None, f"CAS({ce}->{cn}) changes the lock field in an unclassified way"
        X = canon(exp)
        n = strip_casts(new)
        if isinstance(n, tuple) and n[0] == "bin":
            a, b = n[2], n[3]
            if n[1] == "Add" and canon(a) == X and const_value(b) == RL:
                return "read-acquire", ""
            if n[1] == "BitAnd":
                # the word with bits outside the lock field cleared (`state & !WRITERS_WAITING`): the lock field is kept
                for x_, k_ in ((a, b), (b, a)):
                    kv = fold(k_)
                    if canon(x_) == X and kv is not None and (kv & MASK) == MASK:
                        return "preserve", ""
            if n[1] == "BitOr":
                terms = flatten_or(n)
                if any(canon(t) == X for t in terms):
                    rest = [t for t in terms if canon(t) != X]
                    vals = []
                    for t in rest:
                        vs = const_values_deep(t, ctx.prov)
                        if vs is None:
                            return None, f"CAS new value {show(new)}: term {show(t)} is not a constant set"
                        vals.append(vs)
                    if any(WL in vs for vs in vals):
                        if all(all(v == WL or (v & MASK) == 0 for v in vs) for vs in vals):
                            return "write-acquire", ""
                    elif all(all((v & MASK) == 0 for v in vs) for vs in vals):
                        return "preserve", ""
        return None, f"CAS({show(exp)} -> {show(new)}) cannot be classified by its effect on the MASK field"
    if op.op == "fetch_update":
        clo = None
        for a in op.args:
            if isinstance(a, tuple) and a[0] == "agg" and a[1] == "closure":
                clo = a[2]
        if clo is None or clo not in prog.fns:
            return None, "fetch_update closure not found"
        cctx = prog.ctx(clo)
        # branch form: `if pred(s) { Some(s + C) } else { None }` - every Some(..) is built under pred(s) == true
        from ..engine import panics as _pn
        somes, nones, other = [], [], 0
        for b in prog.fns[clo]["blocks"]:
            if b.get("cleanup") or b["id"] not in cctx.cfg.live_blocks():
                continue
            for i, st in enumerate(b["stmts"]):
                if st["k"] == "assign" and st["dst"]["l"] == 0 and not st["dst"].get("p"):
                    rv = strip_casts(cctx.prov.rvalue(st["rv"], (b["id"], i)))
                    if isinstance(rv, tuple) and rv[0] == "agg" and rv[2] == "Some" and rv[3]:
                        somes.append((b["id"], strip_casts(rv[3][0])))
                    elif isinstance(rv, tuple) and rv[0] == "agg" and rv[2] == "None":
                        nones.append(b["id"])
                    else:
                        other += 1
        if somes and nones and not other:
            kinds = set()
            for bb, nv in somes:
                truths = [f for f in _pn.dominating_facts(cctx, bb) if f[0] == "truth" and f[2] is True and isinstance(f[1], tuple) and f[1][0] == "call" and f[1][2] and
                          isinstance(strip_casts(f[1][2][0]), tuple) and strip_casts(f[1][2][0])[0] == "param" and strip_casts(f[1][2][0])[1] == 2]
                preds = {f[1][1] for f in truths}
                ok_s = isinstance(nv, tuple) and nv[0] == "bin" and isinstance(strip_casts(nv[2]), tuple) and strip_casts(nv[2])[0] == "param" and strip_casts(nv[2])[1] == 2
                cst = const_value(nv[3]) if ok_s else None
                if ok_s and nv[1] == "Add" and cst == RL and PRED("is_read_lockable") in preds:
                    kinds.add("read-acquire")
                # under is_unlocked(s) the low bits are zero, so s | WRITE_LOCKED is s + WRITE_LOCKED (WRITE_LOCKED == MASK, checked in C02.0)
                elif ok_s and nv[1] in ("Add", "BitOr") and cst == WL and PRED("is_unlocked") in preds:
                    kinds.add("write-acquire")
                else:
                    return None, f"fetch_update closure builds Some({show(nv)}) under {sorted(p_.split('::')[-1] for p_ in preds)}: not an admissible acquisition"
            if len(kinds) == 1:
                return next(iter(kinds)), ""
        rets = list(cctx.ret_expr().values())
        if len(rets) != 1:
            return None, "fetch_update closure has several returns"
        r = strip_casts(rets[0])
        if not (isinstance(r, tuple) and r[0] == "call" and (r[1] or "").endswith(("::then_some", "::then")) and len(r[2]) == 2):
            return None, f"fetch_update closure returns {show(r)}; expected pred(s).then(|| s + C)"
        cond, val = r[2]
        cond, val = strip_casts(cond), strip_casts(val)
        if (r[1] or "").endswith("::then"):
            # lazy form: the payload is a closure capturing s by reference and returning s + C
            inner = val[2] if isinstance(val, tuple) and val[0] == "agg" and val[1] == "closure" else None
            if inner is None or inner not in prog.fns:
                return None, f"fetch_update: lazy payload {show(val)} is not a closure"
            ictx = prog.ctx(inner)
            irets = list(ictx.ret_expr().values())
            caps = val[3] if len(val) > 3 else ()
            cap_is_s = len(caps) == 1 and any(z[0] == "param" and z[1] == 2 for z in walk(caps[0]))
            iv = strip_casts(irets[0]) if len(irets) == 1 else None
            if not (cap_is_s and isinstance(iv, tuple) and iv[0] == "bin" and iv[1] == "Add" and const_value(iv[3]) is not None and
                    any(z[0] == "param" and z[1] == 1 for z in walk(iv[2]))):
                return None, f"fetch_update: lazy payload computes {show(iv) if iv else None}; expected s + C over the captured s"
            val = ("bin", "Add", ("param", 2, "s"), iv[3])
        if not (isinstance(val, tuple) and val[0] == "bin" and val[1] == "Add" and isinstance(val[2], tuple) and val[2][0] == "param" and val[2][1] == 2):
            return None, f"fetch_update new value {show(val)} is not s + C"
        c = const_value(val[3])
        if not (isinstance(cond, tuple) and cond[0] == "call" and cond[2] and cond[2][0] == val[2]):
            return None, f"fetch_update admission {show(cond)} is not a predicate of the same s"
        if c == RL and cond[1] == PRED("is_read_lockable"):
            return "read-acquire", ""
        if c == WL and cond[1] == PRED("is_unlocked"):
            return "write-acquire", ""
        return None, f"fetch_update adds {c} under {cond[1]}: not an admissible acquisition"
    return None, f"operation `{op.op}` on the state word is outside the table"


def flatten_or(n):
    n = strip_casts(n)
    if isinstance(n, tuple) and n[0] == "bin" and n[1] == "BitOr":
        return flatten_or(n[2]) + flatten_or(n[3])
    return [n]


def const_values_deep(e, prov, depth=0):
    """Set of constant values an expression can take (var of constants), else None."""
    e = strip_casts(e)
    c = const_value(e)
    if c is not None:
        return {c}
    if isinstance(e, tuple) and e[0] == "var" and depth < 3:
        out = set()
        for d in prov.expand(e):
            vs = const_values_deep(d, prov, depth + 1)
            if vs is None:
                return None
            out |= vs
        return out
    return None


def admitted(ctx, op, pred):
    X = canon(op.args[0])
    found = False
    for sb in ctx.cfg.live_blocks():
        if ctx.cfg.term(sb)["k"] != "switch":
            continue
        for e in ctx.cfg.succ[sb]:
            for f in ctx.edge_facts(e):
                if f[0] == "truth" and f[2] is True and isinstance(f[1], tuple) and f[1][0] == "call" and f[1][1] == pred and f[1][2] and canon(f[1][2][0]) == X:
                    if ctx.cfg.edge_dominates(e, op.bb) and no_redef_between(ctx, e, op.bb, op.args[0]):
                        found = True
    return found, f"expected value {show(op.args[0])}"


def no_redef_between(ctx, edge, bb, expr):
    expr = strip_casts(expr)
    if not (isinstance(expr, tuple) and expr[0] == "var"):
        return True
    l = expr[1]
    avoid = {(edge.src, edge.dst)}
    r = ctx.cfg.reachable_from(edge.dst, avoid_edges=avoid)
    for (dbb, didx) in ctx.prov.defs.get((l, None), []):
        if dbb in r and dbb != bb and bb in ctx.cfg.reachable_from(dbb, avoid_edges=avoid):
            # a definition strictly between the test and the use
            if dbb == edge.dst and False:
                continue
            return False
    return True


def closure_under_then(prog, cg, closure_path, bool_acquirers):
    """closure is only used as the argument of bool::then whose receiver is the result of a bool acquirer."""
    parents = cg.callers.get(closure_path, set())
    if len(parents) != 1:
        return False
    p = next(iter(parents))
    pctx = prog.ctx(p)
    ok = False
    for bb, t in pctx.cfg.calls(lambda t: (t.get("callee") or "").endswith("bool>::then")):
        args = pctx.args(bb)
        if len(args) == 2 and isinstance(args[1], tuple) and args[1][0] == "agg" and args[1][2] == closure_path:
            r = strip_casts(args[0])
            if isinstance(r, tuple) and r[0] == "call" and r[1] in bool_acquirers:
                ok = True
            else:
                return False
    return ok


def derives_from_release(e, op, kind, C):
    """e == fetch_sub(..) - amount, for the given release op."""
    e = strip_casts(e)
    amt = C["READ_LOCKED"] if kind == "read-release" else C["WRITE_LOCKED"]
    return (isinstance(e, tuple) and e[0] == "bin" and e[1] == "Sub" and const_value(e[3]) == amt
            and isinstance(strip_casts(e[2]), tuple) and strip_casts(e[2])[0] == "call" and strip_casts(e[2])[3] == op.bb)


def edges_with_truth(ctx, pred, val):
    out = []
    for sb in ctx.cfg.live_blocks():
        if ctx.cfg.term(sb)["k"] != "switch":
            continue
        for e in ctx.cfg.succ[sb]:
            for f in ctx.edge_facts(e):
                if f[0] == "truth" and f[2] is val and isinstance(f[1], tuple) and f[1][0] == "call" and f[1][1] == PRED(pred):
                    out.append((e, f[1]))
    return out


def ok_edges_of(ctx, cas_bb):
    out = []
    for sb in ctx.cfg.live_blocks():
        if ctx.cfg.term(sb)["k"] != "switch":
            continue
        for e in ctx.cfg.succ[sb]:
            for f in ctx.edge_facts(e):
                x = locks.through_result_adapters(f[1]) if f[0] == "variant" else None
                if f[0] == "variant" and f[2] == "Ok" and isinstance(x, tuple) and x[0] == "call" and x[3] == cas_bb:
                    out.append(e)
    return out


def err_edges_of(ctx, cas_bb):
    out = []
    for sb in ctx.cfg.live_blocks():
        if ctx.cfg.term(sb)["k"] != "switch":
            continue
        for e in ctx.cfg.succ[sb]:
            for f in ctx.edge_facts(e):
                x = locks.through_result_adapters(f[1]) if f[0] == "variant" else None
                if f[0] == "variant" and f[2] == "Err" and isinstance(x, tuple) and x[0] == "call" and x[3] == cas_bb:
                    out.append(e)
    return out


def bit_test_edges(ctx, bit, X):
    """edges on which (X & bit) != 0 holds (X = canonical state value, or any when None)"""
    out = []
    for sb in ctx.cfg.live_blocks():
        if ctx.cfg.term(sb)["k"] != "switch":
            continue
        for e in ctx.cfg.succ[sb]:
            for f in ctx.edge_facts(e):
                if f[0] == "cmp" and f[1] == "Ne" and 0 in (const_value(f[2]), const_value(f[3])):
                    m = strip_casts(f[3] if const_value(f[2]) == 0 else f[2])
                    if isinstance(m, tuple) and m[0] == "bin" and m[1] == "BitAnd" and bit in (const_value(m[2]), const_value(m[3])):
                        other = m[3] if const_value(m[2]) == bit else m[2]
                        if X is None or canon(other) == X:
                            out.append(e)
    return out


def bit_announced(ctx, wait_bb, statev, pred, bit, cls):
    """Every path to the wait passes: Ok edge of CAS(X -> X|bit) or pred(X)==true edge, X being the waited-on state value."""
    X = canon(statev)
    cut = set()
    for (p, bb), (k, op, c) in cls.items():
        if p != ctx.path or k != "preserve" or not op.op.startswith("compare_exchange"):
            continue
        n = strip_casts(op.args[1])
        if isinstance(n, tuple) and n[0] == "bin" and n[1] == "BitOr" and bit in (const_value(n[2]), const_value(n[3])) and canon(op.args[0]) == X:
            for e in ok_edges_of(ctx, bb):
                cut.add((e.src, e.dst))
    for e, call in edges_with_truth(ctx, pred, True):
        if call[2] and canon(call[2][0]) == X:
            cut.add((e.src, e.dst))
    # the same test written out: (X & bit) != 0
    bt = bit_test_edges(ctx, bit, X)
    for e in bt:
        cut.add((e.src, e.dst))
    # a Result merged from several places (an expanded helper with an early `return Ok(())`): its Ok edge announces the bit when
    # every definition does - the preserving CAS itself (through map/ok adapters) or an Ok built under the bit test above
    announcing_cas = {bb for (p, bb), (k, op, c) in cls.items() if p == ctx.path and k == "preserve" and op.op.startswith("compare_exchange") and
                      isinstance(strip_casts(op.args[1]), tuple) and strip_casts(op.args[1])[0] == "bin" and strip_casts(op.args[1])[1] == "BitOr" and
                      bit in (const_value(strip_casts(op.args[1])[2]), const_value(strip_casts(op.args[1])[3])) and canon(op.args[0]) == X}
    for sb in ctx.cfg.live_blocks():
        if ctx.cfg.term(sb)["k"] != "switch":
            continue
        for e in ctx.cfg.succ[sb]:
            for f in ctx.edge_facts(e):
                if f[0] == "variant" and f[2] == "Ok" and isinstance(strip_casts(f[1]), tuple) and strip_casts(f[1])[0] == "var":
                    v = strip_casts(f[1])
                    defs = ctx.prov.reaching((v[1], None), (e.src, 0))
                    good = bool(defs)
                    for d in defs:
                        if d[0] == "param":
                            good = False
                            continue
                        dx = locks.through_result_adapters(ctx.prov.def_expr(d, (v[1], None), 0, frozenset()))
                        if isinstance(dx, tuple) and dx[0] == "call" and dx[3] in announcing_cas:
                            continue
                        if isinstance(dx, tuple) and dx[0] == "agg" and dx[2] == "Ok" and any(ctx.cfg.edge_dominates(be, d[0]) for be in bt):
                            continue
                        good = False
                    if good:
                        cut.add((e.src, e.dst))
    nxt = ctx.cfg.term(wait_bb).get("t")
    r = ctx.cfg.reachable_from(0, avoid_edges=cut)
    if wait_bb in r:
        return False
    if nxt is not None and wait_bb in ctx.cfg.reachable_from(nxt, avoid_edges=cut):
        return False
    return True


def bit_announced_any(ctx, wait_bb, pred, bit, cls):
    cut = set()
    for (p, bb), (k, op, c) in cls.items():
        if p != ctx.path or k != "preserve" or not op.op.startswith("compare_exchange"):
            continue
        n = strip_casts(op.args[1])
        if isinstance(n, tuple) and n[0] == "bin" and n[1] == "BitOr" and bit in (const_value(n[2]), const_value(n[3])):
            for e in ok_edges_of(ctx, bb):
                cut.add((e.src, e.dst))
    for e, call in edges_with_truth(ctx, pred, True):
        cut.add((e.src, e.dst))
    for e in bit_test_edges(ctx, bit, None):
        cut.add((e.src, e.dst))
    nxt = ctx.cfg.term(wait_bb).get("t")
    if wait_bb in ctx.cfg.reachable_from(0, avoid_edges=cut):
        return False
    if nxt is not None and wait_bb in ctx.cfg.reachable_from(nxt, avoid_edges=cut):
        return False
    return True


def recheck(ctx, wait_bb, seq_bb, pred, val, cls):
    """An edge pred(S)==val dominates the wait, where S is a state load whose block is dominated by the seq load,
    and no path from the seq load reaches the wait avoiding that edge."""
    for e, call in edges_with_truth(ctx, pred, val):
        if not call[2]:
            continue
        S = strip_casts(call[2][0])
        loads = []
        if isinstance(S, tuple) and S[0] == "call" and cls.get((ctx.path, S[3]), (None,))[0] == "load":
            loads = [S[3]]
        elif isinstance(S, tuple) and S[0] == "var":
            # the state variable: the definition reaching this test must be a state load after the seq load
            ds = ctx.prov.reaching((S[1], None), (e.src, 0))
            exps = []
            for d in ds:
                if d[0] == "param":
                    exps.append(None)
                else:
                    x = strip_casts(ctx.prov.def_expr(d, (S[1], None), 0, frozenset()))
                    exps.append(x)
            if exps and all(isinstance(x, tuple) and x[0] == "call" and cls.get((ctx.path, x[3]), (None,))[0] == "load" for x in exps):
                loads = [x[3] for x in exps]
        if not loads:
            continue
        if not all(ctx.cfg.dominates(seq_bb, lb) and lb != seq_bb for lb in loads):
            continue
        # from the seq load, the wait is unreachable without taking this edge
        nxt = ctx.cfg.term(seq_bb).get("t")
        r = ctx.cfg.reachable_from(nxt, avoid_edges={(e.src, e.dst)}, avoid={seq_bb})
        if wait_bb not in r:
            return True
    return False


def check_handoff(ck, prog, handoff, cls, STATE, NOTIFY, C):
    ctx = prog.ctx(handoff)
    RWAIT, WWAIT = C["READERS_WAITING"], C["WRITERS_WAITING"]
    # writer wake function: bumps notify then wakes notify
    ww = sorted({p for (p, bb), (k, op, c) in cls.items() if k == "notify-bump"})
    if not ck.ob("C02.7", "anchor|writer wake function", len(ww) == 1, detail=f"functions bumping writer_notify: {ww}"):
        return
    wwf = ww[0]
    wctx = prog.ctx(wwf)
    bump = [(bb, op) for (p, bb), (k, op, c) in cls.items() if p == wwf and k == "notify-bump"][0]
    ck.ob("C02.7", "notify-bump-release", is_release(bump[1].success_order), fn=wwf, site=wctx.site(bump[0]), detail=f"writer_notify bump ordering {bump[1].success_order}; sleeping writers acquire-load it")
    wakes = []
    for bb, t in wctx.cfg.calls(lambda t: t.get("callee") in locks.WAKE_WRAPPERS):
        args = wctx.args(bb)
        tg = target_of(args[0])
        if tg and tg[0] == "field" and (tg[1], tg[2]) == NOTIFY:
            wakes.append((bb, const_value(args[1]) if const_value(args[1]) is not None else fold(args[1])))
    ck.ob("C02.7", "writer-wake-on-notify", len(wakes) == 1 and wakes[0][1] is not None and wakes[0][1] >= 1, fn=wwf, detail=f"futex_wake on writer_notify: {wakes}")
    if wakes:
        ck.ob("C02.7", "bump-before-wake", wctx.cfg.dominates(bump[0], wakes[0][0]) and all(wctx.cfg.dominates(wakes[0][0], rb) for rb in wctx.cfg.return_blocks()), fn=wwf,
              detail="the notify sequence must be bumped before the wake, and the wake must happen on every path")
        # returns (woken != 0)
        rets = list(wctx.ret_expr().values())
        good = False
        if len(rets) == 1:
            r = strip_casts(rets[0])
            unsigned0 = isinstance(r, tuple) and r[0] == "bin" and isinstance(r[3], tuple) and r[3][0] == "const" and str(r[3][3]).startswith("u")
            if isinstance(r, tuple) and r[0] == "bin" and (r[1] == "Ne" or (r[1] == "Gt" and unsigned0)) and const_value(r[3]) == 0:
                good = any(x[0] == "call" and x[1] in locks.WAKE_WRAPPERS for x in walk(r[2]))
            # ... or hands the woken count itself to its caller (which then tests it against 0)
            if not good and any(x[0] == "call" and x[1] in locks.WAKE_WRAPPERS for x in walk(r)) and not any(x[0] == "bin" for x in walk(r)):
                good = "count"
        ck.ob("C02.7", "writer-wake-reports-woken", good, fn=wwf, detail="wake_writer must return whether a writer was actually woken (woken != 0)")
    # in the hand-off: CAS clearing WW -> followed by writer wake on all paths
    n_clear_w = n_clear_r = 0
    for (p, bb), (k, op, c) in cls.items():
        if p != handoff or not op.op.startswith("compare_exchange"):
            continue
        ce, cn = const_values_deep(op.args[0], ctx.prov), const_value(op.args[1])
        if ce is None:
            # expected is the state variable compared against a constant just before: use the dominating equality
            ce = dominating_eq_const(ctx, bb, op.args[0])
        if cn is None:
            # the new value computed from the state word, whose value the dominating equality fixes (`state & !WRITERS_WAITING` under
            # `state == READERS_WAITING | WRITERS_WAITING`)
            cn = eval_under_eq(ctx, bb, op.args[1])
        if ce is None or cn is None:
            ck.ob("C02.7", f"handoff-cas-constant|{canon_args(op)}", False, fn=handoff, site=ctx.site(bb), detail="hand-off CAS operands are not constants (cannot pair cleared bits with wakes)")
            continue
        ces = ce if isinstance(ce, set) else {ce}
        for cev in ces:
            cleared = cev & ~cn
            set_ = cn & ~cev
            ck.ob("C02.7", f"handoff-only-clears|{cev}->{cn}", set_ == 0 and (cleared & C["MASK"]) == 0, fn=handoff, site=ctx.site(bb), detail=f"hand-off CAS {cev}->{cn} sets bits or touches the lock field")
            oks = ok_edges_of(ctx, bb)
            ck.ob("C02.7", f"handoff-ok-edge|{cev}->{cn}", bool(oks), fn=handoff, site=ctx.site(bb), detail="no Ok edge for the hand-off CAS")
            if cleared & WWAIT:
                n_clear_w += 1
                wb = {b2 for b2, t in ctx.cfg.calls(lambda t: t.get("callee") == wwf)}
                for e in oks:
                    r = ctx.cfg.reachable_from(e.dst, avoid=wb)
                    bad = [rb for rb in ctx.cfg.return_blocks() if rb in r]
                    ck.ob("C02.7", f"cleared-WW-wakes-writer|{cev}->{cn}", bool(wb) and not bad, fn=handoff, site=ctx.site(bb),
                          detail="WRITERS_WAITING was cleared but a path returns without waking a writer (bump + wake)")
            if cleared & RWAIT:
                n_clear_r += 1
                rb_ = set()
                for b2, t in ctx.cfg.calls(lambda t: t.get("callee") in locks.WAKE_WRAPPERS):
                    args = ctx.args(b2)
                    tg = target_of(args[0])
                    if tg and tg[0] == "field" and (tg[1], tg[2]) == STATE and const_value(args[1]) == 2147483647:
                        rb_.add(b2)
                for e in oks:
                    r = ctx.cfg.reachable_from(e.dst, avoid=rb_)
                    bad = [x for x in ctx.cfg.return_blocks() if x in r]
                    ck.ob("C02.7", f"cleared-RW-wakes-all-readers|{cev}->{cn}", bool(rb_) and not bad, fn=handoff, site=ctx.site(bb),
                          detail="READERS_WAITING was cleared but a path returns without futex_wake(state, i32::MAX)")
    # A hand-off CAS whose expected value does not have BOTH waiting bits set can fail while the lock is still unlocked
    # (the other kind of waiter arrived in between): its failure edge must lead to a fresh look at the state (another
    # `state == <const>` test) before any return.  Only a CAS expecting both bits may treat failure as "got locked".
    both = RWAIT | WWAIT
    for (p, bb), (k, op, c) in cls.items():
        if p != handoff or not op.op.startswith("compare_exchange"):
            continue
        ce = const_values_deep(op.args[0], ctx.prov) or dominating_eq_const(ctx, bb, op.args[0])
        if ce is None:
            continue
        ces = ce if isinstance(ce, set) else {ce}
        if all((cev & both) == both for cev in ces):
            continue
        if all(cev == RWAIT for cev in ces):
            continue   # last stage (readers only): nothing else left to hand over to
        errs = err_edges_of(ctx, bb)
        # is_ok()/is_err() forms
        for sb in ctx.cfg.live_blocks():
            if ctx.cfg.term(sb)["k"] != "switch":
                continue
            for e in ctx.cfg.succ[sb]:
                for f in ctx.edge_facts(e):
                    if f[0] == "variant" and f[2] == "Err" and isinstance(f[1], tuple) and f[1][0] == "call" and f[1][3] == bb and e not in errs:
                        errs.append(e)
        cut = set()
        for sb in ctx.cfg.live_blocks():
            if ctx.cfg.term(sb)["k"] != "switch":
                continue
            for e in ctx.cfg.succ[sb]:
                for f in ctx.edge_facts(e):
                    if f[0] == "cmp" and f[1] in ("Eq", "Ne") and any(fold(z) is not None and fold(z) & both for z in (f[2], f[3])):
                        cut.add((e.src, e.dst))
        for e in errs:
            r = ctx.cfg.reachable_from(e.dst, avoid_edges=cut)
            bad = [x for x in ctx.cfg.return_blocks() if x in r]
            ck.ob("C02.7", f"failed-handoff-reexamines-state|{sorted(ces)}", not bad, fn=handoff, site=ctx.site(bb),
                  detail="this hand-off CAS can fail while the lock is still unlocked (the other kind of waiter set its bit in between); returning on that failure wakes nobody: every sleeper stays asleep (lost wake-up). The failure edge must re-examine the new state")
    ck.floor("C02.7", "CAS clearing WRITERS_WAITING", n_clear_w, 2)
    ck.floor("C02.7", "CAS clearing READERS_WAITING", n_clear_r, 1)
    # After a hand-off CAS that clears WRITERS_WAITING but leaves READERS_WAITING set, every path to `return` either
    # saw wake_writer() report a woken writer (true edge) or goes on to the reader-clearing CAS.  The CFG is path-insensitive,
    # so the test `state == READERS_WAITING` that follows `state = READERS_WAITING` is resolved here: when every assignment to the
    # state variable in the region after the wake stores READERS_WAITING, the false edge of that test is infeasible.
    rclear = [bb for (p, bb), (k, op, c) in cls.items() if p == handoff and op.op.startswith("compare_exchange") and const_value(op.args[1]) == 0
              and (RWAIT in (const_values_deep(op.args[0], ctx.prov) or set()) or dominating_eq_const(ctx, bb, op.args[0]) == RWAIT)]
    n_fb = 0
    for (p, bb), (k, op, c) in cls.items():
        if p != handoff or not op.op.startswith("compare_exchange"):
            continue
        cn = const_value(op.args[1])
        if cn is None:
            cn = eval_under_eq(ctx, bb, op.args[1])
        ce = const_values_deep(op.args[0], ctx.prov) or dominating_eq_const(ctx, bb, op.args[0])
        if cn is None or ce is None:
            continue
        ces = ce if isinstance(ce, set) else {ce}
        if not any((cev & WWAIT) and not (cn & WWAIT) and (cn & RWAIT) for cev in ces):
            continue
        n_fb += 1
        for e in ok_edges_of(ctx, bb):
            cut = set()
            region = ctx.cfg.reachable_from(e.dst)
            for sb in region:
                if ctx.cfg.term(sb)["k"] != "switch":
                    continue
                for e2 in ctx.cfg.succ[sb]:
                    for f in ctx.edge_facts(e2):
                        if f[0] == "truth" and f[2] is True and isinstance(f[1], tuple) and f[1][0] == "call" and f[1][1] == wwf:
                            cut.add((e2.src, e2.dst))
                        if f[0] == "cmp" and f[1] == "Ne":
                            for x, y in ((f[2], f[3]), (f[3], f[2])):
                                xs = strip_casts(x)
                                if fold(y) == RWAIT and isinstance(xs, tuple) and xs[0] == "var":
                                    defs_in_region = [(dbb, didx) for (dbb, didx) in ctx.prov.defs.get((xs[1], None), []) if dbb in region]
                                    reaching = [d for d in xs[3] if d[0] != "param" and d[0] in region]
                                    if reaching and len(reaching) == len([d for d in xs[3]]) - len([d for d in xs[3] if d[0] == "param" or d[0] not in region]) and all(
                                            (fold(ctx.prov.def_expr(d, (xs[1], None), 0, frozenset())) == RWAIT or eval_under_eq(ctx, d[0], ctx.prov.def_expr(d, (xs[1], None), 0, frozenset())) == RWAIT) for d in reaching):
                                        # only region-internal defs can reach here from the Ok edge
                                        cut.add((e2.src, e2.dst))
            r = ctx.cfg.reachable_from(e.dst, avoid=set(rclear), avoid_edges=cut)
            bad = [x for x in ctx.cfg.return_blocks() if x in r]
            ck.ob("C02.7", "no-writer-woken-falls-back-to-readers", bool(rclear) and not bad, fn=handoff, site=ctx.site(bb),
                  detail="after clearing WRITERS_WAITING with readers still waiting, a path returns although wake_writer did not report a woken writer and the readers were not woken")
    ck.floor("C02.7", "hand-off CAS leaving READERS_WAITING", n_fb, 1)


def eval_under_eq(ctx, bb, e, depth=0):
    """value of an expression over the state word at block bb, the word's value fixed by a dominating `state == K`"""
    e = strip_casts(e)
    v = fold(e)
    if v is not None or not isinstance(e, tuple) or depth > 8:
        return v
    if e[0] == "var":
        return dominating_eq_const(ctx, bb, e)
    if e[0] == "bin" and e[1] in ("BitAnd", "BitOr", "BitXor", "Add", "Sub"):
        a_, b_ = eval_under_eq(ctx, bb, e[2], depth + 1), eval_under_eq(ctx, bb, e[3], depth + 1)
        if a_ is None or b_ is None:
            return None
        return {"BitAnd": a_ & b_, "BitOr": a_ | b_, "BitXor": a_ ^ b_, "Add": (a_ + b_) & 0xFFFFFFFF, "Sub": (a_ - b_) & 0xFFFFFFFF}[e[1]]
    if e[0] == "un" and e[1] == "Not":
        a_ = eval_under_eq(ctx, bb, e[2], depth + 1)
        return None if a_ is None else (~a_) & 0xFFFFFFFF
    return None


def dominating_eq_const(ctx, bb, expr):
    """Constant c such that an edge `expr == c` dominates bb (state == WRITERS_WAITING idiom)."""
    X = canon(expr)
    for sb in ctx.cfg.live_blocks():
        if ctx.cfg.term(sb)["k"] != "switch":
            continue
        for e in ctx.cfg.succ[sb]:
            for f in ctx.edge_facts(e):
                if f[0] == "cmp" and f[1] == "Eq":
                    for x, y in ((f[2], f[3]), (f[3], f[2])):
                        if canon(x) == X and fold(y) is not None and ctx.cfg.edge_dominates(e, bb) and no_redef_between(ctx, e, bb, expr):
                            return fold(y)
    return None
