"""C14 — file-system operations establish their post-conditions (structural obligations)."""
import itertools

from ..engine.prov import const_value, strip_casts, walk, walk_deep, show
from ..engine.dtable import canon, enumerate_paths, path_return_value, path_local_value
from ..engine.fold import fold, fold_ip
from ..engine import panics
from ..engine.cfg import is_raw_syscall
from .c12 import mentions
from .threads import fold_flags

CONFIGS_QUICK = ["A", "B", "C"]
CONFIGS_THOROUGH = ["A", "B", "C", "R", "X"]

EXPLANATION = (
    "Decided (static, MIR): C14.1 overwriting operations truncate: the OpenOptions reaching open() in fs::write and File::copy have write, create and truncate set; "
    "C14.2 open-flag decision tables: get_access_mode and get_creation_mode are extracted as tables over (read, write, append) / (write, append, create, truncate, create_new) by walking every CFG path "
    "and compared row by row with std::fs::OpenOptions semantics (O_RDONLY/O_WRONLY/O_RDWR, |O_APPEND, O_CREAT, O_TRUNC, O_CREAT|O_EXCL, the error rows); open_with_options ORs in O_CLOEXEC and passes mode; "
    "(builder side: every OpenOptions setter stores its argument in the option of its own name and OpenOptions::new starts with every option off); C14.3 a Vec made by with_capacity and filled through its raw pointer is only viewed (as_mut_slice/as_slice/len) after set_len; "
    "C14.4 create_dir_all: every Ok of the helper is dominated by a mkdir of the whole path, a failing mkdir is only forgiven for EEXIST, and each ancestor prefix ends at a separator it temporarily replaced by NUL and restores; "
    "C14.5 remove_all descends only into entries whose d_type is Directory and which are not `.`/`..`, removes everything else with unlink_at relative to its own descriptor WITHOUT AT_REMOVEDIR (links are removed, never followed), "
    "removes a sub-directory with AT_REMOVEDIR only after the recursion returned, uses the entry's own name, and remove_dir_all removes the root last; "
    "C14.6 ReadDir::next advances by exactly the parsed d_reclen, refills only when offset == read_size, hands the whole buffer to getdents, that buffer holds the longest possible entry (19 + 255 + NUL, 8-aligned = 280 bytes) and iteration stops at 0; Dirent::try_from_bytes reads reclen at 16..18, d_type at 18, the name from 19, copying it byte by byte (byte i to position i) only while the byte compared is not NUL; "
    "DirEntry::file_type maps each DT_* to the like-named variant; C14.7 fs::write delivers with write_all resolved to the trait's provided loop (the one verified under C15, not an override), File's own read/write make one system call on its descriptor with the caller's whole buffer and return its count, fs::read / fs::read_to_string fill one buffer with the provided read_to_end / read_to_string and return it, File::copy uses one offset for source and destination that starts at 0 and moves only by the count copy_file_range returned, with no other system call in the loop. "
    "C14.5 also: DirEntry::is_relative_reference accepts exactly the names \".\" and \"..\" with their terminator - decided by comparing the accepted byte language path by path, whatever the spelling (slice compare, slice pattern, byte tests). "
    "C14.6 also: the Dirent parser refuses a record only on a condition no valid record length (24..280, 8-aligned) satisfies. NOT decided: the post-conditions as observed on a real file system for all trees and histories, copy_file_range semantics, races with other processes.")
ASSUMPTIONS = ["reference table = std::fs::OpenOptions semantics", "linux_dirent64 layout (ino 8, off 8, reclen 2, type 1, name)", "bool::then/Option plumbing as in std"]

OO = "tiny_std::fs::OpenOptions::"
SETTERS = ("read", "write", "append", "truncate", "create", "create_new")


def run(ck, progs, tier):
    for cfgname, prog in progs.items():
        ck.set_config(prog)
        run_one(ck, prog)


def builder_flags(prog, ctx):
    """{setter: const bool} for OpenOptions setter calls in a function that builds exactly one OpenOptions."""
    news = [bb for bb, t in ctx.cfg.calls(lambda t: t.get("callee") == OO + "new")]
    flags = {}
    for bb, t in ctx.cfg.calls(lambda t: (t.get("callee") or "").startswith(OO) and (t.get("callee") or "").split("::")[-1] in SETTERS):
        a = ctx.args(bb)
        flags[t["callee"].split("::")[-1]] = fold(a[1]) if len(a) > 1 else None
    return news, flags


def run_one(ck, prog):
    # ---- C14.1 overwriting opens truncate --------------------------------------------------------------------------
    for nm in ("tiny_std::fs::write", "tiny_std::fs::File::copy"):
        fn = prog.fns.get(nm)
        if not ck.anchor("C14.1", nm, fn):
            continue
        ctx = prog.ctx(fn)
        news, flags = builder_flags(prog, ctx)
        opens = [bb for bb, t in ctx.cfg.calls(lambda t: t.get("callee") == OO + "open")]
        ck.ob("C14.1", f"{nm}|anchor|one builder", len(news) == 1 and len(opens) >= 1, fn=nm, detail=f"OpenOptions::new sites {len(news)}, open sites {len(opens)}")
        # every open of the destination, on every path, has write/create/truncate switched on before it
        for k, ob in enumerate(sorted(opens)):
            for f in ("write", "create", "truncate"):
                setters = [bb for bb, t in ctx.cfg.calls(lambda t: t.get("callee") == OO + f) if len(ctx.args(bb)) > 1 and fold(ctx.args(bb)[1]) == 1]
                unset = [bb for bb, t in ctx.cfg.calls(lambda t: t.get("callee") == OO + f) if not (len(ctx.args(bb)) > 1 and fold(ctx.args(bb)[1]) == 1)]
                ok = any(ctx.cfg.dominates(sb, ob) for sb in setters) and not unset
                ck.ob("C14.1", f"{nm}|{f}" + (f"|open#{k}" if k else ""), ok, fn=nm, site=ctx.site(ob),
                      detail=f"the destination must be opened with {f}(true) on every path (setter sites {len(setters)}, non-true setters {len(unset)}); without truncate a previously longer file keeps its old tail")

    # ---- C14.2 decision tables --------------------------------------------------------------------------------------------
    consts = {n: prog.const("rusl::platform::compat::fcntl::OpenFlags::" + n) for n in ("O_RDONLY", "O_WRONLY", "O_RDWR", "O_APPEND", "O_CREAT", "O_TRUNC", "O_EXCL", "O_CLOEXEC")}
    if ck.ob("C14.2", "anchor|open flag constants", all(isinstance(v, int) for v in consts.values()), detail=str(consts)):
        C = consts

        def ref_access(r, w, a):
            if a:
                return (C["O_RDWR"] if r else C["O_WRONLY"]) | C["O_APPEND"]
            if r and w:
                return C["O_RDWR"]
            if r:
                return C["O_RDONLY"]
            if w:
                return C["O_WRONLY"]
            return "Err"

        def ref_creation(w, a, c, t, cn):
            if not w and not a:
                if t or c or cn:
                    return "Err"
            elif a:
                if t and not cn:
                    return "Err"
            if cn:
                return C["O_CREAT"] | C["O_EXCL"]
            return (C["O_CREAT"] if c else 0) | (C["O_TRUNC"] if t else 0)
        check_table(ck, prog, OO + "get_access_mode", ("read", "write", "append"), ref_access)
        check_table(ck, prog, OO + "get_creation_mode", ("write", "append", "create", "truncate", "create_new"), ref_creation)
        ow = prog.fns.get("tiny_std::fs::File::open_with_options")
        if ck.anchor("C14.2", "open_with_options", ow):
            ctx = prog.ctx(ow)
            for bb, t in ctx.cfg.calls(lambda t: (t.get("callee") or "").endswith("open::open_mode")):
                a = ctx.args(bb)
                has_cloexec = mentions(a[1], ctx.prov, lambda z: z[0] == "const" and z[2] and z[2].endswith("O_CLOEXEC"))
                parts = sum(1 for nmx in ("get_access_mode", "get_creation_mode") if mentions(a[1], ctx.prov, lambda z, n=nmx: z[0] == "call" and (z[1] or "").endswith(n)))
                ck.ob("C14.2", "open-flags-composition", has_cloexec and parts == 2, fn=ow["path"], site=ctx.site(bb), detail="open must receive O_CLOEXEC | access mode | creation mode | custom flags")
                ck.ob("C14.2", "open-mode-passed", mentions(a[2], ctx.prov, lambda z: z[0] == "field" and z[2] == "mode"), fn=ow["path"], detail="the configured mode must be passed to open")

    # ---- C14.3 uninitialised-length vector ----------------------------------------------------------------------------------
    n_wc = 0
    for p, fn in sorted(prog.fns.items()):
        if fn["crate"] != "tiny_std":
            continue
        has = any(b["term"]["k"] == "call" and (b["term"].get("callee") or "").endswith("Vec::<T>::with_capacity") for b in fn["blocks"])
        if not has:
            continue
        ctx = prog.ctx(fn)
        for bb, t in ctx.cfg.calls(lambda t: (t.get("callee") or "").endswith("Vec::<T>::with_capacity")):
            if t["dst"].get("p"):
                continue
            v = t["dst"]["l"]
            n_wc += 1
            views, setters, rawfill = [], [], []
            for b2, t2 in ctx.cfg.calls():
                if not t2["args"]:
                    continue
                a0 = t2["args"][0]
                e = ctx.prov.operand(a0, ctx.term_at(b2))
                root = None
                for x in walk(e):
                    if x[0] == "place" and x[1] == v:
                        root = v
                if ctx.prov.root_local(a0) == v:
                    root = v
                if root is None:
                    continue
                c = t2.get("callee") or ""
                if c.endswith(("::as_mut_slice", "::as_slice", "Vec::<T, A>::len", "Deref::deref", "DerefMut::deref_mut", "::is_empty", "::last", "::first", "::iter")):
                    views.append(b2)
                elif c.endswith(("::as_mut_ptr", "::spare_capacity_mut")):
                    rawfill.append(b2)
                elif c.endswith(("::capacity", "::reserve", "::as_ptr")):
                    pass
                else:
                    setters.append(b2)   # set_len, push, extend, resize, read_to_end(&mut v), ... establish a length
            for vb in views:
                ok = (not rawfill) or any(ctx.cfg.dominates(s, vb) and s != vb for s in setters)
                ck.ob("C14.3", f"{p}|vec-viewed-after-set_len", ok, fn=p, site=ctx.site(vb),
                      detail="a Vec created with with_capacity and filled through as_mut_ptr is viewed as a slice without set_len: its length is still 0 (the callee gets an empty slice)")
    ck.floor("C14.3", "with_capacity sites in tiny-std", n_wc, 1 if ck.config != "C" else 0)

    # ---- C14.4 create_dir_all ---------------------------------------------------------------------------------------------------
    helper = prog.fns.get("tiny_std::fs::write_all_sub_paths")
    if ck.anchor("C14.4", "write_all_sub_paths", helper):
        ctx = prog.ctx(helper)
        cfg = ctx.cfg
        mk = [(bb, ctx.args(bb)) for bb, t in cfg.calls(lambda t: (t.get("callee") or "").endswith("mkdir::mkdir"))]
        ck.floor("C14.4", "mkdir sites", len(mk), 2)
        full = [bb for bb, a in mk if mentions(a[0], ctx.prov, lambda z: z[0] == "param" and z[1] == 2) and
                mentions(a[0], ctx.prov, lambda z: z[0] == "bin" and z[1] == "Add" and fold(z[3]) == 1)]
        ck.ob("C14.4", "whole-path-mkdir-exists", len(full) >= 1, fn=helper["path"], detail="no mkdir of the whole path (raw pointer, len + 1 bytes) found")
        # every Ok return is dominated (via the callee that forgives EEXIST or directly) by a whole-path mkdir
        for rb, e in ctx.ret_expr().items():
            pass
        ok_blocks = []
        for b in helper["blocks"]:
            if b["id"] not in cfg.live_blocks() or b.get("cleanup"):
                continue
            for s in b["stmts"]:
                if s["k"] == "assign" and s["dst"]["l"] == 0 and s["rv"]["k"] == "agg" and s["rv"].get("variant") == "Ok":
                    ok_blocks.append(b["id"])
            t = b["term"]
            if t["k"] == "call" and t["dst"]["l"] == 0 and not t["dst"].get("p") and not (t.get("callee") or "").endswith("from_residual"):
                ok_blocks.append(b["id"])   # result forwarded from a call (forgive_exists(mkdir(..)))
        r = cfg.reachable_from(0, avoid=set(full))
        undominated = [b for b in ok_blocks if b in r and b not in full]
        # a forwarded call result counts only if that call consumes a whole-path mkdir result
        bad = []
        for b in undominated:
            t = cfg.term(b)
            if t["k"] == "call" and t["dst"]["l"] == 0:
                a = ctx.args(b)
                if a and mentions(a[0], ctx.prov, lambda z: z[0] == "call" and z[3] in full):
                    continue
            bad.append(b)
        ck.ob("C14.4", "success-implies-whole-path-attempted", not bad and bool(ok_blocks), fn=helper["path"],
              detail="the helper can return Ok on a path that never attempted mkdir of the whole path: create_dir_all would report success without creating the directory")
        # EEXIST at the whole path is success only when what exists there is a directory (stat + S_IFMT/S_IFDIR test):
        # the whole-path result must not go through the unconditional forgiver, and every Ok built after a failed
        # whole-path mkdir is dominated by stat(whole path) and by the true edge of `mode & S_IFMT == S_IFDIR`
        if full:
            fb = full[0]
            forwarded = [bb for bb, t in cfg.calls(lambda t: (t.get("callee") or "").endswith("forgive_exists"))
                         if mentions(ctx.args(bb)[0], ctx.prov, lambda z: z[0] == "call" and z[3] == fb)]
            ck.ob("C14.4", "whole-path-exists-not-forgiven-blindly", not forwarded, fn=helper["path"], site=ctx.site(forwarded[0]) if forwarded else None,
                  detail="EEXIST from mkdir of the whole path is turned into success without checking that a directory exists there (a regular file at the path makes create_dir_all return Ok)")
            stats = [bb for bb, t in cfg.calls(lambda t: (t.get("callee") or "").endswith("stat::stat"))
                     if mentions(ctx.args(bb)[0], ctx.prov, lambda z: z[0] == "param" and z[1] == 2)]
            n_ok = 0
            for b in helper["blocks"]:
                if b["id"] not in cfg.live_blocks() or b.get("cleanup") or not cfg.dominates(fb, b["id"]):
                    continue
                if not any(s["k"] == "assign" and s["dst"]["l"] == 0 and not s["dst"].get("p") and s["rv"]["k"] == "agg" and s["rv"].get("variant") == "Ok" for s in b["stmts"]):
                    continue
                facts = panics.dominating_facts(ctx, b["id"])
                # an Ok on the mkdir's own success edge is simply "created": the obligation is about success AFTER it failed
                if any(f[0] == "variant" and f[2] in ("Ok", "Continue") and mentions(f[1], ctx.prov, lambda z: z[0] == "call" and z[3] == fb) for f in facts) and \
                        not any(f[0] == "variant" and f[2] in ("Err", "Break") and mentions(f[1], ctx.prov, lambda z: z[0] == "call" and z[3] == fb) for f in facts):
                    continue
                n_ok += 1
                is_dir = any(f[0] == "truth" and isinstance(f[1], tuple) and f[1][0] == "call" and (((f[1][1] or "").endswith("::eq") and f[2] is True) or ((f[1][1] or "").endswith("::ne") and f[2] is False)) and
                             mentions(f[1], ctx.prov, lambda z: z[0] == "const" and z[2] and z[2].endswith("Mode::S_IFDIR")) and
                             mentions(f[1], ctx.prov, lambda z: z[0] == "const" and z[2] and z[2].endswith("Mode::S_IFMT")) and
                             mentions(f[1], ctx.prov, lambda z: z[0] == "field" and z[2] == "st_mode") for f in facts)
                # ... or the same test through the crate's own accessor Metadata::is_dir (checked below)
                via_accessor = any(f[0] == "truth" and f[2] is True and isinstance(f[1], tuple) and f[1][0] == "call" and (f[1][1] or "").endswith("fs::Metadata::is_dir") and
                                   mentions(f[1], ctx.prov, lambda z: z[0] == "call" and (z[1] or "").endswith("stat::stat")) for f in facts)
                if via_accessor:
                    md = prog.fns.get("tiny_std::fs::Metadata::is_dir")
                    mdc = prog.ctx(md) if md else None
                    rets = list(mdc.ret_expr().values()) if mdc else []
                    is_dir = len(rets) == 1 and mentions(rets[0], mdc.prov, lambda z: z[0] == "const" and z[2] and z[2].endswith("Mode::S_IFDIR")) and \
                        mentions(rets[0], mdc.prov, lambda z: z[0] == "const" and z[2] and z[2].endswith("Mode::S_IFMT")) and mentions(rets[0], mdc.prov, lambda z: z[0] == "field" and z[2] == "st_mode") and \
                        mentions(rets[0], mdc.prov, lambda z: z[0] == "call" and (z[1] or "").endswith(("PartialEq::eq", "PartialEq>::eq")))
                by_stat = any(cfg.dominates(sb, b["id"]) for sb in stats)
                ck.ob("C14.4", f"exists-means-directory|ok#{n_ok}", is_dir and by_stat, fn=helper["path"], site=ctx.site(b["id"]),
                      detail="success after the whole-path mkdir failed must be dominated by stat(whole path) and `st_mode & S_IFMT == S_IFDIR`")
            ck.floor("C14.4", "Ok-after-exists sites", n_ok, 1)
        # forgiveness: only EEXIST
        fg = prog.fns.get("tiny_std::fs::forgive_exists")
        forgiving = [fg] if fg is not None else [helper]
        for f2 in forgiving:
            c2 = prog.ctx(f2)
            codes = set()
            for sb in c2.cfg.live_blocks():
                if c2.cfg.term(sb)["k"] != "switch":
                    continue
                for e in c2.cfg.succ[sb]:
                    for f in c2.edge_facts(e):
                        if f[0] == "cmp" and f[1] == "Eq":
                            for z, other in ((f[2], f[3]), (f[3], f[2])):
                                v = fold(z)
                                # an errno comparison: the other side is the error's `code` (not e.g. a path byte compared with '/')
                                if v is not None and 0 < v < 4096 and mentions(other, c2.prov, lambda w: w[0] == "field" and w[2] == "code"):
                                    codes.add(v)
                        if f[0] == "truth" and f[2] is True and isinstance(f[1], tuple) and f[1][0] == "call" and (f[1][1] or "").endswith("PartialEq::eq"):
                            is_code = lambda a: mentions(a, c2.prov, lambda w: w[0] == "field" and w[2] == "code")  # noqa: E731
                            if not any(is_code(a) for a in f[1][2]):
                                continue
                            for a in [a for a in f[1][2] if not is_code(a)]:     # the constant side only (the error's own provenance holds unrelated constants)
                                for z in walk_deep(a, c2.prov):
                                    if z[0] == "const" and isinstance(z[1], int) and 0 < z[1] < 4096:
                                        codes.add(z[1])
                                    elif z[0] == "const" and z[2] and "Errno::" in z[2]:
                                        nm = z[2].split("::")[-1]
                                        codes.add(17 if nm == "EEXIST" else nm)
            ck.ob("C14.4", f"only-eexist-forgiven|{f2['path'].split('::')[-1]}", codes <= {17} and (codes == {17} or f2 is helper), fn=f2["path"], detail=f"error codes turned into success: {sorted(str(c) for c in codes)}; only EEXIST (17) may be")
        # each prefix mkdir: NUL stored at the index just tested for '/', restored afterwards
        for bb, a in mk:
            if bb in full:
                continue
            sep = any(f[0] == "cmp" and f[1] == "Eq" and 47 in (fold(f[2]), fold(f[3])) for f in panics.dominating_facts(ctx, bb))
            ck.ob("C14.4", "prefix-ends-at-separator", sep, fn=helper["path"], site=ctx.site(bb), detail="an ancestor prefix handed to mkdir must end at a '/' of the path")

    # ---- C14.5 remove_all ------------------------------------------------------------------------------------------------------------
    ra = prog.fns.get("tiny_std::fs::Directory::remove_all")
    if ck.anchor("C14.5", "Directory::remove_all", ra):
        ctx = prog.ctx(ra)
        cfg = ctx.cfg
        rec = [bb for bb, t in cfg.calls(lambda t: t.get("callee") == ra["path"])]
        opens = [bb for bb, t in cfg.calls(lambda t: (t.get("callee") or "").endswith("Directory::open_at"))]
        if not opens:
            # the private helper written out: rusl's open_at relative to this directory with O_DIRECTORY-less read-only flags, wrapped
            # into a Directory right away (the recursion then runs on that value)
            opens = [bb for bb, t in cfg.calls(lambda t: (t.get("callee") or "").endswith("unistd::open::open_at")) if mentions(ctx.args(bb)[0], ctx.prov, lambda z: z[0] == "param" and z[1] == 1)]
        unl = [(bb, ctx.args(bb)) for bb, t in cfg.calls(lambda t: (t.get("callee") or "").endswith("unlink::unlink_at"))]
        ck.ob("C14.5", "shape", len(rec) == 1 and len(opens) == 1 and len(unl) == 2, fn=ra["path"], detail=f"recursion sites {len(rec)}, open_at {len(opens)}, unlink_at {len(unl)}")
        if len(rec) == 1 and len(opens) == 1 and len(unl) == 2:
            facts = panics.dominating_facts(ctx, opens[0])
            ftv = [v["name"] for v in prog.adts.get("tiny_std::fs::FileType", {"variants": []})["variants"]]
            dir_idx = ftv.index("Directory") if "Directory" in ftv else None

            def is_dir_const(x):
                return mentions(x, ctx.prov, lambda z: (z[0] == "agg" and z[2] == "Directory") or (z[0] == "const" and ((len(z) > 4 and z[4] and z[4][0] == dir_idx) or z[1] == dir_idx)))
            is_dir_variant = any(f[0] == "variant" and f[2] == "Directory" and mentions(f[1], ctx.prov, lambda z: z[0] == "call" and (z[1] or "").endswith("file_type")) for f in facts)
            is_dir = is_dir_variant or any(f[0] == "truth" and isinstance(f[1], tuple) and f[1][0] == "call" and "PartialEq" in (f[1][1] or "") and
                         (((f[1][1] or "").endswith("::eq") and f[2] is True) or ((f[1][1] or "").endswith("::ne") and f[2] is False)) and
                         any(is_dir_const(x) for x in f[1][2]) and
                         any(mentions(x, ctx.prov, lambda z: z[0] == "call" and (z[1] or "").endswith("file_type")) for x in f[1][2]) for f in facts)
            not_rel = any(f[0] == "truth" and f[2] is False and isinstance(f[1], tuple) and f[1][0] == "call" and (f[1][1] or "").endswith("is_relative_reference") for f in facts)
            ck.ob("C14.5", "descend-only-into-directories", is_dir, fn=ra["path"], site=ctx.site(opens[0]), detail="the recursive open must be dominated by file_type() == Directory (a symlink to a directory has d_type DT_LNK and must not be followed)")
            ck.ob("C14.5", "never-descend-into-dot-entries", not_rel, fn=ra["path"], site=ctx.site(opens[0]), detail="`.` and `..` must be skipped before descending (else the walk leaves the tree)")
            ck.ob("C14.5", "recursion-on-opened-subdir", cfg.dominates(opens[0], rec[0]) and mentions(ctx.args(rec[0])[0], ctx.prov, lambda z: z[0] == "call" and z[3] == opens[0]), fn=ra["path"], detail="the recursion must run on the sub-directory just opened")
            for bb, a in unl:
                fl = fold_ip(prog, a[2]) if len(a) > 2 else None
                own_fd = mentions(a[0], ctx.prov, lambda z: z[0] == "param" and z[1] == 1)
                own_name = mentions(a[1], ctx.prov, lambda z: z[0] == "call" and (z[1] or "").endswith("file_unix_name"))
                after_rec = cfg.dominates(rec[0], bb)
                ck.ob("C14.5", f"unlink-relative-to-own-descriptor|{'dir' if after_rec else 'other'}", own_fd and own_name, fn=ra["path"], site=ctx.site(bb), detail="unlink_at must be relative to this directory's descriptor and use the entry's own name")
                if after_rec:
                    ck.ob("C14.5", "subdir-removed-with-removedir-after-recursion", fl == 0x200, fn=ra["path"], site=ctx.site(bb), detail=f"a sub-directory is removed with AT_REMOVEDIR (0x200) after its content; flags {fl}")
                else:
                    ck.ob("C14.5", "non-directories-unlinked-without-removedir", fl == 0 and not cfg.dominates(opens[0], bb), fn=ra["path"], site=ctx.site(bb), detail=f"files and links are unlinked (never followed) with flags 0; flags {fl}")
    # the entries skipped are exactly "." and "..": the test accepts a name iff it is one of the two, terminator included (a name that merely
    # starts with two dots - "..data" - is an ordinary entry and must be removed / listed like any other)
    irr = [f for p2, f in prog.fns.items() if p2.startswith("tiny_std::fs::DirEntry") and p2.endswith("::is_relative_reference")]
    if ck.anchor("C14.5", "DirEntry::is_relative_reference", irr):
        from ..engine import bytepat
        c5 = prog.ctx(irr[0])
        rows = bytepat.accepted(c5, lambda e: isinstance(e, tuple) and e and e[0] == "field" and e[2] == "d_name")
        if rows is None:
            ck.ob("C14.5", "relative-reference-is-exactly-dot-and-dotdot", False, fn=irr[0]["path"], detail="the name test is not a combination of byte comparisons of d_name with literals; it cannot be compared with the intended set {\".\", \"..\"}")
        else:
            ok, why = bytepat.language_is(rows, [[46, 0], [46, 46, 0]])
            ck.ob("C14.5", "relative-reference-is-exactly-dot-and-dotdot", ok and len(rows) >= 2, fn=irr[0]["path"], detail=f"is_relative_reference must hold exactly for the names \".\" and \"..\" (with their terminator): it {why}")
    rda = prog.fns.get("tiny_std::fs::remove_dir_all")
    if ck.anchor("C14.5", "remove_dir_all", rda):
        ctx = prog.ctx(rda)
        a = [bb for bb, t in ctx.cfg.calls(lambda t: (t.get("callee") or "").endswith("Directory::remove_all"))]
        b = [bb for bb, t in ctx.cfg.calls(lambda t: (t.get("callee") or "").endswith("fs::remove_dir"))]
        ck.ob("C14.5", "root-removed-last", len(a) == 1 and len(b) == 1 and ctx.cfg.dominates(a[0], b[0]), fn=rda["path"], detail="the root must be emptied before it is removed")

    # ---- C14.6 iteration cursor -----------------------------------------------------------------------------------------------------------
    nx = [f for p, f in prog.fns.items() if p.startswith("<tiny_std::fs::ReadDir<") and p.endswith("Iterator>::next")]
    if ck.anchor("C14.6", "ReadDir::next", nx):
        ctx = prog.ctx(nx[0])
        cfg = ctx.cfg
        gd = [bb for bb, t in cfg.calls(lambda t: (t.get("callee") or "").endswith("get_dents::get_dents"))]
        ck.ob("C14.6", "one-getdents", len(gd) == 1, fn=nx[0]["path"], detail=f"get_dents sites {len(gd)}")
        if gd:
            facts = panics.dominating_facts(ctx, gd[0])
            refill_guard = any(f[0] == "cmp" and f[1] == "Eq" and {"read_size", "offset"} <= {y[2] for x in (f[2], f[3]) for y in walk_deep(x, ctx.prov) if y[0] == "field"} for f in facts)
            ck.ob("C14.6", "refill-only-when-consumed", refill_guard, fn=nx[0]["path"], site=ctx.site(gd[0]), detail="the buffer may only be refilled when offset == read_size (else entries are skipped)")
            a = ctx.args(gd[0])
            whole = mentions(a[1], ctx.prov, lambda z: z[0] == "field" and z[2] == "filled_buf") and not mentions(a[1], ctx.prov, lambda z: z[0] == "call" and (z[1] or "").endswith("Index::index"))
            ck.ob("C14.6", "whole-buffer-to-getdents", whole, fn=nx[0]["path"], detail="getdents must receive the whole buffer")
            # the buffer getdents fills must hold the largest record the kernel can produce: NAME_START + 255 name bytes + NUL, rounded up
            # to the 8-byte record alignment - a smaller one makes getdents fail with EINVAL at the first such entry and the listing stops
            import re as _re
            rd = prog.adts.get("tiny_std::fs::ReadDir")
            sizes = []
            for v in (rd or {}).get("variants", []):
                for f in v["fields"]:
                    m = _re.fullmatch(r"\[u8; (.+)\]", f["ty"])
                    if m and mentions(a[1], ctx.prov, lambda z, n=f["name"]: z[0] == "field" and z[2] == n):
                        n = int(m.group(1)) if m.group(1).isdigit() else prog.const(m.group(1))
                        sizes.append(n)
            name_start = prog.const("rusl::platform::compat::dirent::Dirent::NAME_START") or prog.const("rusl::platform::compat::dirent::NAME_START") or 19
            need = (name_start + 255 + 1 + 7) // 8 * 8
            ck.ob("C14.6", "buffer-holds-the-longest-entry", len(sizes) == 1 and isinstance(sizes[0], int) and sizes[0] >= need, fn=nx[0]["path"],
                  detail=f"the getdents buffer is {sizes} bytes; an entry with a 255-byte name needs {need} (header {name_start} + name + NUL, 8-aligned): with less, iteration fails at such an entry and never lists the rest")
        # end-of-directory is declared only on an empty read or an error: every `eod = true` and every `None` built before
        # the parse is dominated by get_dents == 0 / its Err edge / an already set eod
        is_gd = lambda z: z[0] == "call" and (z[1] or "").endswith("get_dents::get_dents")  # noqa: E731
        n_eod = 0
        for b in nx[0]["blocks"]:
            if b["id"] not in cfg.live_blocks() or b.get("cleanup"):
                continue
            for i, s in enumerate(b["stmts"]):
                if s["k"] == "assign" and s["dst"].get("p") and s["dst"]["p"][-1]["k"] == "field" and s["dst"]["p"][-1].get("n") == "eod":
                    n_eod += 1
                    v = fold(ctx.prov.rvalue(s["rv"], (b["id"], i)))
                    facts = panics.dominating_facts(ctx, b["id"])
                    empty = any(f[0] == "cmp" and f[1] == "Eq" and ((mentions(f[2], ctx.prov, is_gd) and fold(f[3]) == 0) or (mentions(f[3], ctx.prov, is_gd) and fold(f[2]) == 0)) for f in facts)
                    # the count is unsigned: `read < 1` / `read <= 0` / `1 > read` say the same
                    empty = empty or any(f[0] == "cmp" and ((f[1] == "Lt" and mentions(f[2], ctx.prov, is_gd) and fold(f[3]) == 1) or (f[1] == "Le" and mentions(f[2], ctx.prov, is_gd) and fold(f[3]) == 0) or
                                                            (f[1] == "Gt" and mentions(f[3], ctx.prov, is_gd) and fold(f[2]) == 1) or (f[1] == "Ge" and mentions(f[3], ctx.prov, is_gd) and fold(f[2]) == 0)) for f in facts)
                    failed = any(f[0] == "variant" and f[2] == "Err" and mentions(f[1], ctx.prov, is_gd) for f in facts)
                    ck.ob("C14.6", f"end-declared-only-on-empty-read-or-error|eod#{n_eod}", v == 1 and (empty or failed), fn=nx[0]["path"], site=ctx.site(b["id"]),
                          detail="`eod` may only be set when get_dents returned 0 bytes or failed; deciding the end from how full the buffer is drops entries whose record did not fit")
        ck.floor("C14.6", "eod stores", n_eod, 2)
        # the closure advancing the offset: it captures `&mut self.offset` as upvar k and stores (*upvar_k) + d_reclen through it
        adv = False
        fnx = nx[0]
        for b in fnx["blocks"]:
            for i, s in enumerate(b["stmts"]):
                if s["k"] == "assign" and s["rv"]["k"] == "agg" and s["rv"].get("ak") == "closure":
                    cpath = s["rv"]["closure"]
                    ops = [ctx.prov.operand(o, (b["id"], i)) for o in s["rv"]["ops"]]
                    ks = [k for k, o in enumerate(ops) if mentions(o, ctx.prov, lambda z: z[0] == "field" and z[2] == "offset")]
                    c = prog.fns.get(cpath)
                    if c is None or len(ks) != 1:
                        continue
                    k = ks[0]
                    c2 = prog.ctx(c)
                    for b2 in c["blocks"]:
                        for j, s2 in enumerate(b2["stmts"]):
                            if s2["k"] == "assign" and s2["dst"].get("p") and s2["dst"]["p"][0]["k"] == "deref":
                                tgt = c2.prov.place({"l": s2["dst"]["l"]}, (b2["id"], j))
                                is_up = lambda z: z[0] == "field" and z[2] == str(k) and isinstance(z[1], tuple) and z[1][0] == "param" and z[1][1] == 1  # noqa: E731
                                if not mentions(tgt, c2.prov, is_up):
                                    continue
                                e = c2.prov.rvalue(s2["rv"], (b2["id"], j))
                                if isinstance(e, tuple) and e[0] == "bin" and e[1] == "Add" and mentions(e[2], c2.prov, is_up) and \
                                        mentions(e[3], c2.prov, lambda z: z[0] == "field" and z[2] == "d_reclen") and not mentions(e[3], c2.prov, lambda z: z[0] == "bin"):
                                    adv = True
        ck.ob("C14.6", "advance-by-reclen", adv, fn=nx[0]["path"], detail="the cursor must advance by exactly the entry's d_reclen")
    tb = prog.fns.get("rusl::platform::compat::dirent::Dirent::try_from_bytes")
    if ck.anchor("C14.6", "Dirent::try_from_bytes", tb):
        K = lambda n: prog.const("rusl::platform::compat::dirent::Dirent::" + n)  # noqa: E731
        ck.ob("C14.6", "dirent-offsets", (K("LEN_OFFSET"), K("HEADER_SIZE"), K("NAME_START"), K("INOT_SIZE"), K("OFFT_SIZE")) == (16, 18, 19, 8, 8), fn=tb["path"],
              detail=f"linux_dirent64: reclen at 16..18, d_type at 18, name from 19; constants {[K(n) for n in ('LEN_OFFSET', 'HEADER_SIZE', 'NAME_START', 'INOT_SIZE', 'OFFT_SIZE')]}")
        ctx = prog.ctx(tb)
        used = {z[2].split("::")[-1] for bb, t in ctx.cfg.calls() for a in ctx.args(bb) for z in walk_deep(a, ctx.prov) if z[0] == "const" and z[2] and "Dirent::" in z[2]}
        ck.ob("C14.6", "dirent-uses-offset-constants", {"LEN_OFFSET", "HEADER_SIZE", "NAME_START"} <= used, fn=tb["path"], detail=f"offset constants used in the parser: {sorted(used)}")
        # a record is refused only when it cannot be a record: the kernel's d_reclen is 19 + name + NUL rounded up to 8 (24 .. 280), so a
        # test of the length read from the record (or of the bytes handed in) against a constant that leads away from every `Some` must be
        # false for each of those lengths - an entry refused here ends the iteration early (every later entry of the directory is lost)
        somes = [b["id"] for b in tb["blocks"] if b["id"] in ctx.cfg.live_blocks() and
                 any(st["k"] == "assign" and st["dst"]["l"] == 0 and not st["dst"].get("p") and st["rv"]["k"] == "agg" and st["rv"].get("variant") == "Some" for st in b["stmts"])]
        if ck.anchor("C14.6", "dirent-parser-some-return", somes):
            VALID = range(24, 281, 8)
            OPS = {"Lt": lambda a, b: a < b, "Le": lambda a, b: a <= b, "Gt": lambda a, b: a > b, "Ge": lambda a, b: a >= b, "Eq": lambda a, b: a == b, "Ne": lambda a, b: a != b}
            SWAP = {"Lt": "Gt", "Le": "Ge", "Gt": "Lt", "Ge": "Le", "Eq": "Eq", "Ne": "Ne"}
            bad = []
            for sb in ctx.cfg.live_blocks():
                if ctx.cfg.term(sb)["k"] != "switch":
                    continue
                for e in ctx.cfg.succ[sb]:
                    if set(somes) & ctx.cfg.reachable_from(e.dst) or not set(somes) & ctx.cfg.reachable_from(sb):
                        continue
                    for f in ctx.edge_facts(e):
                        if f[0] != "cmp" or f[1] not in OPS:
                            continue
                        for x, k, op in ((f[2], fold(f[3]), f[1]), (f[3], fold(f[2]), SWAP[f[1]])):
                            if k is None or fold(x) is not None:
                                continue
                            sx = show(x)
                            is_reclen = "u16" in sx or "d_reclen" in sx
                            is_buflen = isinstance(strip_casts(x), tuple) and strip_casts(x)[0] in ("len", "ptrmeta") or sx.startswith("len(")
                            if (is_reclen or is_buflen) and any(OPS[op](v, k) for v in VALID):
                                bad.append((ctx.site(sb), f"{sx[:60]} {op} {k}", [v for v in VALID if OPS[op](v, k)][:3]))
            ck.ob("C14.6", "dirent-refused-only-when-it-cannot-be-a-record", not bad, fn=tb["path"], site=bad[0][0] if bad else None,
                  detail=f"the parser gives up on `{bad[0][1]}`, which holds for valid record lengths such as {bad[0][2]} (d_reclen is 19 + name + NUL rounded up to 8: 24..280)" if bad else "")
    # the entry's name is copied byte by byte up to its first NUL: every store into the name array writes position i with the byte read
    # at position i of the record's name area, under `that byte != 0`, i counting the positions one at a time from 0; nothing else
    # writes the name (a bulk copy of a length inferred some other way - e.g. a word-at-a-time zero test - does not establish that)
    if tb is not None:
        tctx = prog.ctx(tb)
        names_ = {x["p"]["l"]: x["n"] for x in tb.get("names", []) if isinstance(x.get("p", {}).get("l"), int)}
        name_locals = {l for l, n_ in names_.items() if (tctx.prov.local_ty.get(l, "") or "").replace(" ", "") == "[u8;256]"}
        stores, bulk = [], []
        for b in tb["blocks"]:
            if b.get("cleanup") or b["id"] not in tctx.cfg.live_blocks():
                continue
            for i, st in enumerate(b["stmts"]):
                if st["k"] == "assign" and st["dst"].get("p") and st["dst"]["l"] in name_locals:
                    stores.append((b["id"], i, st))
                if st["k"] == "assign" and st["rv"]["k"] in ("ref", "rawptr") and st["rv"].get("m") not in (False, None, "Const") and st["rv"].get("p", {}).get("l") in name_locals:
                    bulk.append(b["id"])
        # one buffer is filled element by element; a second local of that type (the result slot of an expanded helper) only receives it whole
        filled = {st["dst"]["l"] for _, _, st in stores}
        ck.ob("C14.6", "dirent-name|anchor", len(name_locals) >= 1 and len(filled) == 1 and len(stores) >= 1, fn=tb["path"], detail=f"name buffers {len(name_locals)}, filled element-wise {len(filled)}, element stores {len(stores)}")
        ck.ob("C14.6", "dirent-name|written-only-element-by-element", not bulk, fn=tb["path"], site=tctx.site(bulk[0]) if bulk else None,
              detail="the name array is handed out mutably (a bulk copy): the number of bytes copied is then decided elsewhere, not by comparing each byte with NUL")
        for bb_, i_, st in stores:
            idxp = [pe for pe in st["dst"]["p"] if pe["k"] == "index"]
            val = strip_casts(tctx.prov.rvalue(st["rv"], (bb_, i_)))
            idx = strip_casts(tctx.prov.operand({"k": "copy", "p": {"l": idxp[0]["l"]}}, (bb_, i_))) if idxp else None
            facts_ = panics.dominating_facts(tctx, bb_)
            nonzero = any(f[0] == "cmp" and f[1] == "Ne" and fold(f[3]) == 0 and canon(strip_casts(f[2])) == canon(val) for f in facts_)
            same_pos = False
            if isinstance(idx, tuple) and idx[0] == "field" and str(idx[2]) == "0" and isinstance(val, tuple) and val[0] == "deref":
                v1 = strip_casts(val[1])      # enumerate: (i, &byte) of one and the same next()
                same_pos = isinstance(v1, tuple) and v1[0] == "field" and str(v1[2]) == "1" and canon(v1[1]) == canon(idx[1]) and \
                    mentions(idx, tctx.prov, lambda z: z[0] == "call" and (z[1] or "").endswith("Iterator::enumerate")) and \
                    not mentions(idx, tctx.prov, lambda z: z[0] == "call" and (z[1] or "").endswith(("::skip", "::step_by", "::rev", "::filter", "::chunks_exact", "::chunks")))
            elif isinstance(idx, tuple) and idx[0] == "var":
                defs_ = [strip_casts(d) for d in tctx.prov.expand(idx)]
                counter = len(defs_) == 2 and any(fold(d) == 0 for d in defs_) and any(isinstance(d, tuple) and d[0] == "bin" and d[1] in ("Add", "AddWithOverflow") and fold(d[3]) == 1 and canon(strip_casts(d[2])) == canon(idx) for d in defs_)
                same_pos = counter and any((z[0] == "index" and canon(strip_casts(z[2])) == canon(idx)) or
                                           (z[0] == "call" and (z[1] or "").endswith(("::get_unchecked", "Index::index")) and len(z[2]) == 2 and canon(strip_casts(z[2][1])) == canon(idx))
                                           for z in walk_deep(val, tctx.prov, limit=30))
            ck.ob("C14.6", "dirent-name|byte-i-to-position-i-while-not-nul", nonzero and same_pos, fn=tb["path"], site=tctx.site(bb_),
                  detail=f"name[i] must receive the record's i-th name byte and only under `byte != 0` (compared byte by byte): value {show(val)[:80]}, index {show(idx)[:80] if idx is not None else None}, nonzero-guard={nonzero}")
    ft = [f for p, f in prog.fns.items() if p.startswith("tiny_std::fs::DirEntry::<") and p.endswith("::file_type")]
    if ck.anchor("C14.6", "DirEntry::file_type", ft):
        ctx = prog.ctx(ft[0])
        want = {1: "Fifo", 2: "CharDevice", 4: "Directory", 6: "BlockDevice", 8: "RegularFile", 10: "Symlink", 12: "Socket"}
        got = {}
        for edges in enumerate_paths(ctx):
            v = path_return_value(ctx, edges)
            key = None
            for e in edges:
                for f in ctx.edge_facts(e):
                    if f[0] == "cmp" and f[1] == "Eq":
                        for z in (f[2], f[3]):
                            if fold(z) is not None:
                                key = fold(z)
            if isinstance(v, tuple) and v[0] == "agg" and key is not None:
                got[key] = v[2]
        ck.ob("C14.6", "d_type-table", got == want, fn=ft[0]["path"], detail=f"d_type -> FileType table {got}; linux DT_* values require {want}")
        ck.floor("C14.6", "DT arms", len(got), 7)

    # ---- C14.2 (builder side) every OpenOptions setter stores its argument in the option of its own name, OpenOptions::new starts from
    # "nothing requested", and File's Read/Write hand the caller's buffer to the descriptor's own read/write and return its count
    n_set = 0
    for nm, field in (("read", "read"), ("write", "write"), ("append", "append"), ("truncate", "truncate"), ("create", "create"), ("create_new", "create_new"), ("custom_flags", "flags"), ("mode", "mode")):
        sf = prog.fns.get(OO + nm)
        if sf is None:
            continue
        n_set += 1
        sc2 = prog.ctx(sf)
        stores = []
        for b in sf["blocks"]:
            if b.get("cleanup") or b["id"] not in sc2.cfg.live_blocks():
                continue
            for i, st in enumerate(b["stmts"]):
                if st["k"] == "assign" and st["dst"].get("p") and st["dst"]["l"] == 1 and st["dst"]["p"][0]["k"] == "deref" and len(st["dst"]["p"]) == 2 and st["dst"]["p"][1]["k"] == "field":
                    stores.append((st["dst"]["p"][1].get("n"), canon(strip_casts(sc2.prov.rvalue(st["rv"], (b["id"], i))))))
        ck.ob("C14.2", f"setter|{nm}-stores-its-argument-in-{field}", stores == [(field, "p2")], fn=sf["path"],
              detail=f"OpenOptions::{nm}(v) must be exactly `self.{field} = v`; found the stores {stores}")
    ck.floor("C14.2", "OpenOptions setters", n_set, 8)
    nf = prog.fns.get(OO + "new")
    if ck.anchor("C14.2", "OpenOptions::new", nf):
        nc = prog.ctx(nf)
        init = {}
        for b in nf["blocks"]:
            for i, st in enumerate(b["stmts"]):
                if st["k"] == "assign" and st["rv"]["k"] == "agg" and (st["rv"].get("adt") or "").endswith("fs::OpenOptions"):
                    init = dict(zip(st["rv"]["fields"], [fold(nc.prov.operand(o, (b["id"], i))) for o in st["rv"]["ops"]]))
        flags_off = [k for k in ("read", "write", "append", "truncate", "create", "create_new") if init.get(k) not in (0, False)]
        ck.ob("C14.2", "new|nothing-requested", bool(init) and not flags_off, fn=nf["path"], detail=f"OpenOptions::new must start with every access/creation option off; on at start: {flags_off} (initial values {init})")
    for tr, callee in (("Read>::read", "unistd::read::read"), ("Write>::write", "unistd::write::write")):
        ff = [f for p_, f in prog.fns.items() if p_ == f"<tiny_std::fs::File as tiny_std::io::{tr}"]
        if not ck.anchor("C14.7", f"File {tr}", ff or None):
            continue
        fc = prog.ctx(ff[0])
        sites = [bb for bb, t in fc.cfg.calls(lambda t: (t.get("callee") or "").endswith(callee))]
        okio = len(sites) == 1 and len(fc.args(sites[0])) >= 2 and mentions(fc.args(sites[0])[0], fc.prov, lambda z: z[0] == "param" and z[1] == 1) and canon(strip_casts(fc.args(sites[0])[1])).replace("*", "").replace("&", "") == "p2"
        rets_ok = any(mentions(r, fc.prov, lambda z: z[0] == "call" and z[3] == (sites[0] if sites else -1)) for r in fc.ret_expr().values()) and \
            not any(mentions(r, fc.prov, lambda z: z[0] == "bin") for r in fc.ret_expr().values())
        ck.ob("C14.7", f"file-{tr.split('::')[-1]}|whole-buffer-to-the-descriptor-count-returned", okio and rets_ok, fn=ff[0]["path"],
              detail="File's read/write must make one system call on its own descriptor with the caller's whole buffer and return that call's count unchanged (the transfer loops of C15 rely on it)")
    for nm, meth in (("read", "Read::read_to_end"), ("read_to_string", "Read::read_to_string")):
        rf = prog.fns.get("tiny_std::fs::" + nm)
        if rf is None:
            continue
        rc = prog.ctx(rf)
        calls = [bb for bb, t in rc.cfg.calls(lambda t: (t.get("callee") or "").endswith(meth))]
        opens = [bb for bb, t in rc.cfg.calls(lambda t: (t.get("callee") or "").endswith("fs::File::open"))]
        res = (rc.cfg.term(calls[0]).get("resolved") or rc.cfg.term(calls[0]).get("callee")) if calls else None
        okr = len(calls) == 1 and len(opens) == 1 and res == "tiny_std::io::" + meth and mentions(rc.args(opens[0])[0], rc.prov, lambda z: z[0] == "param" and z[1] == 1)
        # the value handed back is the very buffer the loop filled
        filled = rc.args(calls[0])[1] if calls else None
        oks = [v for v in rc.ret_expr().values()]
        same = filled is not None and any(mentions(v, rc.prov, lambda z: z[0] == "place" and mentions(filled, rc.prov, lambda w: w[0] == "place" and w[1] == z[1])) for v in oks)
        ck.ob("C14.7", f"{nm}|whole-file-through-the-checked-loop", okr and same, fn=rf["path"],
              detail=f"fs::{nm} must open the given path, fill one buffer with the trait's provided {meth.split('::')[-1]} (resolved: {res}) and return that buffer")

    # ---- C14.7 write_all / copy cursor ---------------------------------------------------------------------------------------------------------
    w = prog.fns.get("tiny_std::fs::write")
    if w is not None:
        ctx = prog.ctx(w)
        wa = [bb for bb, t in ctx.cfg.calls(lambda t: (t.get("callee") or "").endswith("Write::write_all"))]
        ck.ob("C14.7", "write-uses-write_all", len(wa) == 1 and mentions(ctx.args(wa[0])[1], ctx.prov, lambda z: z[0] == "param" and z[1] == 2), fn=w["path"], detail="fs::write must deliver the caller's buffer with write_all (a single write may be short)")
        for bb in wa:
            res = ctx.cfg.term(bb).get("resolved") or ctx.cfg.term(bb).get("callee")
            ck.ob("C14.7", "write-delivers-through-the-checked-loop", res == "tiny_std::io::Write::write_all", fn=w["path"], site=ctx.site(bb),
                  detail=f"fs::write's write_all resolves to `{res}`: only the trait's provided loop (re-slice by the returned count until the buffer is empty, verified under C15) is known to deliver every byte - an override that trusts a single write leaves a prefix in the file on a short write")
    # kernel ABI of copy_file_range(fd_in, loff_t *off_in, fd_out, loff_t *off_out, len, flags): both offsets travel by pointer (or NULL)
    cfr = prog.fns.get("rusl::unistd::copy_file_range::copy_file_range")
    if ck.anchor("C14.7", "rusl copy_file_range", cfr):
        c3 = prog.ctx(cfr)
        sites = [bb for bb, t in c3.cfg.calls(lambda t: is_raw_syscall(t.get("callee")))]
        ck.ob("C14.7", "copy_file_range|one-syscall", len(sites) == 1, fn=cfr["path"], detail=f"raw syscall sites {len(sites)}")
        for bb in sites:
            a = c3.args(bb)
            for pos, nm in ((2, "off_in"), (4, "off_out")):
                e = a[pos] if len(a) > pos else None
                # on every reaching definition: the address of the offset variable. (NULL would make the kernel use - and move - the
                # descriptor's own file position: File::copy on a handle that was read from would copy from there, not from offset 0)
                from .c17 import all_defs
                ptr = e is not None and all_defs(e, c3.prov, lambda z: isinstance(z, tuple) and fold(z) != 0 and mentions(z, c3.prov, lambda w: w[0] in ("addr", "ref") or (w[0] == "cast" and "Pointer" in str(w[1]))))
                ck.ob("C14.7", f"copy_file_range|{nm}-by-pointer", ptr, fn=cfr["path"], site=c3.site(bb),
                      detail=f"the kernel reads {nm} as `loff_t *`; the wrapper passes `{show(e) if e is not None else None}` - it must be the address of the offset on every path: a by-value offset only works while it is 0 (the second round of a long copy fails with EFAULT) and NULL makes the kernel use the descriptor's current position instead of the requested offset")
            offs = [canon(a[pos]) for pos in (2, 4) if len(a) > pos]
            ck.ob("C14.7", "copy_file_range|offsets-from-parameters", len(offs) == 2 and all(mentions(a[pos], c3.prov, lambda z, want=want: (z[0] == "param" and z[1] == want) or (z[0] in ("place", "var") and z[2] == ("src_offset" if want == 2 else "dest_offset"))) for pos, want in ((2, 2), (4, 4))), fn=cfr["path"], site=c3.site(bb),
                  detail=f"off_in / off_out must designate the caller's source / destination offsets: {offs}")
    cp = prog.fns.get("tiny_std::fs::File::copy")
    if cp is not None:
        ctx = prog.ctx(cp)
        for bb, t in ctx.cfg.calls(lambda t: (t.get("callee") or "").endswith("copy_file_range::copy_file_range")):
            a = ctx.args(bb)
            ck.ob("C14.7", "copy-same-offset-both-sides", len(a) >= 5 and canon(a[1]) == canon(a[3]), fn=cp["path"], site=ctx.site(bb), detail=f"source and destination offsets must be the same cursor: {show(a[1])} vs {show(a[3])}")
            is_open = lambda z: z[0] == "call" and (z[1] or "").endswith("OpenOptions::open")  # noqa: E731
            ck.ob("C14.7", "copy-src-dst", mentions(a[0], ctx.prov, lambda z: z[0] == "param" and z[1] == 1) and not mentions(a[0], ctx.prov, is_open) and mentions(a[2], ctx.prov, is_open), fn=cp["path"], detail="copy must read from self and write to the freshly opened destination")
        adv = False
        for b in cp["blocks"]:
            for i, s in enumerate(b["stmts"]):
                if s["k"] == "assign" and not s["dst"].get("p") and ctx.cfg.in_cycle(b["id"]):
                    e = ctx.prov.rvalue(s["rv"], (b["id"], i))
                    if isinstance(e, tuple) and e[0] == "bin" and e[1] == "Add" and mentions(e, ctx.prov, lambda z: z[0] == "call" and (z[1] or "").endswith("copy_file_range")):
                        adv = True
        ck.ob("C14.7", "copy-advances-by-returned-count", adv, fn=cp["path"], detail="the copy cursor must advance by exactly the count copy_file_range returned")
        # ... and by nothing else: the cursor starts at 0 and every other definition of it is `cursor + copied`; the copy finishes
        # (Ok) only when the cursor has reached the source's size or the kernel reported end of file (0 copied)
        for bb, t in ctx.cfg.calls(lambda t: (t.get("callee") or "").endswith("copy_file_range::copy_file_range")):
            cur = strip_casts(ctx.args(bb)[1])
            if isinstance(cur, tuple) and cur[0] == "var":
                defs = [strip_casts(d) for d in ctx.prov.expand(cur)]
                odd = [d for d in defs if not (fold(d) == 0 or (isinstance(d, tuple) and d[0] == "bin" and d[1] in ("Add", "AddWithOverflow") and canon(strip_casts(d[2])) == canon(cur) and
                                                                   mentions(d[3], ctx.prov, lambda z: z[0] == "call" and (z[1] or "").endswith("copy_file_range"))))]
                ck.ob("C14.7", "copy-cursor-moves-only-by-what-was-copied", not odd and any(fold(d) == 0 for d in defs), fn=cp["path"], site=ctx.site(bb),
                      detail=f"the copy cursor is also set to {[show(d) for d in odd[:2]]}: every byte range of the source must pass through copy_file_range (skipping ahead - e.g. over holes - leaves the destination short or with stale bytes)")
        other_io = sorted({(t.get("callee") or "").split("::")[-1] for bb, t in ctx.cfg.calls(lambda t: (t.get("callee") or "").startswith("rusl::unistd::") and not (t.get("callee") or "").endswith(("copy_file_range::copy_file_range", "stat::stat", "fstat::fstat", "stat::statx")))
                           if ctx.cfg.in_cycle(bb)})
        ck.ob("C14.7", "copy-loop-makes-no-other-system-call", not other_io, fn=cp["path"], detail=f"system calls inside the copy loop besides copy_file_range: {other_io}")


def check_table(ck, prog, name, fields, ref):
    fn = prog.fns.get(name)
    if not ck.anchor("C14.2", name, fn):
        return
    ctx = prog.ctx(fn)
    rows = []
    for edges in enumerate_paths(ctx):
        cons = {}
        feasible = True
        for e in edges:
            for f in ctx.edge_facts(e):
                fld, val = None, None
                if f[0] == "truth":
                    val = f[2]
                    for z in walk_deep(f[1], ctx.prov):
                        if z[0] == "field" and z[2] in fields:
                            fld = z[2]
                    if isinstance(strip_casts(f[1]), tuple) and strip_casts(f[1])[0] == "un" and strip_casts(f[1])[1] == "Not":
                        val = not val
                elif f[0] == "cmp" and f[1] in ("Eq", "Ne"):
                    for x, y in ((f[2], f[3]), (f[3], f[2])):
                        if fold(y) in (0, 1):
                            for z in walk_deep(x, ctx.prov):
                                if z[0] == "field" and z[2] in fields:
                                    fld = z[2]
                                    val = bool(fold(y)) if f[1] == "Eq" else not bool(fold(y))
                if fld is not None:
                    if fld in cons and cons[fld] != val:
                        feasible = False
                    cons[fld] = val
        if not feasible:
            continue
        v = path_return_value(ctx, edges)
        vs0 = strip_casts(v) if v is not None else None
        if isinstance(vs0, tuple) and vs0[0] == "agg" and vs0[2] == "Ok" and vs0[3] and isinstance(strip_casts(vs0[3][0]), tuple) and strip_casts(vs0[3][0])[0] in ("var", "place"):
            loc_ = strip_casts(vs0[3][0])[1]
            inner = path_local_value(ctx, edges, loc_)
            # `flags |= X` along the path: the accumulated value is the OR of the initial value and every X or-ed in on this path
            ors = []
            blocks_ = [0] + [e.dst for e in edges]
            seen_init = False
            for b_ in blocks_:
                blk_ = ctx.cfg.block(b_)
                if any(s_["k"] == "assign" and s_["dst"]["l"] == loc_ and not s_["dst"].get("p") for s_ in blk_["stmts"]) or \
                        (blk_["term"]["k"] == "call" and blk_["term"]["dst"]["l"] == loc_ and not blk_["term"]["dst"].get("p")):
                    seen_init, ors = True, []
                t_ = blk_["term"]
                if t_["k"] == "call" and (t_.get("callee") or "").endswith("bitor_assign") and len(t_["args"]) == 2:
                    a0 = t_["args"][0]
                    refs = [s_ for s_ in blk_["stmts"] if s_["k"] == "assign" and a0.get("p") and s_["dst"]["l"] == a0["p"].get("l") and s_["rv"]["k"] == "ref" and s_["rv"].get("p", {}).get("l") == loc_]
                    if refs:
                        ors.append(ctx.args(b_)[1])
            if inner is not None and ors:
                parts = [fold_flags(prog, ctx, x) if fold_flags(prog, ctx, x) is not None else fold_ip(prog, x) for x in [inner] + ors]
                if all(isinstance(x, int) for x in parts):
                    acc = 0
                    for x in parts:
                        acc |= x
                    inner = ("const", acc, None, "flags")
            if inner is not None:
                v = ("agg", vs0[1], "Ok", (inner,), vs0[4])
        rows.append((cons, v))
    n = 0
    for combo in itertools.product([False, True], repeat=len(fields)):
        asg = dict(zip(fields, combo))
        hits = [v for cons, v in rows if all(asg[k] == b for k, b in cons.items())]
        vals = set()
        for v in hits:
            vs = strip_casts(v) if v is not None else None
            if isinstance(vs, tuple) and vs[0] == "agg" and vs[2] == "Err":
                vals.add("Err")
            elif isinstance(vs, tuple) and vs[0] == "agg" and vs[2] == "Ok":
                fv = fold_flags(prog, ctx, vs[3][0])
                if fv is None and isinstance(vs[3][0], tuple) and vs[3][0][0] == "call" and not vs[3][0][2]:
                    fv = fold_ip(prog, vs[3][0])
                if fv is None and isinstance(vs[3][0], tuple) and vs[3][0][0] == "var":
                    # the final `Ok(match ..)` of get_creation_mode: value assigned in the arm
                    cand = {fold_flags(prog, ctx, d) if fold_flags(prog, ctx, d) is not None else fold_ip(prog, d) for d in ctx.prov.expand(vs[3][0])}
                    fv = ("amb", tuple(sorted(str(c) for c in cand)))
                vals.add(fv)
            elif isinstance(vs, tuple) and vs[0] == "call" and (vs[1] or "").endswith("from_residual"):
                vals.add("Err")
            else:
                vals.add(("?", canon(vs) if vs is not None else None))
        want = ref(*combo)
        n += 1
        ok = vals == {want}
        ck.ob("C14.2", f"{name.split('::')[-1]}|{','.join(f'{k}={int(v)}' for k, v in asg.items())}", ok, fn=name,
              detail=f"for {asg} the function yields {sorted(str(v) for v in vals)}; std::fs::OpenOptions semantics require {want}")
    ck.floor("C14.2", f"rows of {name.split('::')[-1]}", n, 2 ** len(fields))
