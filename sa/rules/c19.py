"""C19 — time arithmetic: checked seconds, bounded nanoseconds, normalised-or-None, callers of the unchecked variant, sleep."""
from ..engine.prov import const_value, strip_casts, walk, walk_deep, show
from ..engine.dtable import canon
from ..engine.fold import fold
from ..engine.cfg import span_str
from ..engine import panics
from .c12 import mentions

CONFIGS_QUICK = ["A", "B"]
CONFIGS_THOROUGH = ["A", "B", "C", "R", "X"]

EXPLANATION = (
    "Decided (static, MIR): C19.1 in checked_add_dur, checked_sub_dur and sub_ts_checked_dur every arithmetic step on seconds-valued data (results of TimeSpec::seconds, Duration::as_secs and values derived from them) "
    "is a checked_* call whose None is propagated, and every narrowing/sign conversion of such data is try_from/try_into - no plain +, -, `as`; "
    "C19.2 the only plain arithmetic left is on nanoseconds under the invariant 0 <= tv_nsec, subsec_nanos < 10^9: the carry/borrow corrections are `- 10^9` under a dominating `>= 10^9` test and `+ 10^9` under `< 0`, and the seconds are adjusted by exactly one (checked) in the same branch; "
    "C19.3 results are normalised or None: checked_sub_dur yields None for a negative seconds result, sub_ts_checked_dur converts with u64::try_from / u32::try_from; "
    "C19.4 the unchecked sub_ts_dur (plain `-`, `as u64`) is called only from MonotonicInstant::elapsed (both operands from the monotonic clock) and duration_since_unix_time (right operand the zero constant), and MonotonicInstant's field is not public; "
    "C19.5 ordering agrees with subtraction: TimeSpec derives Ord over (tv_sec, tv_nsec) in that field order and the wrappers derive Ord on their single field; "
    "C19.6 thread::sleep returns Ok only after nanosleep returned Ok, retries only on EINTR, and the remainder pointer is the request itself (the retry sleeps the remaining time); "
    "C19.7 monotonic readings come from CLOCK_MONOTONIC on both the vDSO and the syscall path (shared with C07.8), and every now() of Instant/MonotonicInstant reads that one clock (SystemTime: CLOCK_REALTIME); "
    "C19.8 every public operation of Instant and SystemTime (+ Duration, - Duration, - Self, duration_since, elapsed) reaches its own arithmetic helper with its operands in order (self first; now before self for elapsed) and wraps the result in its own type. "
    "C19.5 also: TimeSpec's Ord/PartialOrd are the derived implementations. C19.1 also: a seconds value that does not fit its converted type ends the computation with None. "
    "C19.3 also: the seconds of every Duration sub_ts_checked_dur builds are u64::try_from of a value depending on both operands' seconds, and no abs/abs_diff discards the sign of a difference. C19.2 is also accepted in its path-by-path form: on every way to a Some result the 10^9 correction and the one-second carry / borrow occur together (once each or not at all), the way with the correction under the sign test that calls for it. NOT decided: the exactness identities ((t+d)-d = t, ...) as numerical facts, the kernel clock's monotonicity, the wall-clock lower bound of sleep.")
ASSUMPTIONS = ["inputs are normalised (0 <= nanoseconds < 10^9), as the property states", "the monotonic clock is non-negative"]

T = "tiny_std::time::"
PASS_THROUGH = ("Result::<T, E>::ok", "Option::<T>::ok_or", "Result::<T, E>::map_err", "Option::<T>::ok_or_else")
NANOS = 1_000_000_000


def run(ck, progs, tier):
    for cfgname, prog in progs.items():
        ck.set_config(prog)
        run_one(ck, prog)


def is_sec(e, prov):
    return mentions(e, prov, lambda z: z[0] == "call" and ((z[1] or "").endswith("TimeSpec::seconds") or (z[1] or "").endswith("Duration::as_secs")))


def is_nanos_only(e, prov):
    return mentions(e, prov, lambda z: z[0] == "call" and ((z[1] or "").endswith("TimeSpec::nanoseconds") or (z[1] or "").endswith("Duration::subsec_nanos"))) and not is_sec(e, prov)


def clock_ids(prog, fn, seen=None, depth=0):
    """clock ids read by `fn`, followed through this crate's helpers and closures"""
    seen = set() if seen is None else seen
    if fn["path"] in seen or depth > 6:
        return set()
    seen.add(fn["path"])
    ctx = prog.ctx(fn)
    ids = set()
    for bb, t in ctx.cfg.calls():
        for x in ctx.args(bb):
            for y in walk_deep(x, ctx.prov):
                if y[0] == "const" and y[2] and "ClockId::" in y[2]:
                    ids.add(y[2].split("::")[-1])
                if y[0] == "closure" or (y[0] == "agg" and isinstance(y[1], str) and y[1].startswith("closure")):
                    pass
        c = t.get("callee") or ""
        if c.endswith("clock_get_monotonic_time"):
            ids.add("CLOCK_MONOTONIC")
        elif c.endswith("clock_get_real_time"):
            ids.add("CLOCK_REALTIME")
        elif c in prog.fns and c.startswith("tiny_std::"):
            ids |= clock_ids(prog, prog.fns[c], seen, depth + 1)
    for p2, f2 in prog.fns.items():
        if p2.startswith(fn["path"] + "::{closure"):
            ids |= clock_ids(prog, f2, seen, depth + 1)
    return ids


def pathwise_unit_correction(ctx, fn, kind):
    """C19.2 said path by path (the spelling-independent form): on every way to a `Some` result the 10^9 correction of the nanoseconds and
    the one-second carry / borrow of the seconds occur together - once each or not at all - and the way with the correction stands under
    the sign test that calls for it (`nanos < 0` for a difference, `nanos >= 10^9` for a sum), the way without it under the opposite.
    Returns (ok, why).  kind: "sub" | "add"."""
    from ..engine.dtable import enumerate_paths, path_return_value
    cfg = ctx.cfg
    corr, unit = {}, set()
    for b in fn["blocks"]:
        if b.get("cleanup") or b["id"] not in cfg.live_blocks():
            continue
        for i, st in enumerate(b["stmts"]):
            if st["k"] == "assign" and st["rv"]["k"] == "binop" and str(st["rv"].get("op", "")).replace("WithOverflow", "").replace("Unchecked", "") in ("Add", "Sub"):
                e = ctx.prov.rvalue(st["rv"], (b["id"], i))
                if isinstance(e, tuple) and len(e) > 3 and fold(e[3]) == NANOS:
                    corr[b["id"]] = canon(strip_casts(e[2]))
                if isinstance(e, tuple) and len(e) > 3 and fold(e[3]) == 1 and is_sec(e[2], ctx.prov):
                    unit.add(b["id"])
        t = b["term"]
        if t["k"] == "call" and (t.get("callee") or "").endswith(("::checked_add", "::checked_sub")):
            a = ctx.args(b["id"])
            if len(a) == 2 and fold(a[1]) == 1:
                unit.add(b["id"])
    if not corr:
        return False, "no 10^9 correction found"
    subjects = set(corr.values())
    n_some = 0
    for edges in enumerate_paths(ctx):
        v = path_return_value(ctx, edges)
        vs = strip_casts(v) if v is not None else None
        if not (isinstance(vs, tuple) and vs[0] == "agg" and vs[2] == "Some"):
            continue
        blocks = [0] + [e.dst for e in edges]
        neg = pos = infeasible = False
        for e in edges:
            if e.kind != "sw":
                continue
            for f in ctx.edge_facts(e):
                if f[0] != "cmp":
                    continue
                for x, k, op in ((f[2], fold(f[3]), f[1]), (f[3], fold(f[2]), {"Lt": "Gt", "Le": "Ge", "Gt": "Lt", "Ge": "Le"}.get(f[1]))):
                    if k is None or op is None or canon(strip_casts(x)) not in subjects:
                        continue
                    lim = 0 if kind == "sub" else NANOS
                    if (op == "Lt" and k == lim) or (op == "Le" and k == lim - 1):
                        neg = True                       # below the limit
                    if (op == "Ge" and k == lim) or (op == "Gt" and k == lim - 1):
                        pos = True                       # at or above the limit
                    if (op == "Lt" and k <= -(2 ** 63)) or (op == "Gt" and k >= 2 ** 63 - 1):
                        infeasible = True
        if infeasible or (neg and pos):
            continue
        n_some += 1
        c_, u_ = [b for b in blocks if b in corr], [b for b in blocks if b in unit]
        calls_for = neg if kind == "sub" else pos
        against = pos if kind == "sub" else neg
        if len(c_) != len(u_) or len(c_) > 1:
            return False, f"a way to Some applies the 10^9 correction {len(c_)} time(s) and moves {len(u_)} second(s)"
        if len(c_) == 1 and not calls_for:
            return False, "the 10^9 correction is applied on a way that does not stand under the sign test calling for it"
        if len(c_) == 0 and not against:
            return False, "a way to Some skips the correction without the opposite sign test"
    return n_some >= 2, f"{n_some} ways to Some examined"


def run_one(ck, prog):
    checked = ["checked_add_dur", "checked_sub_dur", "sub_ts_checked_dur"]
    n_checked_ops = 0
    n_conv = 0
    for nm in checked:
        fn = prog.fns.get(T + nm)
        if not ck.anchor("C19.1", nm, fn):
            continue
        ctx = prog.ctx(fn)
        cfg = ctx.cfg
        _pw = []

        def pw(ctx=ctx, fn=fn, nm=nm, _pw=_pw):
            # the path-by-path form of C19.2, computed once per function, used where the spelling-bound form does not recognise the code
            if not _pw:
                try:
                    _pw.append(pathwise_unit_correction(ctx, fn, "add" if nm == "checked_add_dur" else "sub"))
                except Exception as ex:      # noqa: BLE001  (an analysis that cannot run proves nothing)
                    _pw.append((False, f"not evaluated: {ex}"))
            return _pw[0]
        # ---- C19.1 / C19.2: every potential-panic site ----------------------------------------------------------------
        for s in panics.sites(ctx):
            ops = s["ops"]
            if s["kind"].startswith("overflow") and len(ops) == 2:
                if any(is_sec(o, ctx.prov) for o in ops):
                    ck.ob("C19.1", f"{nm}|plain-arithmetic-on-seconds|{s['key']}", False, fn=fn["path"], site=span_str(s["sp"]),
                          detail=f"`{show(ops[0])} {s['kind'].split('_')[1]} {show(ops[1])}` is unchecked arithmetic on seconds: it overflows (panics) for large inputs instead of yielding None")
                    continue
                # nanosecond correction: +/- 10^9 under the right guard
                c = fold(ops[1])
                facts = panics.dominating_facts(ctx, s["bb"])
                if c == NANOS and s["kind"] == "overflow_sub":
                    ok = any(f[0] == "cmp" and f[1] == "Ge" and canon(f[2]) == canon(ops[0]) and fold(f[3]) == NANOS for f in facts)
                    ok = ok or pw()[0]
                    ck.ob("C19.2", f"{nm}|carry-correction", ok, fn=fn["path"], site=span_str(s["sp"]), detail="`nanos - 10^9` must be dominated by `nanos >= 10^9` on the same value")
                elif c == NANOS and s["kind"] == "overflow_add":
                    ok = any(f[0] == "cmp" and f[1] == "Lt" and canon(f[2]) == canon(ops[0]) and fold(f[3]) == 0 for f in facts)
                    ok = ok or pw()[0]
                    ck.ob("C19.2", f"{nm}|borrow-correction", ok, fn=fn["path"], site=span_str(s["sp"]), detail="`nanos + 10^9` must be dominated by `nanos < 0` on the same value")
                else:
                    ck.ob("C19.2", f"{nm}|other-arithmetic|{s['key']}", False, fn=fn["path"], site=span_str(s["sp"]), detail=f"unexpected unchecked arithmetic {s['key']} in a checked time function")
            elif s["kind"].startswith(("call:unwrap", "call:expect", "explicit")):
                dis, dwhy = panics.discharge(ctx, s)
                if dis:
                    ck.note(f"{nm}: an assertion is present but cannot fail ({dwhy})")
                    continue
                ck.ob("C19.1", f"{nm}|panicking-call|{s['key']}", False, fn=fn["path"], site=span_str(s["sp"]), detail="a panicking call in a function that must return None instead")
        # casts on seconds
        for b in fn["blocks"]:
            if b.get("cleanup") or b["id"] not in cfg.live_blocks():
                continue
            for i, st in enumerate(b["stmts"]):
                if st["k"] == "assign" and st["rv"]["k"] == "cast" and st["rv"]["ck"] == "IntToInt":
                    e = ctx.prov.operand(st["rv"]["a"], (b["id"], i))
                    if is_sec(e, ctx.prov):
                        ck.ob("C19.1", f"{nm}|as-cast-on-seconds|{st['rv']['ty']}", False, fn=fn["path"], site=span_str(st["sp"]), detail=f"`as {st['rv']['ty']}` on seconds data silently wraps; use try_from/try_into")
        # checked ops on seconds exist and their None is propagated
        for bb, t in cfg.calls(lambda t: "::checked_" in (t.get("callee") or "")):
            a = ctx.args(bb)
            if any(is_sec(x, ctx.prov) for x in a):
                n_checked_ops += 1
                # result goes through `?` (Try::branch) -> from_residual / None return
                used_q = any(mentions(ctx.args(b2)[0], ctx.prov, lambda z: z[0] == "call" and z[3] == bb) for b2, t2 in cfg.calls(lambda t2: (t2.get("callee") or "").endswith("Try::branch")))
                if not used_q:
                    # the same propagation written as a match: from the result's None edge no `Some(..)` result is reachable
                    none_edges = [e for sb in cfg.live_blocks() if cfg.term(sb)["k"] == "switch" for e in cfg.succ[sb]
                                  for f in ctx.edge_facts(e) if f[0] == "variant" and f[2] == "None" and isinstance(strip_casts(f[1]), tuple) and strip_casts(f[1])[0] == "call" and strip_casts(f[1])[3] == bb]
                    somes = {b["id"] for b in fn["blocks"] if any(st["k"] == "assign" and st["dst"]["l"] == 0 and not st["dst"].get("p") and st["rv"]["k"] == "agg" and st["rv"].get("variant") == "Some" for st in b["stmts"])}
                    used_q = bool(none_edges) and not any(cfg.reachable_from(e.dst) & somes for e in none_edges)
                ck.ob("C19.1", f"{nm}|checked-result-propagated|{t['callee'].split('::')[-1]}@{len([1 for x in range(n_checked_ops)])}", used_q or t["dst"]["l"] == 0, fn=fn["path"], site=ctx.site(bb),
                      detail="the Option of a checked seconds operation must be propagated with `?`")
        # a seconds value that does not fit the target type is None, not some other number
        for bb, t in cfg.calls(lambda t: (t.get("callee") or "").endswith(("::try_from", "::try_into"))):
            a = ctx.args(bb)
            if not a or not is_sec(a[0], ctx.prov):
                continue
            n_conv += 1

            def is_conv(x, depth=0):
                x = strip_casts(x)
                if not isinstance(x, tuple) or not x or depth > 6:
                    return False
                if x[0] == "call" and x[3] == bb:
                    return True
                if x[0] == "call" and (x[1] or "").endswith(PASS_THROUGH) and x[2]:
                    return is_conv(x[2][0], depth + 1)
                if x[0] == "ref":
                    return is_conv(x[2], depth + 1)
                if x[0] == "var":
                    # the return slot of an expanded helper: the conversion on one way, None (an inner `?`) on the others
                    ds = [strip_casts(d) for d in ctx.prov.expand(x)]
                    rest = [d for d in ds if not is_conv(d, depth + 1)]
                    return len(rest) < len(ds) and all(isinstance(d, tuple) and ((d[0] == "agg" and d[2] == "None") or (d[0] == "call" and (d[1] or "").endswith("from_residual"))) for d in rest)
                return False
            ok = any(is_conv(ctx.args(b2)[0]) for b2, t2 in cfg.calls(lambda t2: (t2.get("callee") or "").endswith("Try::branch")))
            if not ok:
                bad_edges = [e for sb in cfg.live_blocks() if cfg.term(sb)["k"] == "switch" for e in cfg.succ[sb]
                             for f in ctx.edge_facts(e) if f[0] == "variant" and f[2] in ("None", "Err") and is_conv(f[1])]
                somes = {b["id"] for b in fn["blocks"] if any(st["k"] == "assign" and st["dst"]["l"] == 0 and not st["dst"].get("p") and st["rv"]["k"] == "agg" and st["rv"].get("variant") == "Some" for st in b["stmts"])}
                ok = bool(bad_edges) and not any(cfg.reachable_from(e.dst) & somes for e in bad_edges)
            ck.ob("C19.1", f"{nm}|unrepresentable-seconds-is-none|{t['callee'].split('::')[-1]}@{n_conv}", ok, fn=fn["path"], site=ctx.site(bb),
                  detail="a seconds value that does not fit the converted type must end the computation with None (`.ok()?`), not be replaced by another value")
        # the seconds adjustment in the correction branch is exactly one
        if nm in ("checked_add_dur", "checked_sub_dur"):
            ones = [bb for bb, t in cfg.calls(lambda t: (t.get("callee") or "").endswith("u64>::checked_add")) if fold(ctx.args(bb)[1]) == 1 and mentions(ctx.args(bb)[0], ctx.prov, lambda z: z[0] == "call" and (z[1] or "").endswith("Duration::as_secs"))]
            ck.ob("C19.2", f"{nm}|one-second-carry", len(ones) == 1 or pw()[0], fn=fn["path"], detail="the carry/borrow must move exactly one second (checked_add(1)) into the seconds operand")
            if ones:
                facts = panics.dominating_facts(ctx, ones[0])
                want = ("Ge", NANOS) if nm == "checked_add_dur" else ("Lt", 0)
                ck.ob("C19.2", f"{nm}|carry-in-correction-branch", any(f[0] == "cmp" and f[1] == want[0] and fold(f[3]) == want[1] for f in facts) or pw()[0], fn=fn["path"], detail="the one-second carry must sit in the same branch as the 10^9 correction")
        if nm == "sub_ts_checked_dur":
            subs = [bb for bb, t in cfg.calls(lambda t: (t.get("callee") or "").endswith("i64>::checked_sub"))]
            inner = [bb for bb in subs if any(mentions(x, ctx.prov, lambda z: z[0] == "var" or (z[0] == "const" and z[1] in (0, 1))) for x in ctx.args(bb)[1:])]
            vals = set()

            def possible(e, depth=0):
                """constant values an expression can take: merged locals are expanded, a field of a merged tuple is projected out of each
                tuple it was built from (an expanded helper returning (nanos, borrow))"""
                e = strip_casts(e)
                if not isinstance(e, tuple) or depth > 6:
                    return {None}
                if e[0] == "var":
                    out = set()
                    for d in ctx.prov.expand(e):
                        out |= possible(d, depth + 1)
                    return out or {None}
                if e[0] == "field" and isinstance(e[1], tuple):
                    base = strip_casts(e[1])
                    tuples = ctx.prov.expand(base) if base[0] == "var" else [base]
                    out = set()
                    for tpl in tuples:
                        tpl = strip_casts(tpl)
                        if isinstance(tpl, tuple) and tpl[0] == "agg" and str(e[2]).isdigit() and int(e[2]) < len(tpl[3]):
                            out |= possible(tpl[3][int(e[2])], depth + 1)
                        else:
                            out.add(None)
                    return out or {None}
                return {fold(e)}
            for bb in subs:
                a1 = strip_casts(ctx.args(bb)[1])
                if isinstance(a1, tuple) and a1[0] == "var":
                    vals |= possible(a1)
                elif isinstance(a1, tuple) and a1[0] == "field":
                    pv = possible(a1)       # the projected component only (the tuple's other component holds the operands)
                    if pv - {None}:
                        vals |= pv
            ck.ob("C19.2", f"{nm}|borrow-is-zero-or-one", vals == {0, 1} or pw()[0], fn=fn["path"], detail=f"the borrowed seconds must be 0 or exactly 1; found {sorted(str(v) for v in vals)}; path by path: {pw()[1]}")
    ck.floor("C19.1", "checked operations on seconds", n_checked_ops, 6)
    ck.floor("C19.1", "checked conversions of seconds", n_conv, 3)

    # ---- C19.3 normalised or None ---------------------------------------------------------------------------------------------
    f2 = prog.fns.get(T + "checked_sub_dur")
    if f2 is not None:
        ctx = prog.ctx(f2)
        ge0 = [bb for bb, t in ctx.cfg.calls(lambda t: (t.get("callee") or "").endswith("PartialOrd::ge"))]
        ts = [bb for bb, t in ctx.cfg.calls(lambda t: (t.get("callee") or "").endswith("bool>::then_some"))]
        ok = len(ge0) == 1 and len(ts) == 1 and mentions(ctx.args(ts[0])[0], ctx.prov, lambda z: z[0] == "call" and z[3] == ge0[0]) and \
            any(fold(x) == 0 or mentions(x, ctx.prov, lambda z: z[0] == "const" and (z[1] == 0 or (len(z) > 4 and z[4] and not any(z[4][:8])))) for x in ctx.args(ge0[0]))
        if not ok:
            # the same guard written as a branch: the TimeSpec is built only on an edge where the seconds are known to be >= 0
            news = [bb for bb, t in ctx.cfg.calls(lambda t: (t.get("callee") or "").endswith("TimeSpec::new"))]
            good = bool(news)
            for nb in news:
                sec = strip_casts(ctx.args(nb)[0])
                facts = panics.dominating_facts(ctx, nb)
                nrm = lambda z: canon(strip_casts(z)).replace("*", "").replace("&", "")  # noqa: E731  (a match guard tests the payload through a reference)
                ge = any(f[0] == "cmp" and ((f[1] == "Ge" and nrm(f[2]) == nrm(sec) and fold(f[3]) == 0) or
                                             (f[1] == "Le" and nrm(f[3]) == nrm(sec) and fold(f[2]) == 0) or
                                             (f[1] == "Gt" and nrm(f[2]) == nrm(sec) and fold(f[3]) == -1)) for f in facts)
                good = good and ge
            ok = good
        ck.ob("C19.3", "checked_sub_dur|negative-seconds-is-none", ok, fn=f2["path"], detail="a negative seconds result must become None (tv_sec.ge(&0).then_some(tv_sec)?, or the result built only under tv_sec >= 0)")
    f3 = prog.fns.get(T + "sub_ts_checked_dur")
    if f3 is not None:
        ctx = prog.ctx(f3)
        tf = [(bb, t) for bb, t in ctx.cfg.calls(lambda t: (t.get("callee") or "").endswith("TryFrom::try_from"))]
        tys = sorted((t.get("resolved") or t.get("generic") or "") for bb, t in tf)
        ck.ob("C19.3", "sub_ts_checked_dur|try_from-conversions", len(tf) == 2, fn=f3["path"], detail=f"seconds and nanoseconds must be converted with u64::try_from and u32::try_from (found {len(tf)} try_from calls)")
        # what comes back is the signed difference, converted: the seconds of every Duration built here go through try_from of a value
        # that depends on both operands' seconds (a constant, or an absolute difference, answers Some for an earlier-minus-later pair)
        def both_seconds(e):
            got = set()
            for z in walk_deep(e, ctx.prov, limit=400):
                if z[0] == "call" and (z[1] or "").endswith("TimeSpec::seconds") and z[2]:
                    for y in walk_deep(z[2][0], ctx.prov, limit=40):
                        if y[0] == "param":
                            got.add(y[1])
            return len(got) >= 2
        durs = [(bb, t) for bb, t in ctx.cfg.calls(lambda t: (t.get("callee") or "").endswith("Duration::new"))]
        ck.floor("C19.3", "Duration::new sites in sub_ts_checked_dur", len(durs), 1)
        for bb, t in durs:
            a0 = ctx.args(bb)[0]
            ok = mentions(a0, ctx.prov, lambda z: z[0] == "call" and (z[1] or "").endswith("TryFrom::try_from") and z[2] and both_seconds(z[2][0]))
            ck.ob("C19.3", "sub_ts_checked_dur|result-seconds-is-the-converted-difference", ok, fn=f3["path"], site=ctx.site(bb),
                  detail=f"the seconds of the result are {show(a0)[:100]}; they must be u64::try_from(<lhs seconds - rhs seconds - borrow>), which is what turns a negative difference into None")
    for nm in ("sub_ts_checked_dur", "checked_sub_dur", "checked_add_dur"):
        fx = prog.fns.get(T + nm)
        if fx is None:
            continue
        cx = prog.ctx(fx)
        lost = [(bb, t.get("callee")) for bb, t in cx.cfg.calls(lambda t: (t.get("callee") or "").endswith(("::abs_diff", "::abs", "::unsigned_abs", "::wrapping_abs", "::saturating_abs", "::checked_abs")))]
        ck.ob("C19.3", f"{nm}|sign-of-a-difference-is-never-discarded", not lost, fn=fx["path"], site=cx.site(lost[0][0]) if lost else None,
              detail=f"{lost[0][1] if lost else ''} discards the sign of a difference: an earlier-minus-later pair then yields Some instead of None")

    # ---- C19.4 callers of the unchecked variant -------------------------------------------------------------------------------------
    cg = prog.callgraph()
    callers = set(cg.callers.get(T + "sub_ts_dur", ()))
    allowed = {T + "MonotonicInstant::elapsed", T + "SystemTime::duration_since_unix_time"}
    ck.ob("C19.4", "unchecked-sub-callers", callers == allowed, detail=f"callers of the unchecked sub_ts_dur: {sorted(callers)}; allowed {sorted(allowed)} (a caller with user-controlled operands could overflow / wrap)")
    el = prog.fns.get(T + "MonotonicInstant::elapsed")
    if el is not None:
        ctx = prog.ctx(el)
        for bb, t in ctx.cfg.calls(lambda t: t.get("callee") == T + "sub_ts_dur"):
            a = ctx.args(bb)
            ck.ob("C19.4", "elapsed|lhs-is-now", mentions(a[0], ctx.prov, lambda z: z[0] == "call" and (z[1] or "").endswith("MonotonicInstant::now")), fn=el["path"], detail="elapsed must subtract self from a fresh monotonic reading")
    du = prog.fns.get(T + "SystemTime::duration_since_unix_time")
    if du is not None:
        ctx = prog.ctx(du)
        for bb, t in ctx.cfg.calls(lambda t: t.get("callee") == T + "sub_ts_dur"):
            a = ctx.args(bb)
            ck.ob("C19.4", "unix-time|rhs-is-zero-constant", mentions(a[1], ctx.prov, lambda z: z[0] == "const" and z[2] and z[2].endswith("UNIX_TIME")), fn=du["path"], detail="duration_since_unix_time must subtract the UNIX_TIME constant")
    mi = prog.adts.get(T + "MonotonicInstant")
    if ck.anchor("C19.4", "MonotonicInstant", mi):
        ck.ob("C19.4", "monotonic-field-not-public", all("Public" not in f["vis"] for v in mi["variants"] for f in v["fields"]), detail="MonotonicInstant's TimeSpec must not be publicly constructible")

    # ---- C19.5 ordering --------------------------------------------------------------------------------------------------------------------
    ts = prog.adts.get("rusl::platform::compat::time::TimeSpec")
    if ck.anchor("C19.5", "TimeSpec", ts):
        inner = [f["ty"] for v in ts["variants"] for f in v["fields"]]
        ck.ob("C19.5", "timespec-wraps-kernel-timespec", len(inner) == 1 and inner[0].endswith("__kernel_timespec"), detail=f"TimeSpec fields {inner}")
        ords = [i for i in prog.impls if i["self"] == "rusl::platform::compat::time::TimeSpec" and i.get("trait") in ("core::cmp::Ord", "core::cmp::PartialOrd")]
        derived = [i for i in ords if str((i.get("span") or {}).get("m", "")).startswith("#[derive(")]
        ck.ob("C19.5", "timespec-ord-is-the-derived-one", len(derived) == 2 and len(ords) == 2, detail=f"TimeSpec's Ord/PartialOrd must be the derived lexicographic comparison of (tv_sec, tv_nsec); a hand-written key (packing, truncating) can disagree with subtraction for large seconds; derived impls found: {len(derived)} of {len(ords)}")
        ck.ob("C19.5", "timespec-ord-derived", len(ords) == 2, detail="TimeSpec must implement Ord/PartialOrd (derived lexicographic order over tv_sec, tv_nsec)")
    for w in ("Instant", "SystemTime", "MonotonicInstant"):
        a = prog.adts.get(T + w)
        if a is not None:
            fl = [f["ty"] for v in a["variants"] for f in v["fields"]]
            ords = [i for i in prog.impls if i["self"] == T + w and i.get("trait") == "core::cmp::Ord"]
            ck.ob("C19.5", f"{w}|single-field-ord", len(fl) == 1 and fl[0].endswith("TimeSpec") and len(ords) == 1, detail=f"{w} must order by its single TimeSpec field (fields {fl})")

    # ---- C19.8 each public operation reaches its own arithmetic, operands in order ------------------------------------------------------------
    HELPERS = ("checked_add_dur", "checked_sub_dur", "sub_ts_checked_dur", "sub_ts_dur")

    def describe(e, ctx):
        e = strip_casts(e)
        n = 0
        while isinstance(e, tuple) and e and n < 8:
            if e[0] == "field" and e[2] in ("0", 0):
                e = strip_casts(e[1])
            elif e[0] in ("ref", "addr"):
                e = strip_casts(e[2])
            elif e[0] == "deref":
                e = strip_casts(e[1])
            elif e[0] == "call" and (e[1] or "").endswith(("Clone::clone", "AsRef::as_ref")) and e[2]:
                e = strip_casts(e[2][0])
            else:
                break
            n += 1
        if isinstance(e, tuple) and e and e[0] == "param":
            return ("param", e[1])
        if isinstance(e, tuple) and e and e[0] == "call" and (e[1] or "").endswith("::now"):
            return ("now",)
        if isinstance(e, tuple) and e and e[0] == "const" and e[2] and "UNIX_TIME" in e[2]:
            return ("epoch",)
        return ("other", show(e)[:60])

    def operation(fn, depth=0):
        """(helper, operand descriptors in terms of fn's own parameters) or None when it is not exactly one"""
        ctx = prog.ctx(fn)
        found = []
        for bb, t in ctx.cfg.calls():
            c = t.get("resolved") or t.get("callee") or ""
            if c.startswith("<" + T):
                nm = c
            elif c.startswith(T):
                nm = c[len(T):]
            else:
                continue
            if nm.endswith("::now") or nm.startswith("get_"):
                continue
            a = [describe(x, ctx) for x in ctx.args(bb)]
            if nm in HELPERS:
                found.append((nm, a))
            elif c in prog.fns and depth < 3:
                inner = operation(prog.fns[c], depth + 1)
                if inner is not None:
                    found.append((inner[0], [a[d[1] - 1] if d[0] == "param" and 0 < d[1] <= len(a) else d for d in inner[1]]))
        return found[0] if len(found) == 1 else None

    OPS = (("Add<core::time::Duration>>::add", "checked_add_dur", [("param", 1), ("param", 2)]),
           ("Sub<core::time::Duration>>::sub", "checked_sub_dur", [("param", 1), ("param", 2)]),
           ("arith::Sub>::sub", "sub_ts_checked_dur", [("param", 1), ("param", 2)]),
           ("::duration_since", "sub_ts_checked_dur", [("param", 1), ("param", 2)]),
           ("::elapsed", "sub_ts_checked_dur", [("now",), ("param", 1)]))
    n_ops = 0
    for w in ("Instant", "SystemTime"):
        for p2, f2 in prog.fns.items():
            if not (p2.startswith(f"<{T}{w} as ") or p2.startswith(f"{T}{w}::")):
                continue
            for suffix, helper, want in OPS:
                if p2.endswith(suffix):
                    n_ops += 1
                    got = operation(f2)
                    ck.ob("C19.8", f"{w}|{suffix.strip(':')}|reaches-its-arithmetic", got is not None and got[0] == helper and got[1] == want, fn=p2,
                          detail=f"must compute {helper}{tuple(want)}; found {got}")
                    if suffix.endswith(("::add", "Duration>>::sub")):
                        c2 = prog.ctx(f2)
                        wraps = [x for bb, t in c2.cfg.calls(lambda t: (t.get("callee") or "").endswith("Option::<T>::map")) for x in c2.args(bb)[1:]]
                        ok = any(T + w in show(x) for x in wraps) or any(s["k"] == "assign" and s["rv"]["k"] == "agg" and str(s["rv"].get("adt", "")).endswith(T + w) for b in f2["blocks"] for s in b["stmts"])
                        ck.ob("C19.8", f"{w}|{suffix.strip(':')}|result-of-the-same-kind", ok, fn=p2, detail=f"the result must be wrapped as {w}")
    ck.floor("C19.8", "public time operations", n_ops, 10)

    # ---- C19.6 sleep ----------------------------------------------------------------------------------------------------------------------------
    sl = prog.fns.get("tiny_std::thread::sleep")
    if ck.anchor("C19.6", "thread::sleep", sl):
        ctx = prog.ctx(sl)
        cfg = ctx.cfg
        ns = [bb for bb, t in cfg.calls(lambda t: (t.get("callee") or "").endswith("sleep::nanosleep_same_ptr") or (t.get("callee") or "").endswith("sleep::nanosleep"))]
        ck.ob("C19.6", "anchor|nanosleep", len(ns) == 1, fn=sl["path"], detail=f"nanosleep sites {len(ns)}")
        if ns:
            oks = [b["id"] for b in sl["blocks"] if b["id"] in cfg.live_blocks() and any(s["k"] == "assign" and s["dst"]["l"] == 0 and s["rv"]["k"] == "agg" and s["rv"].get("variant") == "Ok" for s in b["stmts"])]
            ok = bool(oks)
            for ob in oks:
                facts = panics.dominating_facts(ctx, ob)
                ok = ok and any(f[0] == "variant" and f[2] == "Ok" and mentions(f[1], ctx.prov, lambda z: z[0] == "call" and z[3] == ns[0]) for f in facts)
            ck.ob("C19.6", "ok-only-after-completed-nanosleep", ok, fn=sl["path"], detail="sleep may return Ok only after nanosleep returned Ok")
            eintr = set()
            errs = []
            for sb in cfg.live_blocks():
                if cfg.term(sb)["k"] != "switch":
                    continue
                for e in cfg.succ[sb]:
                    for f in ctx.edge_facts(e):
                        if f[0] == "truth" and isinstance(f[1], tuple) and f[1][0] == "call" and mentions(f[1], ctx.prov, lambda z: z[0] == "const" and z[2] and "EINTR" in z[2]):
                            is_ne = (f[1][1] or "").endswith("::ne")          # `code != EINTR` is false exactly when the error is EINTR
                            if f[2] is (not is_ne):
                                eintr.add((e.src, e.dst))
                        if f[0] == "variant" and f[2] == "Err" and mentions(f[1], ctx.prov, lambda z: z[0] == "call" and z[3] == ns[0]):
                            errs.append(e)
            for e in errs:
                r = cfg.reachable_from(e.dst, avoid_edges=eintr)
                ck.ob("C19.6", "retry-only-on-eintr", ns[0] not in r and cfg.in_cycle(ns[0]), fn=sl["path"], detail="the sleep is repeated only after EINTR (and must be then)")
        nsf = prog.fns.get("rusl::time::sleep::nanosleep_same_ptr")
        if nsf is not None:
            c2 = prog.ctx(nsf)
            from ..engine.cfg import is_raw_syscall
            for bb, t in c2.cfg.calls(lambda t: is_raw_syscall(t.get("callee"))):
                a = c2.args(bb)
                ck.ob("C19.6", "remainder-is-the-request", len(a) >= 3 and canon(a[1]) == canon(a[2]) and mentions(a[1], c2.prov, lambda z: z[0] == "param" and z[1] == 1), fn=nsf["path"],
                      detail="nanosleep must write the remaining time back into the request, so that the EINTR retry sleeps only the remainder")

    # ---- C19.7 clock ids ------------------------------------------------------------------------------------------------------------------------
    gm = prog.fns.get(T + "get_monotonic_time")
    n_now = 0
    if ck.anchor("C19.7", "get_monotonic_time", gm):
        ctx = prog.ctx(gm)
        ids = set()
        for bb, t in ctx.cfg.calls():
            for x in ctx.args(bb):
                for y in walk_deep(x, ctx.prov):
                    if y[0] == "const" and y[2] and "ClockId::" in y[2]:
                        ids.add(y[2].split("::")[-1])
            c = t.get("callee") or ""
            if c.endswith("clock_get_monotonic_time"):
                ids.add("CLOCK_MONOTONIC")
            if c.endswith("clock_get_real_time"):
                ids.add("CLOCK_REALTIME")
        ck.ob("C19.7", "monotonic-clock-id", ids == {"CLOCK_MONOTONIC"}, fn=gm["path"], detail=f"MonotonicInstant/Instant readings use clock ids {sorted(ids)}; must be CLOCK_MONOTONIC only")
        # every reading handed out as a point on the monotonic timeline (Instant and MonotonicInstant convert into each other field by field)
        # comes from that one clock, and the wall clock from CLOCK_REALTIME
        for who, want in (("MonotonicInstant::now", {"CLOCK_MONOTONIC"}), ("Instant::now", {"CLOCK_MONOTONIC"}), ("SystemTime::now", {"CLOCK_REALTIME"})):
            f0 = prog.fns.get(T + who)
            if f0 is None:
                continue
            n_now += 1
            got = clock_ids(prog, f0)
            ck.ob("C19.7", f"{who}|reads-one-clock", got == want, fn=f0["path"], detail=f"{who} reads clock ids {sorted(got)}; must be exactly {sorted(want)} (the instant kinds convert into each other without translation)")
        ck.floor("C19.7", "now() constructors", n_now, 3)
        nowf = prog.fns.get(T + "Instant::now")
        if nowf is not None:
            c2 = prog.ctx(nowf)
            ck.ob("C19.7", "instant-now-uses-monotonic", any(True for _ in c2.cfg.calls(lambda t: t.get("callee") == T + "get_monotonic_time")), fn=nowf["path"], detail="Instant::now must read the monotonic clock")
