"""C01.10 / C02 / C05.6: the futex command used to wait and the one used to wake have the same
private/shared flavour, for the flags tiny-std actually passes."""
from ..engine.fold import fold
from ..engine.cfg import is_raw_syscall
from ..engine.prov import show, strip_casts

FUTEX_PRIVATE_FLAG = 128
FUTEX_CMD_MASK = 127


def nr_name(e):
    """name of the sc::platform::nr constant an expression is (the number differs per architecture)."""
    e = strip_casts(e)
    if isinstance(e, tuple) and e[0] == "const" and e[2] and "::nr::" in e[2]:
        return e[2].rsplit("::", 1)[1]
    return None


def futex_syscall_ops(prog, fnpath):
    """[(ctx, bb, op_expr)] for FUTEX syscalls in fnpath."""
    ctx = prog.ctx(fnpath)
    out = []
    if ctx is None:
        return out
    for bb, t in ctx.cfg.calls(lambda t: is_raw_syscall(t.get("callee"))):
        args = ctx.args(bb)
        if args and nr_name(args[0]) == "FUTEX":
            out.append((ctx, bb, args[2] if len(args) > 2 else None))
    return out


def check_flavour(ck, prog, rule):
    wait = futex_syscall_ops(prog, "rusl::futex::futex_wait")
    wake = futex_syscall_ops(prog, "rusl::futex::futex_wake")
    ck.ob(rule, "anchor|futex_wait syscall", len(wait) == 1, detail=f"expected one FUTEX syscall in rusl::futex::futex_wait, found {len(wait)}")
    ck.ob(rule, "anchor|futex_wake syscall", len(wake) == 1, detail=f"expected one FUTEX syscall in rusl::futex::futex_wake, found {len(wake)}")
    if len(wait) != 1 or len(wake) != 1:
        return
    wake_op = fold(wake[0][2])
    ck.ob(rule, "wake-op-constant", wake_op is not None and (wake_op & FUTEX_CMD_MASK) == 1, fn="rusl::futex::futex_wake",
          site=wake[0][0].site(wake[0][1]), detail=f"futex_wake's command {show(wake[0][2])} does not fold to FUTEX_WAKE")
    # every caller of futex_wait in tiny-std: fold the command with the flags it passes
    cg = prog.callgraph()
    n = 0
    for caller in sorted(cg.callers.get("rusl::futex::futex_wait", ())):
        if not (caller.startswith("tiny_std") or caller.startswith("<tiny_std")):
            continue
        cctx = prog.ctx(caller)
        if cctx is None:
            continue
        for bb, t in cctx.cfg.calls(lambda t: t.get("callee") == "rusl::futex::futex_wait"):
            n += 1
            args = cctx.args(bb)
            flags = fold(args[2]) if len(args) > 2 else None
            env = {3: flags, "flags": flags}
            op = fold(wait[0][2], env)
            ok = op is not None and wake_op is not None and (op & FUTEX_CMD_MASK) == 0 and (op & FUTEX_PRIVATE_FLAG) == (wake_op & FUTEX_PRIVATE_FLAG)
            ck.ob(rule, f"flavour|{caller}", ok, fn=caller, site=cctx.site(bb),
                  detail=f"wait command folds to {op} (flags passed: {flags}) but wake command is {wake_op}: private/shared flavour differs or command is not FUTEX_WAIT, so wakes (and the kernel's clear-tid wake) never find this waiter")
    ck.floor(rule, "futex_wait callers in tiny-std", n, 1)
