"""C16 — stream sockets: bounded control-message traversal, try-variants never block, Timeout only from an expired poll,
pointer/length agreement at the kernel boundary, address construction."""
from ..engine.prov import walk as _walk16, const_value, strip_casts, walk, walk_deep, show
from ..engine.dtable import canon
from ..engine.fold import fold, fold_ip
from ..engine.cfg import is_raw_syscall, span_str
from ..engine import panics
from . import locks
from .c12 import mentions
from .threads import fold_flags

CONFIGS_QUICK = ["A", "B"]
CONFIGS_THOROUGH = ["A", "B", "C", "R", "X"]

EXPLANATION = (
    "Decided (static, MIR): C16.1 control-message traversal is bounded by the supplied buffer: in the cmsg macros' expansions and the iterator no address is taken OF a pointer-typed place and turned into an integer "
    "(`addr_of!(ptr) as usize` is the address of the pointer variable, not of the buffer) - the end bound and the current position derive from the pointers' values; the same lint is reported as a note elsewhere; "
    "C16.2 try_accept / try_connect (Unix and TCP) and TcpStreamInProgress::try_connect reach no poll/epoll/sleep/futex wrapper, and every socket()/accept4() in tiny-std's net module carries SOCK_NONBLOCK|SOCK_CLOEXEC; "
    "C16.3 Error::Timeout is constructed only on the `ppoll(..) == Ok(0)` edge; the Duration reaches ppoll as a TimeSpec converted once by the library's own TryFrom<Duration> (whose tv_sec/tv_nsec are as_secs()/subsec_nanos() unmodified, so no part of the limit is dropped), None stays a null timeout, EINTR re-polls (and only EINTR), and after readiness the operation is retried with the same arguments; "
    "C16.6 every stream read/write entry point forwards its own descriptor, the caller's whole buffer and limit to the matching transfer helper and returns its count; the helpers pass (sock, buf) to read/write unchanged and every Ok they return is that call's count; a receive header offers the control buffer at its full length; C16.4 at every raw syscall site in rusl a (pointer, length) pair taken from a slice comes from ONE slice; "
    "C16.5 sockaddr_in gets the port in network order and the address bytes in memory order; the Unix address conversion rejects a path that has no terminator within 108 bytes and reports len(path incl. NUL) + size_of(sa_family_t). "
    "C16.1 also: descriptors are produced only from a header with cmsg_level == SOL_SOCKET and cmsg_type == SCM_RIGHTS. "
    "C16.3 also: with a timeout given, ppoll is never called without a timespec (a zero limit stays a limit); C16.1 also: the send-side control buffer is sized from the byte count that is copied into it. "
    "C16.1 also: a length taken from the control buffer is never the subtrahend of an unchecked subtraction (end-of-buffer tests are written additively). C16.1 also: a control message of another kind is stepped over; the iterator answers None only for want of a further header. NOT decided: in-order complete delivery when buffers fill, completion of blocking calls when the peer acts, timing bounds (kernel and scheduling).")
ASSUMPTIONS = ["struct msghdr / cmsghdr layout of Linux", "ppoll returns 0 exactly on timeout"]

NET = "tiny_std::net::"
TRY_FNS = [NET + "UnixListener::try_accept", NET + "UnixStream::try_connect", NET + "TcpListener::try_accept", NET + "TcpStream::try_connect", NET + "TcpStreamInProgress::try_connect"]
BLOCKING = ("rusl::select::poll::ppoll", "rusl::select::epoll::epoll_wait", "rusl::time::sleep::nanosleep", "rusl::futex::futex_wait", "tiny_std::sync::futex_wait_fast",
            "tiny_std::thread::sleep", "tiny_std::sock::sock_nonblock_op_poll_if_not_ready", "tiny_std::sock::blocking_read_nonblock_sock", "tiny_std::sock::blocking_write_nonblock_sock")


def run(ck, progs, tier):
    for cfgname, prog in progs.items():
        ck.set_config(prog)
        run_one(ck, prog)


def is_ptr_ty(ty):
    ty = (ty or "").strip()
    return ty.startswith("*const") or ty.startswith("*mut") or ty.startswith("&")


def addr_of_pointer_sites(prog, fn):
    """[(bb, idx, expr, span)] statements casting `&raw (place of pointer type)` to an integer."""
    ctx = prog.ctx(fn)
    out = []
    for b in fn["blocks"]:
        if b.get("cleanup") or b["id"] not in ctx.cfg.live_blocks():
            continue
        for i, s in enumerate(b["stmts"]):
            if s["k"] != "assign" or s["rv"]["k"] != "cast":
                continue
            if "usize" not in s["rv"]["ty"] and "u64" not in s["rv"]["ty"]:
                continue
            if s["sp"].get("m") and "assert" in s["sp"]["m"]:
                continue
            e = ctx.prov.rvalue(s["rv"], (b["id"], i))
            inner = strip_casts(e)
            if isinstance(inner, tuple) and inner[0] == "addr" and len(inner) > 3 and is_ptr_ty(inner[3]):
                out.append((b["id"], i, inner, s["sp"]))
    return out


def run_one(ck, prog):
    # ---- C16.1 -----------------------------------------------------------------------------------------------------
    n_fn = 0
    for p, fn in sorted(prog.fns.items()):
        if fn["crate"] not in ("rusl", "tiny_std"):
            continue
        in_cmsg = "platform::compat::socket" in p
        if in_cmsg:
            n_fn += 1
        sites = addr_of_pointer_sites(prog, fn) if (in_cmsg or fn["crate"] == "tiny_std" or "network" in p) else []
        for bb, i, e, sp in sites:
            if in_cmsg:
                ck.ob("C16.1", f"{p}|addr-of-pointer|{canon(e[2])}", False, fn=p, site=span_str(sp),
                      detail=f"`addr_of!({show(e[2])}) as usize` takes the address of a pointer VARIABLE ({e[3]}), not the pointer's value: the control-buffer bound/position computed from it is unrelated to the buffer, so traversal can read outside it")
            else:
                ck.note(f"cross-reference (not a C16 violation): {p} at {span_str(sp)} casts the address of a pointer-typed place ({e[3]}) to an integer")
    ck.floor("C16.1", "functions in the socket compat module", n_fn, 10)
    it = [f for p, f in prog.fns.items() if "ControlMessageIterator" in p and p.endswith("Iterator>::next")]
    if ck.config == "C" and not it:
        ck.note("config C (no alloc): the control-message iterator is not compiled; C16.1 iterator rules not applicable there")
    elif ck.anchor("C16.1", "ControlMessageIterator::next", it):
        ctx = prog.ctx(it[0])
        # the end bound derives from msg_control's VALUE plus msg_controllen
        ends = []
        for b in it[0]["blocks"]:
            for i, s in enumerate(b["stmts"]):
                if s["k"] == "assign" and s["rv"]["k"] == "binop" and s["rv"]["op"].startswith("Add"):
                    e = ctx.prov.rvalue(s["rv"], (b["id"], i))
                    if mentions(e, ctx.prov, lambda z: z[0] == "field" and z[2] == "msg_controllen"):
                        ends.append(e)
        ok = bool(ends) and all(mentions(e, ctx.prov, lambda z: z[0] == "field" and z[2] == "msg_control") and not mentions(e, ctx.prov, lambda z: z[0] == "addr") for e in ends)
        ck.ob("C16.1", "end-bound-from-pointer-values", ok, fn=it[0]["path"], detail="the end of the control buffer must be (value of msg_control) + msg_controllen")
        ck.floor("C16.1", "end-bound computations", len(ends), 1)
        ck.ob("C16.1", "no-addr-of-in-iterator", not addr_of_pointer_sites(prog, it[0]), fn=it[0]["path"], detail="address of a pointer variable used in the traversal arithmetic")
        # the step to the next header uses the ALIGNED length: (cmsg_len + 7) & !7 (a payload that is not a multiple of 8 - one or
        # three descriptors - is followed by padding; stepping by the raw length lands inside it)
        is_len = lambda z: z[0] == "field" and z[2] == "cmsg_len"  # noqa: E731
        # "this expression reads cmsg_len": looked for without expanding merged variables - a loop-carried header pointer (`cmsg = following`)
        # stands for the pointer, not for the length that was used to compute it one round earlier
        from ..engine.prov import walk as _walk
        reads_len = lambda x: any(is_len(z) for z in _walk(x))  # noqa: E731
        n_aligned, raw_steps = 0, []
        roots = []      # expressions that decide where the next header is: what is stored into cmsg_prev, and the tests guarding it
        for b in it[0]["blocks"]:
            if b["id"] not in ctx.cfg.live_blocks() or b.get("cleanup"):
                continue
            for i, st in enumerate(b["stmts"]):
                if st["k"] != "assign":
                    continue
                if st["rv"]["k"] == "binop" and st["rv"]["op"] == "BitAnd":
                    e = ctx.prov.rvalue(st["rv"], (b["id"], i))
                    if mentions(e[2], ctx.prov, is_len) and fold(e[3]) in (0xFFFFFFFFFFFFFFF8, -8):
                        n_aligned += 1
                if st["dst"].get("p") and any(pe["k"] == "field" and pe.get("n") == "cmsg_prev" for pe in st["dst"]["p"]):
                    roots.append((st.get("sp"), ctx.prov.rvalue(st["rv"], (b["id"], i))))
            t = b["term"]
            if t["k"] == "switch":
                d = ctx.prov.operand(t["discr"], (b["id"], len(b["stmts"])))
                if mentions(d, ctx.prov, is_len) and mentions(d, ctx.prov, lambda z: z[0] == "field" and z[2] == "msg_controllen"):
                    roots.append((t.get("sp"), d))
        for sp, root in roots:
            for e in walk_deep(root, ctx.prov, limit=400):
                if e[0] == "bin" and e[1] == "Add":
                    for side, other in ((e[2], e[3]), (e[3], e[2])):
                        if not reads_len(side):
                            continue
                        ss = strip_casts(side)
                        aligned = isinstance(ss, tuple) and ss[0] == "bin" and ss[1] in ("BitAnd", "Add", "Sub") and any(z[0] == "bin" and z[1] == "BitAnd" and fold(z[3]) in (0xFFFFFFFFFFFFFFF8, -8) for z in _walk(ss))
                        rounding = fold(other) in (7, 8) and not any(z[0] == "bin" and z[1] == "BitAnd" for z in _walk(side))
                        if not aligned and not rounding:
                            raw_steps.append((sp, show(e)[:120]))
        ck.floor("C16.1", "expressions locating the next header", len(roots), 2)
        ck.floor("C16.1", "aligned control-message lengths", n_aligned, 2)
        ck.ob("C16.1", "next-header-step-uses-the-aligned-length", not raw_steps, fn=it[0]["path"], site=span_str(raw_steps[0][0]) if raw_steps else None,
              detail=f"the traversal adds an unaligned cmsg_len ({raw_steps[0][1] if raw_steps else ''}): CMSG_NXTHDR must step by (cmsg_len + 7) & !7, otherwise a message whose payload is not a multiple of 8 bytes makes the next header start inside its padding")

        # descriptors are handed out only from a header that says so: SOL_SOCKET / SCM_RIGHTS (another socket-level message, e.g. the
        # credentials a receiver with SO_PASSCRED gets first, carries pid/uid/gid - not descriptors)
        yields = [b["id"] for b in it[0]["blocks"] if b["id"] in ctx.cfg.live_blocks() and not b.get("cleanup") and
                  any(st["k"] == "assign" and st["rv"]["k"] == "agg" and st["rv"].get("variant") == "ScmRights" for st in b["stmts"])]
        ck.floor("C16.1", "ScmRights yields", len(yields), 1)
        for yb in yields:
            facts = panics.dominating_facts(ctx, yb)
            def tested(fld, facts=facts, depth=0):
                if any(f[0] == "cmp" and f[1] == "Eq" and ((fold(f[3]) == 1 and mentions(f[2], ctx.prov, lambda z: z[0] == "field" and z[2] == fld)) or (fold(f[2]) == 1 and mentions(f[3], ctx.prov, lambda z: z[0] == "field" and z[2] == fld))) for f in facts):
                    return True
                # the test may have been made where an Option was built that is taken apart here (`let fd_count = if kind matches { Some(..) }
                # else { None }; .. if let Some(..) = fd_count`): every `Some` definition of that local stands under the test
                for f in facts:
                    v = strip_casts(f[1]) if f[0] == "variant" and f[2] == "Some" and isinstance(f[1], tuple) else None
                    if depth == 0 and isinstance(v, tuple) and v[0] == "var":
                        somes = []
                        for (dbb, didx) in ctx.prov.defs.get((v[1], None), []):
                            try:
                                st_ = ctx.cfg.block(dbb)["stmts"][didx]
                            except (TypeError, IndexError):
                                continue
                            if st_["k"] == "assign" and st_["rv"]["k"] == "agg" and st_["rv"].get("variant") == "Some":
                                somes.append(dbb)
                        if somes and all(tested(fld, panics.dominating_facts(ctx, b_), 1) for b_ in somes):
                            return True
                return False
            ck.ob("C16.1", "descriptors-only-from-an-scm-rights-header|level", tested("cmsg_level"), fn=it[0]["path"], site=ctx.site(yb), detail="ScmRights may be produced only under cmsg_level == SOL_SOCKET (1)")
            ck.ob("C16.1", "descriptors-only-from-an-scm-rights-header|type", tested("cmsg_type"), fn=it[0]["path"], site=ctx.site(yb), detail="ScmRights may be produced only under cmsg_type == SCM_RIGHTS (1); other socket-level ancillary data would be decoded as descriptors that were never passed")
        # ... and a message of another kind is SKIPPED, not the end: the iteration answers None only for want of a further header. With
        # SO_PASSCRED on the receiver the kernel puts the credentials message first; ending there never delivers the descriptors behind it
        kind_edges = [e for sb in ctx.cfg.live_blocks() if ctx.cfg.term(sb)["k"] == "switch" for e in ctx.cfg.succ[sb]
                      if any(f[0] == "cmp" and any(mentions(x, ctx.prov, lambda z: z[0] == "field" and z[2] in ("cmsg_type", "cmsg_level")) for x in (f[2], f[3]) if isinstance(x, tuple)) for f in ctx.edge_facts(e))]
        again = {bb for bb, t in ctx.cfg.calls(lambda t: (t.get("callee") or "").endswith("Iterator>::next") or (t.get("resolved") or "").endswith("Iterator>::next"))} | ctx.cfg.cycle_blocks()
        none_blocks = {b["id"] for b in it[0]["blocks"] if b["id"] in ctx.cfg.live_blocks() and not b.get("cleanup") and
                       any(st["k"] == "assign" and st["dst"]["l"] == 0 and not st["dst"].get("p") and st["rv"]["k"] == "agg" and st["rv"].get("variant") == "None" for st in b["stmts"])}
        ends = [e for e in kind_edges if none_blocks & ctx.cfg.reachable_from(e.dst, avoid=again)]
        ck.floor("C16.1", "edges testing the kind of a control message", len(kind_edges), 2)
        ck.ob("C16.1", "other-kinds-of-message-are-skipped-not-the-end", not ends, fn=it[0]["path"], site=ctx.site(ends[0].src) if ends else None,
              detail="the iterator answers None right after testing cmsg_type / cmsg_level: a message that is not SCM_RIGHTS must be stepped over (the next header examined), descriptors behind it are otherwise never delivered")

    # a length read out of the buffer (cmsg_len, written by the kernel or the peer) is never subtracted from what is left: `left - len`
    # wraps when the padded length exceeds the rest (a truncated control buffer), and the "is there room" test then says yes. The bound
    # tests add the length to the other side instead
    n_sub = 0
    wraps = []
    for p4, f4 in prog.fns.items():
        if not p4.startswith("rusl::platform::compat::socket") and "ControlMessageIterator" not in p4:
            continue
        cx4 = prog.ctx(f4)
        for b4 in f4["blocks"]:
            if b4["id"] not in cx4.cfg.live_blocks() or b4.get("cleanup"):
                continue
            for i4, st4 in enumerate(b4["stmts"]):
                if st4["k"] == "assign" and st4["rv"]["k"] == "binop" and str(st4["rv"].get("op", "")).startswith("Sub"):
                    n_sub += 1
                    e4 = cx4.prov.rvalue(st4["rv"], (b4["id"], i4))
                    if isinstance(e4, tuple) and e4[0] in ("bin", "overflow") and any(z[0] == "field" and z[2] == "cmsg_len" for z in _walk16(e4[3])) and \
                            not any(z[0] == "field" and z[2] == "cmsg_len" for z in _walk16(e4[2])):
                        wraps.append((p4, span_str(st4["sp"]), show(e4)[:100]))
    ck.ob("C16.1", "buffer-supplied-length-never-subtracted", not wraps, fn=wraps[0][0] if wraps else None, site=wraps[0][1] if wraps else None,
          detail=f"a difference with cmsg_len as subtrahend: {[w[2] for w in wraps]}; it wraps for a message longer than the remaining control data")
    if ck.config != "C":      # without `alloc` the control-message code is not compiled (see the note above)
        ck.floor("C16.1", "subtractions in the control-message code", n_sub, 3)
    # sending: the control buffer is sized from the bytes that are then copied into it - cmsg_space(size_of_val(fds)), the same byte count
    # the copy uses (sizing it by the NUMBER of descriptors agrees for one or two of them and overflows the buffer from three on)
    cs = [f for p2, f in prog.fns.items() if p2.startswith("rusl::platform::compat::socket::MsgHdrBorrow") and p2.endswith("::create_send")]
    if ck.config == "C" and not cs:
        pass
    elif ck.anchor("C16.1", "MsgHdrBorrow::create_send", cs):
        c4 = prog.ctx(cs[0])
        allocs = [bb for bb, t in c4.cfg.calls(lambda t: (t.get("callee") or "").endswith(("vec::from_elem", "Vec::<T>::with_capacity", "Vec::<T, A>::resize")))]
        copies = [bb for bb, t in c4.cfg.calls(lambda t: (t.get("callee") or "").endswith(("ptr::copy_nonoverlapping", "copy_from_slice", "ptr::copy")))]
        ck.ob("C16.1", "send|anchor|control-buffer", len(allocs) == 1 and len(copies) >= 1, fn=cs[0]["path"], detail=f"control buffer allocations {len(allocs)}, payload copies {len(copies)}")
        if len(allocs) == 1 and copies:
            ln = c4.args(allocs[0])[-1]
            cp = c4.args(copies[0])
            want = canon(strip_casts(cp[2])) if len(cp) > 2 else None
            ok = want is not None and any(canon(strip_casts(z)) == want for z in walk_deep(ln, c4.prov, limit=200))
            ck.ob("C16.1", "send|control-buffer-sized-from-the-bytes-copied", ok, fn=cs[0]["path"], site=c4.site(allocs[0]),
                  detail=f"the control buffer length {show(ln)[:100]} must be computed from the byte count {show(cp[2])[:60] if len(cp) > 2 else None} that is copied into it")

    # the first header exists only if the RECEIVED control length holds one: msg_control is looked at only under msg_controllen >= size_of(cmsghdr)
    cm = [f for p2, f in prog.fns.items() if p2.startswith("rusl::platform::compat::socket::MsgHdrBorrow") and p2.endswith("::control_messages")]
    if ck.config == "C" and not cm:
        pass
    elif ck.anchor("C16.1", "MsgHdrBorrow::control_messages", cm):
        c2 = prog.ctx(cm[0])
        reads = []
        for b in cm[0]["blocks"]:
            if b["id"] not in c2.cfg.live_blocks() or b.get("cleanup"):
                continue
            for i, st in enumerate(b["stmts"]):
                if st["k"] == "assign" and st["rv"]["k"] == "use" and st["rv"]["a"]["k"] in ("copy", "move") and any(pe["k"] == "field" and pe.get("n") == "msg_control" for pe in (st["rv"]["a"]["p"].get("p") or [])):
                    reads.append((b["id"], st.get("sp")))
        ck.floor("C16.1", "reads of msg_control in control_messages", len(reads), 1)
        for k, (rb, sp) in enumerate(reads):
            facts = panics.dominating_facts(c2, rb)
            ok = False
            for f in facts:
                if f[0] == "cmp" and f[1] in ("Ge", "Gt", "Le", "Lt"):
                    big, small = (f[2], f[3]) if f[1] in ("Ge", "Gt") else (f[3], f[2])
                    if mentions(big, c2.prov, lambda z: z[0] == "field" and z[2] == "msg_controllen") and (fold(small) in (16, 15) or mentions(small, c2.prov, lambda z: z[0] == "call" and (z[1] or "").endswith("mem::size_of"))):
                        ok = True
            ck.ob("C16.1", f"first-header-only-if-control-length-holds-one|read#{k}", ok, fn=cm[0]["path"], site=span_str(sp),
                  detail="msg_control is used as the first control message without testing msg_controllen >= size_of(cmsghdr): after a receive without ancillary data the iterator parses stale bytes of the caller's buffer (re-delivering old or forged descriptors) or reads past a short buffer")

    # ---- C16.2 try-variants cannot block ---------------------------------------------------------------------------------
    cg = prog.callgraph()
    n_try = 0
    for nm in TRY_FNS:
        fn = prog.fns.get(nm)
        if not ck.anchor("C16.2", nm, fn):
            continue
        n_try += 1
        chain = cg.path(nm, lambda f: f in BLOCKING)
        ck.ob("C16.2", f"{nm.split('net::')[-1]}|no-blocking-call", chain is None, fn=nm, detail=f"a try-variant reaches a blocking wrapper: {chain}")
    ck.floor("C16.2", "try variants", n_try, 5)
    nb = prog.const("rusl::platform::compat::socket::SocketFlags::SOCK_NONBLOCK")
    ce = prog.const("rusl::platform::compat::socket::SocketFlags::SOCK_CLOEXEC")
    n_sock = 0
    for p, fn in sorted(prog.fns.items()):
        if not (p.startswith(NET) or p.startswith("<" + NET)) and "tiny_std::net::" not in p:
            continue
        ctx = prog.ctx(fn)
        for bb, t in ctx.cfg.calls(lambda t: (t.get("callee") or "").endswith(("network::socket::socket", "accept::accept_unix", "accept::accept_inet"))):
            n_sock += 1
            a = ctx.args(bb)
            ai = 1
            fl = None
            for x in a:
                for z in walk_deep(x, ctx.prov):
                    v = fold_flags(prog, ctx, z) if z[0] == "call" and "bitor" in (z[1] or "") else None
                    if v is not None and isinstance(nb, int) and v & nb:
                        fl = v if fl is None else fl | v
                v2 = fold_flags(prog, ctx, x)
                if v2 is not None and isinstance(nb, int) and (v2 & (nb | ce)):
                    fl = v2 if fl is None else fl | v2
            ok = fl is not None and isinstance(nb, int) and isinstance(ce, int) and (fl & nb) and (fl & ce)
            ck.ob("C16.2", f"{p.split('net::')[-1]}|nonblock+cloexec|{t['callee'].split('::')[-1]}", bool(ok), fn=p, site=ctx.site(bb),
                  detail=f"sockets are created/accepted with flags {fl}; SOCK_NONBLOCK ({nb}) and SOCK_CLOEXEC ({ce}) are both required (the try/timeout logic assumes non-blocking descriptors)")
    ck.floor("C16.2", "socket/accept sites in net", n_sock, 8)

    # ---- C16.6 stream adapters: every read/write entry point of a stream hands its own descriptor and the caller's whole buffer to
    # the matching transfer helper (read -> read helper, write -> write helper), passes the caller's limit (or none) and returns the count
    n_ad = 0
    for p_, fn_ in sorted(prog.fns.items()):
        if fn_["crate"] != "tiny_std" or "::net::" not in p_ and "tiny_std::net::" not in p_:
            continue
        last = p_.split("::")[-1]
        kind = "read" if last.startswith("read") else "write" if last.startswith("write") else None
        c6 = None
        for b in fn_["blocks"]:
            t = b["term"]
            if t["k"] != "call" or b.get("cleanup"):
                continue
            cal = t.get("callee") or ""
            if not cal.endswith(("sock::blocking_read_nonblock_sock", "sock::blocking_write_nonblock_sock")):
                continue
            c6 = c6 or prog.ctx(fn_)
            if b["id"] not in c6.cfg.live_blocks():
                continue
            n_ad += 1
            a = c6.args(b["id"])
            helper_kind = "read" if "blocking_read" in cal else "write"
            fd_ok = mentions(a[0], c6.prov, lambda z: z[0] == "param" and z[1] == 1) and not mentions(a[0], c6.prov, lambda z: z[0] in ("bin", "call"))
            buf_ok = canon(strip_casts(a[1])).replace("*", "").replace("&", "") == "p2"
            to = strip_casts(a[2])
            if fn_["argc"] >= 3:
                to_ok = isinstance(to, tuple) and to[0] == "agg" and to[2] == "Some" and canon(strip_casts(to[3][0])) == "p3"
            else:
                to_ok = isinstance(to, tuple) and to[0] == "agg" and to[2] == "None"
            ret_ok = t["dst"]["l"] == 0 and not t["dst"].get("p")
            ck.ob("C16.6", f"{p_.split('net::')[-1]}|adapter-forwards-unchanged", kind == helper_kind and fd_ok and buf_ok and to_ok and ret_ok, fn=p_, site=c6.site(b["id"]),
                  detail=f"a stream's {last} must call the {kind} helper (calls the {helper_kind} helper) on its own descriptor ({fd_ok}) with the caller's whole buffer ({buf_ok}) and limit ({to_ok}) and return its result ({ret_ok})")
    ck.floor("C16.6", "stream read/write adapters", n_ad, 5 if ck.config != "C" else 0)
    for hn, sysn in (("blocking_read_nonblock_sock", "unistd::read::read"), ("blocking_write_nonblock_sock", "unistd::write::write")):
        hf = prog.fns.get("tiny_std::sock::" + hn)
        if hf is None:
            continue
        hc = prog.ctx(hf)
        ops = [bb for bb, t in hc.cfg.calls(lambda t: (t.get("callee") or "").endswith(sysn))]
        good = bool(ops) and all(canon(strip_casts(hc.args(bb)[0])) == "p1" and canon(strip_casts(hc.args(bb)[1])).replace("*", "").replace("&", "") == "p2" for bb in ops)
        ck.ob("C16.6", f"{hn}|transfers-the-callers-buffer-on-the-callers-socket", good, fn=hf["path"], detail=f"every {sysn.split('::')[-1]} in {hn} must be (sock, buf) exactly as received; sites {len(ops)}")

    # ---- C16.6 (cont.) the transfer helpers answer with the count of the operation they just made: every Ok they return is a
    # read/write result (a length taken from the buffer instead claims bytes that were never transferred)
    for hn, sysn in (("blocking_read_nonblock_sock", "unistd::read::read"), ("blocking_write_nonblock_sock", "unistd::write::write")):
        hf = prog.fns.get("tiny_std::sock::" + hn)
        if hf is None:
            continue
        hc = prog.ctx(hf)
        ops = {bb for bb, t in hc.cfg.calls(lambda t: (t.get("callee") or "").endswith(sysn))}
        bad = []
        for b in hf["blocks"]:
            if b.get("cleanup") or b["id"] not in hc.cfg.live_blocks():
                continue
            for i, st in enumerate(b["stmts"]):
                if st["k"] == "assign" and st["dst"]["l"] == 0 and not st["dst"].get("p") and st["rv"]["k"] == "agg" and st["rv"].get("variant") == "Ok":
                    v = hc.prov.operand(st["rv"]["ops"][0], (b["id"], i))
                    if not (mentions(v, hc.prov, lambda z: z[0] == "call" and z[3] in ops) and not mentions(v, hc.prov, lambda z: z[0] == "call" and (z[1] or "").endswith("::len"))):
                        bad.append((b["id"], show(v)[:80]))
            t = b["term"]
            if t["k"] == "call" and t["dst"]["l"] == 0 and not t["dst"].get("p") and not (t.get("callee") or "").endswith(("from_residual", "Into::into", "From::from")) and b["id"] not in ops:
                pass
        ck.ob("C16.6", f"{hn}|ok-is-the-count-of-the-operation", not bad, fn=hf["path"], site=hc.site(bad[0][0]) if bad else None,
              detail=f"an Ok built from something else than the result of {sysn.split('::')[-1]}: {bad[:2]} - after a readiness wait the retried call may transfer only part of the buffer")
    # the control buffer offered to the kernel is the caller's buffer at its full length (the kernel decides how many descriptors fit
    # from msg_controllen: rounding it down drops the last descriptor of an exactly sized buffer)
    for p_, fn_ in sorted(prog.fns.items()):
        if not (p_.startswith("rusl::platform::compat::socket::MsgHdr") and p_.endswith(("::create_recv",))):
            continue
        mc = prog.ctx(fn_)
        for b in fn_["blocks"]:
            for i, st in enumerate(b["stmts"]):
                if st["k"] == "assign" and st["rv"]["k"] == "agg" and "msg_controllen" in (st["rv"].get("fields") or []):
                    d_ = dict(zip(st["rv"]["fields"], [mc.prov.operand(o, (b["id"], i)) for o in st["rv"]["ops"]]))
                    cl = d_["msg_controllen"]
                    vals = list(mc.prov.expand(strip_casts(cl))) if isinstance(strip_casts(cl), tuple) and strip_casts(cl)[0] == "var" else [cl]
                    ok_ = all(fold(v) == 0 or (isinstance(strip_casts(v), tuple) and strip_casts(v)[0] == "call" and (strip_casts(v)[1] or "").endswith("::len")) or
                              (isinstance(strip_casts(v), tuple) and strip_casts(v)[0] == "field" and not mentions(v, mc.prov, lambda z: z[0] == "bin")) for v in vals)
                    ck.ob("C16.1", f"{p_.split('socket::')[-1]}|control-length-is-the-buffers-length", ok_, fn=p_, site=mc.site(b["id"]),
                          detail=f"msg_controllen must be the control buffer's len() (or 0 without a buffer), found {[show(v)[:60] for v in vals]}")

    # ---- C16.3 the Duration -> TimeSpec conversion keeps the whole limit (seconds and the full sub-second part) --------------------------
    cv = [fn for p, fn in prog.fns.items() if p.endswith("TimeSpec as core::convert::TryFrom<core::time::Duration>>::try_from")]
    if ck.anchor("C16.3", "TimeSpec::try_from(Duration)", cv or None):
        cc = prog.ctx(cv[0])
        aggs = []
        for b in cv[0]["blocks"]:
            for i, st in enumerate(b["stmts"]):
                if st["k"] == "assign" and st["rv"]["k"] == "agg" and (st["rv"].get("adt") or "").endswith("__kernel_timespec"):
                    aggs.append(dict(zip(st["rv"]["fields"], [cc.prov.operand(o, (b["id"], i)) for o in st["rv"]["ops"]])))
        ck.ob("C16.3", "conversion|anchor", len(aggs) == 1, fn=cv[0]["path"], detail=f"__kernel_timespec values built: {len(aggs)}")
        for d in aggs:
            arith = lambda e: mentions(e, cc.prov, lambda z: z[0] == "bin")
            ok = mentions(d.get("tv_sec"), cc.prov, lambda z: z[0] == "call" and (z[1] or "").endswith("Duration::as_secs")) and not arith(d.get("tv_sec")) and \
                mentions(d.get("tv_nsec"), cc.prov, lambda z: z[0] == "call" and (z[1] or "").endswith("Duration::subsec_nanos")) and not arith(d.get("tv_nsec"))
            ck.ob("C16.3", "conversion|whole-duration-kept", ok, fn=cv[0]["path"],
                  detail=f"tv_sec must be the Duration's as_secs() and tv_nsec its subsec_nanos(), unmodified (found tv_sec={show(d.get('tv_sec'))[:80]}, tv_nsec={show(d.get('tv_nsec'))[:80]}): a shortened limit reports Timeout early")

    # ---- C16.3 Timeout only from an expired poll ---------------------------------------------------------------------------------
    n_to = 0
    for p, fn in sorted(prog.fns.items()):
        if fn["crate"] != "tiny_std":
            continue
        tos = []
        for b in fn["blocks"]:
            if b.get("cleanup"):
                continue
            for i, s in enumerate(b["stmts"]):
                if s["k"] == "assign" and s["rv"]["k"] == "agg" and (s["rv"].get("adt") or "").endswith("tiny_std::error::Error") and s["rv"].get("variant") == "Timeout":
                    tos.append((b["id"], s["sp"]))
        if not tos:
            continue
        ctx = prog.ctx(fn)
        cfg = ctx.cfg
        polls = [bb for bb, t in cfg.calls(lambda t: (t.get("callee") or "").endswith("poll::ppoll"))]
        for tb, sp in tos:
            if tb not in cfg.live_blocks():
                continue
            n_to += 1
            facts = panics.dominating_facts(ctx, tb)
            ok = any(f[0] == "cmp" and f[1] == "Eq" and 0 in (fold(f[2]), fold(f[3])) and any(mentions(x, ctx.prov, lambda z: z[0] == "call" and z[3] in polls) for x in (f[2], f[3])) for f in facts) or \
                any(f[0] == "cmp" and ((f[1] == "Lt" and fold(f[3]) == 1) or (f[1] == "Le" and fold(f[3]) == 0)) and mentions(f[2], ctx.prov, lambda z: z[0] == "call" and z[3] in polls) for f in facts)   # `ready < 1` on the unsigned count
            ck.ob("C16.3", f"{p}|timeout-only-when-poll-returned-0", ok and bool(polls), fn=p, site=span_str(sp), detail="Error::Timeout may only be produced when ppoll reported 0 ready descriptors (its timeout expired)")
        for pb in polls:
            a = ctx.args(pb)
            # timeout argument: as_ref of Option<TimeSpec> built by one try_from of the Duration parameter
            # (the library's own whole-Duration conversion: a hand-made TimeSpec may drop part of the limit and time out early)
            conv = [bb for bb, t in cfg.calls(lambda t: (t.get("resolved") or t.get("callee") or "").endswith(("TimeSpec as core::convert::TryFrom<core::time::Duration>>::try_from", "Into<rusl::platform::compat::time::TimeSpec>>::try_into")))]
            dur_ok = len(conv) == 1 and mentions(a[1], ctx.prov, lambda z: z[0] == "call" and z[3] == conv[0])
            ck.ob("C16.3", f"{p}|timeout-converted-once", dur_ok, fn=p, site=ctx.site(pb), detail="the caller's Duration must reach ppoll as the TimeSpec converted from it (exactly one conversion, unmodified)")
            none_ok = mentions(a[1], ctx.prov, lambda z: z[0] == "agg" and z[2] == "None")
            ck.ob("C16.3", f"{p}|none-timeout-stays-none", none_ok, fn=p, site=ctx.site(pb), detail="without a timeout ppoll must be called with no timespec (block indefinitely)")
            # ... and a limit that was set stays a limit, whatever its value: "no timespec" is chosen only on the None side of the caller's
            # Option (mapping Some(0) to None turns "do not wait" into "wait forever")
            dropped = []
            for b0 in fn["blocks"]:
                if b0["id"] not in cfg.live_blocks() or b0.get("cleanup"):
                    continue
                for s0 in b0["stmts"]:
                    if s0["k"] == "assign" and not s0["dst"].get("p") and s0["rv"]["k"] == "agg" and s0["rv"].get("variant") == "None" and \
                            "Option<rusl::platform::compat::time::TimeSpec>" in (fn["locals"][s0["dst"]["l"]].get("ty") or "").replace(" ", ""):
                        some_edges = [e for sb in cfg.live_blocks() if cfg.term(sb)["k"] == "switch" for e in cfg.succ[sb] for f in ctx.edge_facts(e)
                                      if f[0] == "variant" and f[2] == "Some" and mentions(f[1], ctx.prov, lambda w: w[0] == "param" and "timeout" in str(w[2])) and not mentions(f[1], ctx.prov, lambda w: w[0] == "call")]
                        if any(b0["id"] in cfg.reachable_from(e.dst) for e in some_edges):
                            dropped.append(b0["id"])
            ck.ob("C16.3", f"{p}|a-set-limit-stays-a-limit", not dropped, fn=p, site=ctx.site(dropped[0]) if dropped else ctx.site(pb),
                  detail="with a timeout given (Some) ppoll can still be called without a timespec: a zero limit would wait forever instead of not at all")
            # EINTR re-polls and only EINTR
            errs = []
            for sb in cfg.live_blocks():
                if cfg.term(sb)["k"] != "switch":
                    continue
                for e in cfg.succ[sb]:
                    for f in ctx.edge_facts(e):
                        if f[0] == "variant" and f[2] == "Err" and isinstance(strip_casts(f[1]), tuple) and strip_casts(f[1])[0] == "call" and strip_casts(f[1])[3] == pb:
                            errs.append(e)
            eintr = set()
            for sb in cfg.live_blocks():
                if cfg.term(sb)["k"] != "switch":
                    continue
                for e in cfg.succ[sb]:
                    for f in ctx.edge_facts(e):
                        if f[0] == "truth" and f[2] is True and mentions(f[1], ctx.prov, lambda z: z[0] == "const" and z[2] and "EINTR" in z[2]):
                            eintr.add((e.src, e.dst))
                        if f[0] == "cmp" and f[1] == "Eq" and 4 in (fold(f[2]), fold(f[3])):
                            eintr.add((e.src, e.dst))
            for e in errs:
                r = cfg.reachable_from(e.dst, avoid_edges=eintr)
                ck.ob("C16.3", f"{p}|repoll-only-on-eintr", pb not in r and cfg.in_cycle(pb), fn=p, site=ctx.site(pb), detail="ppoll may be repeated only after EINTR (and must be then)")
            # after readiness the operation is retried: on the s != 0 edge a call of the same operation with the same arguments
            first_ops = [bb for bb, t in cfg.calls(lambda t: t.get("callee") is None or (t.get("callee") or "").endswith(("unistd::read::read", "unistd::write::write", "Fn::call"))) if cfg.dominates(bb, pb) and bb != pb]
            retry_ops = [bb for bb, t in cfg.calls(lambda t: t.get("callee") is None or (t.get("callee") or "").endswith(("unistd::read::read", "unistd::write::write", "Fn::call"))) if cfg.dominates(pb, bb) and bb != pb]
            same = bool(first_ops) and bool(retry_ops) and all(tuple(canon(x) for x in ctx.args(r0)) == tuple(canon(x) for x in ctx.args(first_ops[0])) and cfg.term(r0).get("callee") == cfg.term(first_ops[0]).get("callee") for r0 in retry_ops)
            ck.ob("C16.3", f"{p}|operation-retried-with-same-arguments", same, fn=p, site=ctx.site(pb), detail="once the descriptor is ready the original operation must be retried with the same arguments")
            # ... and on EVERY path: after ppoll reported readiness (s != 0) nothing is returned except what the retried operation
            # gives (e.g. answering Ok(0) on POLLHUP would drop the bytes still queued in the socket)
            ready = []
            for sb in cfg.live_blocks():
                if cfg.term(sb)["k"] != "switch":
                    continue
                for e in cfg.succ[sb]:
                    for f in ctx.edge_facts(e):
                        if f[0] == "cmp" and f[1] == "Ne" and 0 in (fold(f[2]), fold(f[3])) and any(mentions(x, ctx.prov, lambda z: z[0] == "call" and z[3] == pb) for x in (f[2], f[3])):
                            ready.append(e)
            if retry_ops and ready:
                skipped = []
                for e in ready:
                    r2 = cfg.reachable_from(e.dst, avoid=set(retry_ops) | {pb})
                    skipped += [rb for rb in cfg.return_blocks() if rb in r2]
                path = cfg.find_path(ready[0].dst, lambda b: b in skipped, avoid=set(retry_ops) | {pb}) if skipped else None
                ck.ob("C16.3", f"{p}|ready-always-retries-the-operation", not skipped, fn=p, site=ctx.site(pb), path=cfg.render_path(path) if path else None,
                      detail="after ppoll reported the descriptor ready the function can return without retrying the operation: a result invented from the poll flags (e.g. Ok(0) on POLLHUP) loses data still queued in the socket")
    ck.floor("C16.3", "Timeout construction sites", n_to, 3)
    # the wait matches the operation: reads/accepts/receives wait for POLLIN, writes/sends/connects for POLLOUT
    IN_OPS = ("unistd::read::read", "accept::accept_unix", "accept::accept_inet", "recvmsg::recvmsg", "unistd::read::readv", "network::recv")
    OUT_OPS = ("unistd::write::write", "connect::connect_unix", "connect::connect_inet", "sendmsg::sendmsg", "unistd::write::writev", "network::send")

    def ev_name(e, c):
        for z in walk_deep(e, c.prov, limit=120):
            if z[0] == "const" and z[2] and "PollEvents::POLL" in z[2]:
                return z[2].rsplit("::", 1)[1]
        return None

    def op_kind(path, seen=None):
        """IN / OUT / None for the operations a function (closure) performs, looking one level of local callees deep."""
        seen = seen or set()
        if path in seen or path not in prog.fns:
            return set()
        seen.add(path)
        kinds = set()
        for b in prog.fns[path]["blocks"]:
            t = b["term"]
            if t["k"] == "call" and not b.get("cleanup"):
                cal = (t.get("resolved") or t.get("callee") or "")
                if cal.endswith(IN_OPS):
                    kinds.add("POLLIN")
                if cal.endswith(OUT_OPS):
                    kinds.add("POLLOUT")
        return kinds
    n_dir = 0
    for p, fn in sorted(prog.fns.items()):
        if fn["crate"] != "tiny_std" or fn.get("is_test") or "::test" in p:
            continue
        ctx = prog.ctx(fn)
        for bb, t in ctx.cfg.calls(lambda t: (t.get("callee") or "").endswith("PollFd::new")):
            a = ctx.args(bb)
            ev = ev_name(a[1], ctx) if len(a) > 1 else None
            if ev is None:
                continue   # events supplied by the caller: checked at the call sites below
            kinds = op_kind(p)
            n_dir += 1
            ck.ob("C16.3", f"{p}|waits-for-matching-readiness", kinds == {ev}, fn=p, site=ctx.site(bb),
                  detail=f"the function performs {sorted(kinds) or 'no recognised'}-type operations but waits for {ev}: a writer whose send buffer is full must wait for POLLOUT (waiting for POLLIN blocks for ever once the peer is idle)")
        for bb, t in ctx.cfg.calls(lambda t: (t.get("callee") or "").endswith("sock_nonblock_op_poll_if_not_ready")):
            a = ctx.args(bb)
            ev = ev_name(a[2], ctx) if len(a) > 2 else None
            clos = [z for z in walk_deep(a[-1], ctx.prov, limit=120) if z[0] == "agg" and z[1] == "closure"] if a else []
            kinds = set()
            for b in fn["blocks"]:
                for st in b["stmts"]:
                    if st["k"] == "assign" and st["rv"]["k"] == "agg" and st["rv"].get("ak") == "closure" and st["rv"].get("closure", "").startswith(p):
                        kinds |= op_kind(st["rv"]["closure"])
            n_dir += 1
            ck.ob("C16.3", f"{p}|helper-waits-for-matching-readiness|{ev}", ev is not None and kinds == {ev}, fn=p, site=ctx.site(bb),
                  detail=f"the operation handed to the poll helper is of kind {sorted(kinds) or 'unknown'} but the helper is told to wait for {ev}")
    ck.floor("C16.3", "readiness-direction sites", n_dir, 6)

    # ---- C16.4 pointer/length agreement ---------------------------------------------------------------------------------------------
    n_pairs = 0
    for p, fn in sorted(prog.fns.items()):
        if fn["crate"] != "rusl":
            continue
        if not any(b["term"]["k"] == "call" and is_raw_syscall(b["term"].get("callee")) for b in fn["blocks"]):
            continue
        ctx = prog.ctx(fn)
        for bb, t in ctx.cfg.calls(lambda t: is_raw_syscall(t.get("callee"))):
            a = ctx.args(bb)
            for i in range(1, len(a) - 1):
                ptrs = [z for z in walk_deep(a[i], ctx.prov) if z[0] == "call" and (z[1] or "").endswith(("::as_ptr", "::as_mut_ptr")) and "slice" in (z[1] or "")]
                lens = [z for z in walk_deep(a[i + 1], ctx.prov) if z[0] == "call" and (z[1] or "").endswith("slice::<impl [T]>::len")]
                if ptrs and lens:
                    n_pairs += 1
                    sp_, sl_ = canon(strip_all(ptrs[0][2][0])), canon(strip_all(lens[0][2][0]))
                    direct = isinstance(strip_casts(a[i + 1]), tuple) and strip_casts(a[i + 1])[0] == "call"
                    ck.ob("C16.4", f"{p}|arg{i}", sp_ == sl_ and direct, fn=p, site=ctx.site(bb),
                          detail=f"the kernel receives pointer of `{sp_}` with length `{show(a[i + 1])}`: pointer and length must come from the same slice, unmodified")
    ck.floor("C16.4", "(ptr,len) pairs at syscall sites", n_pairs, 6)

    # ---- C16.5 address construction -----------------------------------------------------------------------------------------------------
    nw = prog.fns.get("rusl::platform::compat::socket::SocketAddressInet::new")
    if ck.anchor("C16.5", "SocketAddressInet::new", nw):
        ctx = prog.ctx(nw)
        ok_port = ok_addr = False
        for b in nw["blocks"]:
            for i, s in enumerate(b["stmts"]):
                if s["k"] == "assign" and s["rv"]["k"] == "agg" and (s["rv"].get("adt") or "").endswith("sockaddr_in"):
                    d = dict(zip(s["rv"]["fields"], [ctx.prov.operand(o, (b["id"], i)) for o in s["rv"]["ops"]]))
                    ok_port = mentions(d.get("sin_port"), ctx.prov, lambda z: z[0] == "call" and (z[1] or "").endswith("u16>::to_be") and z[2] and isinstance(z[2][0], tuple) and z[2][0][0] == "param")
                    ok_addr = mentions(d.get("sin_addr"), ctx.prov, lambda z: z[0] == "call" and (z[1] or "").endswith(("u32>::from_le_bytes", "u32>::from_ne_bytes")))
        ck.ob("C16.5", "port-network-order", ok_port, fn=nw["path"], detail="sin_port must be port.to_be()")
        ck.ob("C16.5", "address-bytes-memory-order", ok_addr, fn=nw["path"], detail="s_addr must be the four address bytes in memory order (from_le/ne_bytes on a little-endian target)")
    tu = prog.fns.get("rusl::platform::compat::socket::SocketAddressUnix::try_from_unix")
    if ck.anchor("C16.5", "try_from_unix", tu):
        ctx = prog.ctx(tu)
        cfg = ctx.cfg
        # Err reachable on (ind == 107 && byte != 0)
        guard = False
        for sb in cfg.live_blocks():
            if cfg.term(sb)["k"] != "switch":
                continue
            for e in cfg.succ[sb]:
                for f in ctx.edge_facts(e):
                    if f[0] == "cmp" and f[1] == "Eq" and 107 in (fold(f[2]), fold(f[3])):
                        r = cfg.reachable_from(e.dst)
                        if any(any(s["k"] == "assign" and s["dst"]["l"] == 0 and s["rv"]["k"] == "agg" and s["rv"].get("variant") == "Err" for s in cfg.block(b)["stmts"]) for b in r):
                            guard = True
        ck.ob("C16.5", "unix-path-too-long-rejected", guard, fn=tu["path"], detail="a path without terminator within 108 bytes must be rejected at index 107")
        ln = False
        for b in tu["blocks"]:
            for i, s in enumerate(b["stmts"]):
                if s["k"] == "assign" and s["rv"]["k"] == "agg" and (s["rv"].get("adt") or "").endswith("SocketArgUnix"):
                    d = dict(zip(s["rv"]["fields"], [ctx.prov.operand(o, (b["id"], i)) for o in s["rv"]["ops"]]))
                    e = strip_casts(d.get("addr_len"))
                    ln = isinstance(e, tuple) and e[0] == "bin" and e[1] == "Add" and 2 in (fold(e[2]), fold(e[3]))
        ck.ob("C16.5", "unix-addr-len", ln, fn=tu["path"], detail="addr_len must be (bytes copied incl. NUL) + size_of(sa_family_t) (= 2)")


def strip_all(e):
    while isinstance(e, tuple) and e[0] in ("ref", "addr", "deref", "cast"):
        e = e[2] if e[0] in ("ref", "addr", "cast") else e[1]
    return e
