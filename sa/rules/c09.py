"""C09 — syscall wrappers: classification before use, errno negated once, success value intact, one call."""
from ..engine.prov import const_value, strip_casts, walk, walk_deep, show
from ..engine.dtable import canon
from ..engine.fold import fold
from ..engine.cfg import is_raw_syscall
from .c12 import mentions

CONFIGS_QUICK = ["A", "B", "C"]
CONFIGS_THOROUGH = ["A", "B", "C", "R", "X"]

EXPLANATION = (
    "Decided (static, MIR of rusl, tiny-std and tiny-start in every listed configuration): C09.1 the error threshold is `res > usize::MAX - 4095`; "
    "C09.2 at every raw system-call site (sc::syscallN) the result is classified by is_syscall_error / Fd::coerce_from_register before any other use: "
    "a use that is not dominated by the classifier's success edge (or, for errno construction, its error edge) is a violation, as is a result that is never looked at, "
    "except for a reviewed table of calls that cannot fail or do not return (EXIT, RT_SIGRETURN, GETPID, MUNMAP==0 in the allocator, SET_TID_ADDRESS, ARCH_PRCTL, EXECVE which only returns on error); "
    "C09.3 every errno handed to Error::with_code that derives from a syscall result is exactly 0 - (res as i32); "
    "C09.8 the errno carrier is lossless: Errno's field holds at least 16 bits and Errno::new / Errno::raw pass the code through unchanged; C09.4 on the success edge the Ok payload is the result itself, a cast of it or unrelated to it (no arithmetic on it), and for calls whose success value is a full-width quantity (offsets, byte counts, addresses) it never passes through a 32-bit cast or the 31-bit descriptor decoder; "
    "C09.5 no raw syscall site lies on a CFG cycle except dup's documented EBUSY retry, whose back edge must be on the classified error path with errno == EBUSY; "
    "C09.6 wrappers returning a descriptor build it with coerce_from_register. "
    "C09.4 also: no component of a wrapper's success value is simply the caller's own argument handed back. C09.2 also: nothing can end a wrapper between the call and the classification of its result. "
    "C09.7 a wrapper answers only with what its own system call just returned (no wrapper returns without having made its call: a remembered answer is stale after fork), and a result the kernel classified as success is never turned into an error afterwards. C09.4 also: the success value is not passed through a computing function (min, max, clamp, saturating_*) on its way out. NOT decided: what the kernel returns; behaviour under forced results (fault injection).")
ASSUMPTIONS = ["reviewed table of infallible / non-returning calls (see rule module)",
               "sc::syscallN returns the raw rax/x0 register value"]

# syscall name -> reason it may be used without classification (one line each)
REVIEWED_UNCLASSIFIED = {
    "EXIT": "does not return",
    "EXIT_GROUP": "does not return",
    "RT_SIGRETURN": "does not return",
    "GETPID": "cannot fail",
    "GETTID": "cannot fail",
    "GETUID": "cannot fail", "GETEUID": "cannot fail", "GETGID": "cannot fail", "GETEGID": "cannot fail", "GETPPID": "cannot fail",
    "SET_TID_ADDRESS": "always succeeds, returns the caller's tid; result unused",
    "ARCH_PRCTL": "ARCH_SET_FS with a valid pointer by construction; result unused at start-up",
    "EXECVE": "returns only on error (C09.3 still applies to the errno)",
    "SCHED_YIELD": "always succeeds",
}
# (function, syscall) pairs where a raw comparison is the classification (0 is the only success value)
REVIEWED_UNCLASSIFIED_AT = {
    ("rusl::time::clock_get_time::clock_get_real_time", "CLOCK_GETTIME"): "documented infallible: constant valid clock id and a valid out-pointer",
    ("rusl::time::clock_get_time::clock_get_monotonic_time", "CLOCK_GETTIME"): "documented infallible: constant valid clock id and a valid out-pointer",
}
REVIEWED_RAW_COMPARE = {
    ("tiny_std::allocator::dlmalloc::syscall_free", "MUNMAP"): "MUNMAP returns 0 or -errno; `== 0` is exact",
    ("tiny_std::allocator::dlmalloc::syscall_free_part", "MUNMAP"): "as above",
}
CLASSIFIERS = ("rusl::platform::compat::is_syscall_error", "rusl::platform::numbers::non_negative_i32::NonNegativeI32::coerce_from_register")
LOCAL_CRATES = ("rusl", "tiny_std", "tiny_start")


WIDE_RESULTS = {"LSEEK", "READ", "WRITE", "READV", "WRITEV", "PREAD64", "PWRITE64", "PREADV", "PWRITEV", "MMAP", "MREMAP", "BRK", "COPY_FILE_RANGE", "SENDFILE", "SPLICE",
                "GETDENTS64", "RECVFROM", "SENDTO", "RECVMSG", "SENDMSG", "READLINK", "READLINKAT", "GETRANDOM", "GETCWD"}


def run(ck, progs, tier):
    for cfgname, prog in progs.items():
        ck.set_config(prog)
        run_one(ck, prog)


def syscall_name(prog, ctx, bb):
    t = ctx.cfg.term(bb)
    a0 = t["args"][0] if t["args"] else None
    if a0 and a0.get("k") == "const" and a0.get("path"):
        return a0["path"].split("::")[-1]
    e = ctx.args(bb)[0] if t["args"] else None
    for x in walk(e) if e is not None else []:
        if x[0] == "const" and x[2] and "::nr::" in x[2] and x[2].startswith("sc::"):
            return x[2].split("::")[-1]
    return f"nr={canon(e)}"


def derived_locals(ctx, root_local, root_at):
    """Locals holding the raw result or a cast/copy of it: {local: 'raw'|'cast'|'arith'}; flow-insensitive closure over assignments."""
    kinds = {root_local: "raw"}
    changed = True
    while changed:
        changed = False
        for b in ctx.fn["blocks"]:
            if b["id"] not in ctx.cfg.live_blocks():
                continue
            for s in b["stmts"]:
                if s["k"] != "assign" or s["dst"].get("p"):
                    continue
                rv = s["rv"]
                srcs = []
                k = None
                if rv["k"] == "use":
                    srcs, k = [rv["a"]], "same"
                elif rv["k"] == "cast":
                    srcs, k = [rv["a"]], "cast"
                elif rv["k"] in ("binop",) and rv["op"] not in ("Eq", "Ne", "Lt", "Le", "Gt", "Ge", "Cmp"):
                    srcs, k = [rv["a"], rv["b"]], "arith"
                elif rv["k"] == "unop":
                    srcs, k = [rv["a"]], "arith"
                for o in srcs:
                    if o.get("k") in ("copy", "move") and not o["p"].get("p") and o["p"]["l"] in kinds:
                        base = kinds[o["p"]["l"]]
                        nk = base if k == "same" else ("cast" if (k == "cast" and base in ("raw", "cast")) else "arith")
                        d = s["dst"]["l"]
                        # only single-def temporaries or the user variable bound to the result
                        if d not in kinds:
                            # a local with other defs unrelated to the result is not 'derived'
                            defs = ctx.prov.defs.get((d, None), [])
                            if len(defs) == 1:
                                kinds[d] = nk
                                changed = True
    return kinds


def operand_locals(o):
    if o and o.get("k") in ("copy", "move"):
        yield o["p"]["l"]
        for pe in o["p"].get("p", []):
            if pe["k"] == "index":
                yield pe["l"]


def stmt_reads(s):
    if s["k"] != "assign":
        return
    rv = s["rv"]
    for k in ("a", "b"):
        if isinstance(rv.get(k), dict):
            yield from operand_locals(rv[k])
    for o in rv.get("ops", []):
        yield from operand_locals(o)
    if "p" in rv and isinstance(rv["p"], dict):
        yield rv["p"]["l"]


def run_one(ck, prog):
    # ---- C09.8 the errno carrier is lossless: every code in 1..=4095 must survive Errno::new -> Errno::raw ---------------------------
    ea = prog.adts.get("rusl::error::errno::Errno")
    if ck.anchor("C09.8", "Errno", ea):
        ftys = [f_["ty"] for v in ea["variants"] for f_ in v["fields"]]
        wide = {"i16": 16, "u16": 16, "i32": 32, "u32": 32, "i64": 64, "u64": 64, "isize": 64, "usize": 64, "i128": 128, "u128": 128, "i8": 8, "u8": 8}
        ck.ob("C09.8", "errno-carrier-holds-4095", len(ftys) == 1 and wide.get(ftys[0], 0) >= 16 and ftys[0] != "i8", detail=f"Errno stores its code in {ftys}: the kernel's error window is 1..=4095, a narrower field reports errno modulo its range")
        for nm in ("new", "raw"):
            ef = prog.fns.get("rusl::error::errno::Errno::" + nm)
            if not ck.anchor("C09.8", "Errno::" + nm, ef):
                continue
            ec = prog.ctx(ef)
            rets = list(ec.ret_expr().values())
            narrow = [x for r in rets for x in walk_deep(r, ec.prov) if x[0] == "cast" and wide.get(str(x[3]), 64) < 16] + \
                     [x for r in rets for x in walk_deep(r, ec.prov) if x[0] in ("bin", "call")]
            ck.ob("C09.8", f"errno-{nm}-is-the-identity", len(rets) == 1 and not narrow and mentions(rets[0], ec.prov, lambda z: z[0] == "param" and z[1] == 1), fn=ef["path"],
                  detail=f"Errno::{nm} must hand the code through unchanged; found {show(rets[0]) if rets else None}")
    # ---- C09.1 threshold ---------------------------------------------------------------------
    f = prog.fns.get(CLASSIFIERS[0])
    if ck.anchor("C09.1", "is_syscall_error", f):
        ctx = prog.ctx(f)
        rets = list(ctx.ret_expr().values())
        ok = False
        if len(rets) == 1:
            r = strip_casts(rets[0])
            # any spelling of  res >= 2^64 - 4095  (i.e. res in [-4095, -1] as unsigned)
            FIRST = (1 << 64) - 4095
            if isinstance(r, tuple) and r[0] == "bin" and r[1] in ("Gt", "Ge", "Lt", "Le"):
                op, a, b = r[1], strip_casts(r[2]), strip_casts(r[3])
                if isinstance(b, tuple) and b[0] == "param":       # constant on the left: flip
                    op, a, b = {"Gt": "Lt", "Ge": "Le", "Lt": "Gt", "Le": "Ge"}[op], b, a
                c = const_value(b) if const_value(b) is not None else fold(b)
                ok = isinstance(a, tuple) and a[0] == "param" and ((op == "Gt" and c == FIRST - 1) or (op == "Ge" and c == FIRST))
                if not ok and c is not None:
                    # the same window through the negation: the test is on  s*res + k (mod 2^64)  with s = +/-1 - e.g.
                    # res.wrapping_neg().wrapping_sub(1) < 4095 - so it holds on one interval of res; that interval must be the window
                    M = 1 << 64

                    def affine(e, depth=0):
                        e = strip_casts(e)
                        if isinstance(e, tuple) and e[0] == "param":
                            return (1, 0)
                        if not isinstance(e, tuple) or depth > 8:
                            return None
                        if e[0] == "call" and (e[1] or "").endswith("::wrapping_neg") and e[2]:
                            x = affine(e[2][0], depth + 1)
                            return None if x is None else (-x[0], (-x[1]) % M)
                        if e[0] == "un" and e[1] == "Neg":
                            x = affine(e[2], depth + 1)
                            return None if x is None else (-x[0], (-x[1]) % M)
                        if e[0] == "un" and e[1] == "Not":
                            x = affine(e[2], depth + 1)
                            return None if x is None else (-x[0], (-x[1] - 1) % M)
                        if e[0] == "call" and (e[1] or "").endswith(("::wrapping_sub", "::wrapping_add")) and len(e[2]) == 2:
                            x, k = affine(e[2][0], depth + 1), fold(e[2][1])
                            if x is None or k is None:
                                return None
                            return (x[0], (x[1] + (k if e[1].endswith("add") else -k)) % M)
                        if e[0] == "bin" and e[1] in ("Add", "Sub") and fold(e[3]) is not None:
                            x = affine(e[2], depth + 1)
                            return None if x is None else (x[0], (x[1] + (fold(e[3]) if e[1] == "Add" else -fold(e[3]))) % M)
                        return None
                    af = affine(a)
                    if af is not None:
                        s_, k_ = af
                        # values v = s*res + k with v in [vlo, vhi]
                        vlo, vhi = {"Lt": (0, c - 1), "Le": (0, c), "Gt": (c + 1, M - 1), "Ge": (c, M - 1)}[op]
                        if 0 <= vlo <= vhi < M:
                            lo, hi = ((vlo - k_) % M, (vhi - k_) % M) if s_ == 1 else ((k_ - vhi) % M, (k_ - vlo) % M)
                            ok = (lo, hi) == (FIRST, M - 1)
        ck.ob("C09.1", "threshold", ok, fn=f["path"], detail=f"is_syscall_error must be true exactly for res >= usize::MAX - 4094 (`res > usize::MAX - 4095`); found {show(rets[0]) if rets else None}")
    cf = prog.fns.get(CLASSIFIERS[1])
    if ck.anchor("C09.1", "coerce_from_register", cf):
        cctx = prog.ctx(cf)
        calls = [bb for bb, t in cctx.cfg.calls(lambda t: t.get("callee") == CLASSIFIERS[0])]
        ok = len(calls) == 1 and isinstance(cctx.args(calls[0])[0], tuple) and cctx.args(calls[0])[0][0] == "param"
        ck.ob("C09.1", "coerce-uses-classifier", ok, fn=cf["path"], detail="coerce_from_register must classify its argument with is_syscall_error")
        check_errno_sites(ck, prog, cctx, None, {}, is_coerce=True)

    # ---- sites ------------------------------------------------------------------------------------
    n_sites = n_classified = n_table = 0
    for path, fn in sorted(prog.fns.items()):
        if fn["crate"] not in LOCAL_CRATES:
            continue
        has = any(b["term"]["k"] == "call" and is_raw_syscall(b["term"].get("callee")) for b in fn["blocks"])
        if not has:
            continue
        ctx = prog.ctx(fn)
        sites = [(bb, t) for bb, t in ctx.cfg.calls(lambda t: is_raw_syscall(t.get("callee")))]
        for bb, t in sites:
            n_sites += 1
            name = syscall_name(prog, ctx, bb)
            dst = t["dst"]
            key = f"{path}|{name}"
            # C09.5 cycles
            if ctx.cfg.in_cycle(bb):
                check_retry(ck, prog, ctx, bb, name, key)
            if dst.get("p"):
                ck.ob("C09.2", f"{key}|result-place", False, fn=path, site=ctx.site(bb), detail="syscall result written to a projected place; not analysable")
                continue
            kinds = derived_locals(ctx, dst["l"], bb)
            res = classify_site(ck, prog, ctx, bb, name, kinds, key)
            if res == "classified":
                n_classified += 1
            elif res == "table":
                n_table += 1
        check_errno_sites(ck, prog, ctx, sites, {})
    # floors = sites counted on the pinned tree per configuration (A 85, B 77, C 80)
    ck.floor("C09.2", "raw syscall sites", n_sites, {"A": 85, "B": 77, "C": 80, "R": 85}.get(ck.config, 70))
    ck.extra.setdefault("syscall_sites", {})[ck.config] = {"sites": n_sites, "classified": n_classified, "reviewed_table": n_table}

    # ---- C09.7 a wrapper's success always comes from the kernel -------------------------------------------------------
    # "issues the call once per invocation": no Ok return of a rusl wrapper is reachable without passing one of its raw
    # syscall sites (a shortcut that answers without asking the kernel also skips the call's side effects).
    n7 = 0
    from ..engine import pathsens
    for path, fn in sorted(prog.fns.items()):
        if fn["crate"] != "rusl" or fn["kind"] == "Closure" or "::test" in path:
            continue
        if not fn["locals"][0]["ty"].startswith("core::result::Result<"):
            # a wrapper that cannot fail (getpid, getuid ..) still asks the kernel every time: no return without the call (a value cached
            # in a static is the parent's answer in a forked child)
            if any(b["term"]["k"] == "call" and is_raw_syscall(b["term"].get("callee")) for b in fn["blocks"]):
                cx = prog.ctx(fn)
                sites0 = {bb for bb, t in cx.cfg.calls(lambda t: is_raw_syscall(t.get("callee")))}
                r0 = cx.cfg.reachable_from(0, avoid=sites0)
                skipped = [rb for rb in cx.cfg.return_blocks() if rb in r0]
                n7 += 1
                ck.ob("C09.7", f"{path}|answer-only-after-syscall", not skipped, fn=path, site=cx.site(skipped[0]) if skipped else None,
                      detail="the wrapper can return without issuing its system call (a cached or short-circuited answer)")
            continue
        if not any(b["term"]["k"] == "call" and is_raw_syscall(b["term"].get("callee")) for b in fn["blocks"]):
            continue
        ctx = prog.ctx(fn)
        sites = {bb for bb, t in ctx.cfg.calls(lambda t: is_raw_syscall(t.get("callee")))}
        oks = [b["id"] for b in fn["blocks"] if b["id"] in ctx.cfg.live_blocks() and not b.get("cleanup") and
               any(s["k"] == "assign" and s["dst"]["l"] == 0 and s["rv"]["k"] == "agg" and s["rv"].get("variant") == "Ok" for s in b["stmts"])]
        if not oks:
            continue
        n7 += 1
        r = ctx.cfg.reachable_from(0, avoid=sites)
        bad = [b for b in oks if b in r]
        # ... and what the kernel reported as success stays a success: from the classifier's "no error" edge no `Err(..)` is built before
        # another call is made (turning a result of 0 - end of file - into an error invents a failure the kernel did not report)
        inv = []
        for sb in ctx.cfg.live_blocks():
            if ctx.cfg.term(sb)["k"] != "switch":
                continue
            for e in ctx.cfg.succ[sb]:
                for f in ctx.edge_facts(e):
                    if f[0] == "truth" and f[2] is False and isinstance(f[1], tuple) and f[1][0] == "call" and (f[1][1] or "") == CLASSIFIERS[0]:
                        rr = pathsens.reachable(ctx, e.dst, avoid=sites, via_edge=(e.src, e.dst))
                        inv += [b for b in rr if any(s2["k"] == "assign" and s2["dst"]["l"] == 0 and not s2["dst"].get("p") and s2["rv"]["k"] == "agg" and s2["rv"].get("variant") == "Err" for s2 in ctx.cfg.block(b)["stmts"])]
        ck.ob("C09.7", f"{path}|kernel-success-stays-success", not inv, fn=path, site=ctx.site(inv[0]) if inv else None,
              detail="after the kernel's result was classified as success the wrapper still builds an error")
        ck.ob("C09.7", f"{path}|success-only-after-syscall", not bad, fn=path, site=ctx.site(bad[0]) if bad else None,
              detail="the wrapper can return Ok without having issued its system call on that path (the kernel-side effect of the call, e.g. dup3 clearing O_CLOEXEC, silently does not happen)")
    ck.floor("C09.7", "wrappers with an Ok return", n7, 40)

    # ---- C09.6 Fd-returning wrappers ---------------------------------------------------------------
    n = 0
    for path, fn in prog.fns.items():
        if fn["crate"] != "rusl" or fn["kind"] == "Closure":
            continue
        ret = fn["locals"][0]["ty"]
        if not ret.startswith("core::result::Result<rusl::platform::numbers::non_negative_i32::NonNegativeI32,"):
            continue
        ctx = prog.ctx(fn)
        if not any(True for _ in ctx.cfg.calls(lambda t: is_raw_syscall(t.get("callee")))):
            continue
        n += 1
        ok = any(True for _ in ctx.cfg.calls(lambda t: t.get("callee") == CLASSIFIERS[1]))
        ck.ob("C09.6", f"fd-wrapper|{path}", ok, fn=path, detail="a wrapper returning a descriptor must build it with Fd::coerce_from_register (range- and error-checked)")
    ck.floor("C09.6", "Fd-returning wrappers", n, 5)


def classify_site(ck, prog, ctx, bb, name, kinds, key):
    path = ctx.path
    cfg = ctx.cfg
    live = cfg.live_blocks()
    # classifier calls on the raw value
    class_calls = []   # (bb, which)
    bad_class = []
    uses = []          # (bb, idx|'term', local, descr)
    for b in ctx.fn["blocks"]:
        bid = b["id"]
        if bid not in live:
            continue
        for i, s in enumerate(b["stmts"]):
            if s["k"] != "assign":
                continue
            if not s["dst"].get("p") and s["dst"]["l"] in kinds and any(l in kinds for l in stmt_reads(s)):
                continue  # propagation statement
            for l in stmt_reads(s):
                if l in kinds:
                    uses.append((bid, i, l, "stmt"))
        t = b["term"]
        if t["k"] == "call":
            c = t.get("callee")
            for ai, a in enumerate(t["args"]):
                for l in operand_locals(a):
                    if l in kinds:
                        if c in CLASSIFIERS and ai == 0:
                            if kinds[l] == "raw":
                                class_calls.append((bid, c))
                            else:
                                bad_class.append((bid, kinds[l]))
                        else:
                            uses.append((bid, "term", l, f"arg of {c}"))
        elif t["k"] == "switch":
            for l in operand_locals(t["discr"]):
                if l in kinds:
                    uses.append((bid, "term", l, "switch"))
        elif t["k"] == "assert":
            # overflow assertion on `0 - res as i32`: part of errno construction
            pass
        elif t["k"] == "return":
            pass
    for bid, k in bad_class:
        ck.ob("C09.2", f"{key}|classifier-on-altered-value", False, fn=path, site=ctx.site(bid),
              detail=f"the error test is applied to a {k} of the syscall result, not to the raw register value")
    # returned directly? (_0 derived)
    returns_raw = 0 in kinds
    succ_edges, err_edges = [], []
    coerce = [b_ for b_, c in class_calls if c == CLASSIFIERS[1]]
    for cb, c in class_calls:
        if c != CLASSIFIERS[0]:
            continue
        for sb in live:
            if cfg.term(sb)["k"] != "switch":
                continue
            for e in cfg.succ[sb]:
                for f in ctx.edge_facts(e):
                    if f[0] == "truth" and isinstance(f[1], tuple) and f[1][0] == "call" and f[1][3] == cb:
                        (err_edges if f[2] else succ_edges).append(e)
    classified = bool(succ_edges or err_edges or coerce)

    def dominated_by_any(edges, b):
        return any(cfg.edge_dominates(e, b) for e in edges)

    if classified and REVIEWED_UNCLASSIFIED.get(name) == "cannot fail":
        # asking the classifier about a call that cannot fail (a debug assertion, say) changes nothing: the value is still the answer
        ck.ob("C09.2", f"{key}|reviewed", True, fn=path, site=ctx.site(bb), detail=f"reviewed: {REVIEWED_UNCLASSIFIED[name]}")
        return "table"
    if not classified:
        if name in REVIEWED_UNCLASSIFIED:
            ck.ob("C09.2", f"{key}|reviewed", True, fn=path, site=ctx.site(bb), detail=f"reviewed: {REVIEWED_UNCLASSIFIED[name]}")
            return "table"
        if (path, name) in REVIEWED_UNCLASSIFIED_AT and not uses and not returns_raw:
            ck.ob("C09.2", f"{key}|reviewed", True, fn=path, site=ctx.site(bb), detail=f"reviewed: {REVIEWED_UNCLASSIFIED_AT[(path, name)]}")
            return "table"
        if (path, name) in REVIEWED_RAW_COMPARE:
            # the only uses are a comparison with 0
            ok = all(is_compare_zero(ctx, u) for u in uses) and bool(uses)
            ck.ob("C09.2", f"{key}|reviewed-compare", ok, fn=path, site=ctx.site(bb), detail=f"reviewed raw comparison must stay `== 0`: {REVIEWED_RAW_COMPARE[(path, name)]}")
            return "table"
        why = "is never examined (an error would be reported as success)" if not uses and not returns_raw else "is used without being classified by is_syscall_error / coerce_from_register"
        ck.ob("C09.2", f"{key}|unclassified", False, fn=path, site=ctx.site(bb), detail=f"the result of {name} {why}")
        return "bad"
    ok_all = True
    for (ub, ui, l, what) in uses:
        if dominated_by_any(succ_edges, ub) or dominated_by_any(err_edges, ub):
            continue
        # uses after a coerce_from_register call are of the Result, not of the raw value; raw uses elsewhere are violations
        ok_all = False
        ck.ob("C09.2", f"{key}|raw-use-before-classification", False, fn=path, site=(ctx.site(ub) if ui == "term" else f"{ctx.fn['span']['f']}:{cfg.block(ub)['stmts'][ui]['sp']['l']}"),
              detail=f"the raw result of {name} is used ({what}) on a path where it has not been classified; a success value can be mistaken for an error code or vice versa")
    if returns_raw and not all(dominated_by_any(succ_edges, rb) or dominated_by_any(err_edges, rb) for rb in cfg.return_blocks() if _ret_reads(ctx, rb, kinds)):
        ok_all = False
        ck.ob("C09.2", f"{key}|raw-returned", False, fn=path, site=ctx.site(bb), detail=f"the raw result of {name} is returned without classification")
    # nothing else can end the wrapper between the call and the look at its result: a `?` on some other value in between (an out-array
    # checked first, say) returns without the errno the kernel gave
    nxt = cfg.term(bb).get("t")
    if nxt is not None:
        early = [rb for rb in cfg.return_blocks() if rb in cfg.reachable_from(nxt, avoid={cb for cb, _ in class_calls})]
        if early:
            ok_all = False
            ck.ob("C09.2", f"{key}|result-examined-before-any-other-exit", False, fn=path, site=ctx.site(early[0]),
                  detail=f"the wrapper can return after {name} without having classified its result: an error reported by the kernel is then lost (no errno) or replaced")
    if ok_all:
        ck.ob("C09.2", f"{key}|classified", True, fn=path, site=ctx.site(bb), detail="classified before use")
    # C09.4 success payload: no arithmetic on the result inside Ok(..)
    for rb, e in ctx.ret_expr().items():
        for x in walk_deep(e, ctx.prov):
            if x[0] == "agg" and x[2] == "Ok" and x[3]:
                payload = x[3][0]
                # what succeeds is what the kernel said: no component of the success value is simply the caller's own argument handed
                # back (wait4 answers 0 for "still running" and the reaped pid for a wildcard wait - not the pid that was asked about)
                pl = strip_casts(payload)
                comps = list(pl[3] or ()) if isinstance(pl, tuple) and pl[0] == "agg" else [pl]
                echoed = [c for c in comps if isinstance(strip_casts(c), tuple) and strip_casts(c)[0] == "param"]
                if echoed:
                    ck.ob("C09.4", f"{key}|success-value-is-the-kernels-answer", False, fn=path, site=ctx.site(bb),
                          detail=f"the success value of {name} contains the caller's argument {show(echoed[0])} where the kernel's return value belongs")
                for y in walk(payload):
                    if y[0] == "bin" and any(z[0] == "call" and z[3] == bb and is_raw_syscall(z[1]) for side in (y[2], y[3]) for z in walk(strip_casts(side)) if True):
                        direct = [side for side in (y[2], y[3]) if isinstance(strip_casts(side), tuple) and strip_casts(side)[0] == "call" and strip_casts(side)[3] == bb]
                        if direct:
                            ck.ob("C09.4", f"{key}|arith-on-success-value", False, fn=path, site=ctx.site(bb),
                                  detail=f"the success value of {name} is modified before being returned: {show(y)}")
    # ... nor passed through a function that computes with it (min, max, clamp, saturating_*, ...): with MSG_TRUNC recvmsg answers the real
    # datagram length, larger than the buffers; clamping it hides the truncation. Decoders that only re-type the value are listed.
    RETYPE = ("coerce_from_register", "From::from", "Into::into", "TryFrom::try_from", "TryInto::try_into", "NonNull::<T>::new_unchecked", "NonNull::<T>::new",
              "with_exposed_provenance", "with_exposed_provenance_mut", "::cast", "from_bits_retain", "from_bits_truncate", "::into", "::from")
    for rb, e in ctx.ret_expr().items():
        for x in walk_deep(e, ctx.prov):
            if x[0] == "agg" and x[2] == "Ok" and x[3]:
                for y in walk(x[3][0]):
                    if y[0] == "call" and y[3] != bb and not is_raw_syscall(y[1]) and not (y[1] or "").endswith(RETYPE):
                        direct = [a for a in (y[2] or ()) if isinstance(strip_casts(a), tuple) and strip_casts(a)[0] == "call" and strip_casts(a)[3] == bb and is_raw_syscall(strip_casts(a)[1])]
                        if direct:
                            ck.ob("C09.4", f"{key}|success-value-computed-with", False, fn=path, site=ctx.site(bb),
                                  detail=f"the success value of {name} is passed through `{y[1]}` before being returned: what the kernel answered is no longer what the caller gets")
    # C09.4 (width): a full-width success value (offset, byte count, address) is not squeezed through a 32-bit type
    if name in WIDE_RESULTS:
        for rb, e in ctx.ret_expr().items():
            for x in walk_deep(e, ctx.prov):
                if x[0] == "agg" and x[2] == "Ok" and x[3]:
                    payload = x[3][0]
                    is_site = lambda z: z[0] == "call" and z[3] == bb and is_raw_syscall(z[1])  # noqa: E731
                    if not any(is_site(z) for z in walk_deep(payload, ctx.prov, limit=200)):
                        continue
                    narrow = None
                    for y in walk_deep(payload, ctx.prov, limit=200):
                        if y[0] == "cast" and str(y[3]) in ("i32", "u32", "i16", "u16", "i8", "u8") and any(is_site(z) for z in walk_deep(y[2], ctx.prov, limit=100)):
                            narrow = f"cast to {y[3]}"
                        if y[0] == "call" and (y[1] or "").endswith("coerce_from_register") and any(is_site(z) for a in y[2] for z in walk_deep(a, ctx.prov, limit=100)):
                            narrow = "NonNegativeI32 / Fd::coerce_from_register (a 31-bit decoder meant for descriptors and small counts)"
                    ck.ob("C09.4", f"{key}|success-value-keeps-its-width", narrow is None, fn=path, site=ctx.site(bb),
                          detail=f"the success value of {name} (an offset / byte count / address: any value up to -4096 as unsigned) passes through {narrow}: results of 2^31 and above come back altered")
    return "classified"


def _ret_reads(ctx, rb, kinds):
    return True


def is_compare_zero(ctx, use):
    ub, ui, l, what = use
    if ui == "term":
        return False
    s = ctx.cfg.block(ub)["stmts"][ui]
    rv = s["rv"]
    if rv["k"] != "binop" or rv["op"] not in ("Eq", "Ne"):
        return False
    other = rv["b"] if (rv["a"].get("k") in ("copy", "move") and rv["a"]["p"]["l"] == l) else rv["a"]
    return other.get("k") == "const" and other.get("value") == 0


def check_errno_sites(ck, prog, ctx, sites, _unused, is_coerce=False):
    """C09.3: Error::with_code(_, c) with c derived from a syscall result (or, in coerce_from_register, from the parameter): c == 0 - (res as i32)."""
    for bb, t in ctx.cfg.calls(lambda t: (t.get("callee") or "") == "rusl::error::Error::with_code"):
        args = ctx.args(bb)
        if len(args) < 2:
            continue
        c = args[1]
        src = None
        for x in walk_deep(c, ctx.prov):
            if x[0] == "call" and is_raw_syscall(x[1]):
                src = x
            if is_coerce and x[0] == "param" and x[1] == 1:
                src = x
        if src is None:
            continue
        cs = c
        # the payload of a variant that was built a moment ago: (Some(x) as Some).0 is x (a classifier helper returning Option<errno>, expanded)
        while isinstance(cs, tuple) and cs[0] == "field" and isinstance(cs[1], tuple) and cs[1][0] == "downcast" and isinstance(cs[1][1], tuple) and cs[1][1][0] == "agg" and cs[1][1][2] == cs[1][2] and len(cs[1][1][3]) == 1 and str(cs[2]) in ("0",):
            cs = cs[1][1][3][0]
        ok = False
        if isinstance(cs, tuple) and cs[0] == "bin" and cs[1] == "Sub" and const_value(cs[2]) == 0:
            inner = cs[3]
            ok = isinstance(inner, tuple) and inner[0] == "cast" and inner[3] == "i32" and strip_casts(inner) == src
        if isinstance(cs, tuple) and cs[0] == "un" and cs[1] == "Neg":
            inner = cs[2]
            ok = isinstance(inner, tuple) and inner[0] == "cast" and inner[3] == "i32" and strip_casts(inner) == src
        # (res.wrapping_neg()) as i32 / (res as i32).wrapping_neg(): the low 32 bits of -res, the same value
        if isinstance(cs, tuple) and cs[0] == "cast" and cs[3] == "i32":
            inner = strip_casts(cs[2]) if False else cs[2]
            ok = isinstance(inner, tuple) and inner[0] == "call" and (inner[1] or "").endswith("::wrapping_neg") and inner[2] and strip_casts(inner[2][0]) == src
        if isinstance(cs, tuple) and cs[0] == "call" and (cs[1] or "").endswith("::wrapping_neg") and cs[2]:
            inner = cs[2][0]
            ok = isinstance(inner, tuple) and inner[0] == "cast" and inner[3] == "i32" and strip_casts(inner) == src
        name = "param" if src[0] == "param" else (src[2][0][2].split("::")[-1] if src[2] and src[2][0][0] == "const" and src[2][0][2] else "?")
        ck.ob("C09.3", f"{ctx.path}|{name}|errno-negated", ok, fn=ctx.path, site=ctx.site(bb),
              detail=f"errno passed to Error::with_code is {show(c)}; it must be exactly 0 - (result as i32) so that callers see the positive code")
        # the errno construction must sit on the error edge of the classifier
        if ok and src[0] == "call" and name not in ("EXECVE",):   # EXECVE returns only on error (reviewed table)
            cfg = ctx.cfg
            errd = False
            for sb in cfg.live_blocks():
                if cfg.term(sb)["k"] != "switch":
                    continue
                for e in cfg.succ[sb]:
                    for f in ctx.edge_facts(e):
                        if f[0] == "truth" and f[2] is True and isinstance(f[1], tuple) and f[1][0] == "call" and f[1][1] == CLASSIFIERS[0] and f[1][2] and strip_casts(f[1][2][0]) == src:
                            if cfg.edge_dominates(e, bb):
                                errd = True
            ck.ob("C09.3", f"{ctx.path}|{name}|errno-on-error-edge", errd, fn=ctx.path, site=ctx.site(bb),
                  detail="an Error carrying a negated syscall result is built on a path not dominated by is_syscall_error(result) == true")


def check_retry(ck, prog, ctx, bb, name, key):
    """C09.5: a syscall on a cycle is only allowed for DUP3's EBUSY race: every back edge reachable from the call is dominated by
    the classifier's error edge and by a comparison of the negated errno with EBUSY."""
    ebusy = 16
    cfg = ctx.cfg
    ok = name == "DUP3"
    why = "a raw system call sits inside a loop: the call may be issued more than once per invocation"
    if ok:
        # edges closing the cycle: edges (x -> y) with y dominating bb... simply: after removing error-edge-of-classifier edges, bb no longer on a cycle
        err_edges = set()
        for sb in cfg.live_blocks():
            if cfg.term(sb)["k"] != "switch":
                continue
            for e in cfg.succ[sb]:
                for f in ctx.edge_facts(e):
                    if f[0] == "truth" and f[2] is True and isinstance(f[1], tuple) and f[1][0] == "call" and f[1][1] == CLASSIFIERS[0]:
                        arg = strip_casts(f[1][2][0]) if f[1][2] else None
                        if isinstance(arg, tuple) and arg[0] == "call" and arg[3] == bb:
                            err_edges.add((e.src, e.dst))
        nxt = cfg.term(bb).get("t")
        r = cfg.reachable_from(nxt, avoid_edges=err_edges) if nxt is not None else set()
        on_success_cycle = bb in r
        # and within the error region the back edge requires errno == EBUSY
        eq_edges = set()
        for sb in cfg.live_blocks():
            if cfg.term(sb)["k"] != "switch":
                continue
            for e in cfg.succ[sb]:
                for f in ctx.edge_facts(e):
                    if f[0] == "cmp" and f[1] == "Eq":
                        for x, y in ((f[2], f[3]), (f[3], f[2])):
                            if fold(y) == ebusy and is_negated_result(x, bb):
                                eq_edges.add((e.src, e.dst))
        from ..engine import pathsens
        r2 = pathsens.reachable(ctx, nxt, avoid_edges=eq_edges) if nxt is not None else set()   # (the classifier may be asked twice about the same result)
        ok = (not on_success_cycle) and bool(err_edges) and bb not in r2
        why = ("dup's retry must happen only when the classified error is EBUSY: the loop can currently repeat the call on a path that is not "
               "(is_syscall_error(res) == true and 0 - res == EBUSY) - e.g. when the call succeeded with value 16")
    ck.ob("C09.5", f"{key}|call-in-loop", ok, fn=ctx.path, site=ctx.site(bb), detail=why)


def is_negated_result(x, bb):
    x0 = x
    if isinstance(x0, tuple) and x0[0] == "bin" and x0[1] == "Sub" and const_value(x0[2]) == 0:
        inner = strip_casts(x0[3])
        return isinstance(inner, tuple) and inner[0] == "call" and inner[3] == bb
    if isinstance(x0, tuple) and x0[0] == "un" and x0[1] == "Neg":
        inner = strip_casts(x0[2])
        return isinstance(inner, tuple) and inner[0] == "call" and inner[3] == bb
    return False
