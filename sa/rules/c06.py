"""C06 — threads: stack, TLS block and join state released exactly once in every exit/drop order."""
from ..engine.prov import const_value, strip_casts, walk, walk_deep, show
from ..engine.atomics import inventory, is_acquire, is_release
from ..engine.dtable import canon
from ..engine.fold import fold
from ..engine.cfg import is_raw_syscall
from .c12 import mentions
from . import threads as T
from .futexflavour import nr_name

CONFIGS_QUICK = ["A"]
CONFIGS_THOROUGH = ["A", "R", "X"]

EXPLANATION = (
    "Decided (static, MIR + assembly): C06.1 the join block is freed by exactly one of its two parties: the hand-over flag is flipped with CAS(false->true, AcqRel) in exactly three places (handle Drop, thread epilogue, panic handler) "
    "and in each the block is freed only on the CAS-failure edge (the second to arrive frees); join frees after the exit wait and is followed on every path by mem::forget(self) so that Drop cannot free again; "
    "Tsm::dealloc has no other callers except spawn's own failure paths, from which no handle escapes. C06.2 never while the kernel can still write: on the thread side SET_TID_ADDRESS(0) precedes the free, on the handle side the exit wait (C05.5) does. "
    "C06.3 the TLS block is freed exactly once by its own thread: dealloc(get_tls_ptr()) on every path of the thread epilogue and of the panic handler's thread branch, and nowhere else; the main thread's branch exits the process instead. "
    "C06.4 the stack is unmapped last and nothing touches it afterwards: after the start function returns the trampoline takes munmap's arguments from callee-saved registers filled before the call, issues MUNMAP then EXIT with no stack-touching instruction in between; "
    "the panic path's asm! is nostack+noreturn, its inputs are the thread's recorded stack address/size and MUNMAP, and its template ends in EXIT; every unmap covers exactly the mapping: the length mapped in spawn is the length recorded for the panic handler, the length handed to the trampoline and the length unmapped on spawn's failure path, and the trampoline's address is the mmap result itself. C06.3 also: the thread-local block is freed only after the user's function returned (the panic handler still needs it). C06.5 the closure box is consumed by the start function. "
    "C06.6 a failed spawn releases everything it had acquired (join block, boxed closure, stack mapping, TLS block) on every error return; "
    "C06.1 also: after the hand-over flag was flipped the thread (epilogue and panic handler) runs only release primitives - no user destructor, no formatting - and join may disarm itself with ManuallyDrop only when the free lies on every exit. "
    "C06.3 also: nothing is read through the thread-local block after it was freed. NOT decided: VmSize/heap baselines after many threads (quantitative), kernel timing of the clear-tid write.")
ASSUMPTIONS = ["CLONE_CHILD_CLEARTID semantics", "System V x86_64 callee-saved registers r12-r15, rbx, rbp"]


def points_into(e, prov, is_root, depth=0, seen=None):
    """Does pointer/reference expression e point into the block whose address is_root() recognises?  Values LOADED from the
    block (ptr.read(), *p, (*p).field used as a value) are copies, not pointers into it; `&(*p).f`, p.cast(), p.add(..),
    methods handed such a reference (as_ref, accessors returning Option<&T>) stay inside the block."""
    seen = seen if seen is not None else set()
    if not isinstance(e, tuple) or not e or depth > 40:
        return False
    k = e[0]
    if k == "call":
        if is_root(e):
            return True
        nm = e[1] or ""
        if nm.endswith(("::read", "::read_volatile", "::read_unaligned", "ptr::read", "::load", "mem::replace", "mem::take", "Clone::clone", "::get_value")):
            return False
        return any(points_into(a, prov, is_root, depth + 1, seen) for a in e[2])
    if k in ("ref", "addr"):
        return place_in(e[2], prov, is_root, depth + 1, seen)
    if k == "cast":
        return points_into(e[2], prov, is_root, depth + 1, seen)
    if k in ("field", "downcast"):
        # a component of an aggregate VALUE (e.g. the payload of an Option<&T> returned by a call): follow the aggregate
        return points_into(e[1], prov, is_root, depth + 1, seen)
    if k == "deref":
        return False   # a loaded value
    if k == "var":
        key = (e[1], e[3])
        if key in seen:
            return False
        seen.add(key)
        return any(points_into(x, prov, is_root, depth + 1, seen) for x in prov.expand(e))
    if k == "phi":
        return any(points_into(x, prov, is_root, depth + 1, seen) for x in e[1:] if isinstance(x, tuple))
    if k == "agg":
        return any(points_into(x, prov, is_root, depth + 1, seen) for x in e[3])
    return False


def place_in(pl, prov, is_root, depth, seen):
    """the place expression pl (operand of a & / &raw) lies inside the block"""
    if not isinstance(pl, tuple) or depth > 40:
        return False
    if pl[0] == "deref":
        return points_into(pl[1], prov, is_root, depth + 1, seen)
    if pl[0] in ("field", "downcast", "index"):
        return place_in(pl[1], prov, is_root, depth + 1, seen)
    return False


def run(ck, progs, tier):
    for cfgname, prog in progs.items():
        ck.set_config(prog)
        run_one(ck, prog)


def cas_failure_edges(ctx, cas_bb):
    out = []
    for sb in ctx.cfg.live_blocks():
        if ctx.cfg.term(sb)["k"] != "switch":
            continue
        for e in ctx.cfg.succ[sb]:
            for f in ctx.edge_facts(e):
                if f[0] == "variant" and f[2] == "Err" and isinstance(f[1], tuple) and f[1][0] == "call" and f[1][3] == cas_bb:
                    out.append(e)
    return out


def run_one(ck, prog):
    cg = prog.callgraph()
    dealloc = T.TSM + "dealloc"
    if not ck.anchor("C06.1", "Tsm::dealloc", prog.fns.get(dealloc)):
        return
    # ---- C06.1 two-party free -------------------------------------------------------------------------------------
    parties = {T.DROP: "handle Drop", T.CLOSURE: "thread epilogue", T.PANIC: "panic handler"}
    callers = set(cg.callers.get(dealloc, ()))
    allowed = set(parties) | {T.JOIN, T.SPAWN}
    ck.ob("C06.1", "dealloc-callers", callers <= allowed and set(parties) <= callers and T.JOIN in callers, detail=f"callers of Tsm::dealloc: {sorted(callers)}; allowed: the three parties, join, and spawn's failure paths")
    n_cas = 0
    flag_cas_fns = set()
    for p, fn in prog.fns.items():
        if "tiny_std::thread::spawn::" not in p:
            continue
        c = prog.ctx(fn)
        for op in inventory(fn, c.cfg, c.prov):
            if op.op.startswith("compare_exchange") and mentions(op.recv, c.prov, lambda z: z[0] == "call" and (z[1] or "").endswith("Tsm::get_sync")):
                n_cas += 1
                flag_cas_fns.add(p)
                vals = op.const_args()
                ck.ob("C06.1", f"flag-cas-shape|{p}", vals == [0, 1] and op.op == "compare_exchange" and op.success_order in ("AcqRel", "SeqCst"), fn=p, site=c.site(op.bb),
                      detail=f"hand-over flag must be flipped with a strong CAS(false->true, AcqRel); found {op.op}{vals} {op.orderings}")
                # dealloc only on the failure edge
                fe = cas_failure_edges(c, op.bb)
                ds = T.call_blocks(c, dealloc)
                ck.ob("C06.1", f"free-only-on-cas-failure|{p}", bool(fe) and bool(ds) and all(any(c.cfg.edge_dominates(e, d) for e in fe) for d in ds), fn=p, site=c.site(op.bb),
                      detail="the party that finds the flag already set (CAS failure) is the second to arrive and frees the block; freeing on the success edge (or unconditionally) frees it under the other party")
                # on the thread's side nothing that can run user code follows the hand-over: a destructor of the closure's result that
                # panics there enters the panic handler, which runs the release protocol a second time on a block already given away
                if "spawn::{closure" in p or p.endswith("on_panic"):
                    import re as _re
                    after = c.cfg.reachable_from(op.bb) - {op.bb}
                    user = []
                    for b2 in fn["blocks"]:
                        if b2["id"] not in after or b2.get("cleanup") or b2["id"] not in c.cfg.live_blocks():
                            continue
                        t2 = b2["term"]
                        if t2["k"] == "drop":
                            pl = t2.get("p") or t2.get("place") or {}
                            ty = fn["locals"][pl.get("l", 0)]["ty"] if isinstance(pl, dict) and "l" in pl else ""
                            if _re.search(r"\b[TF]\b", ty):
                                user.append((b2["id"], f"drop of a {ty}"))
                        elif t2["k"] == "call":
                            cal = t2.get("callee") or ""
                            if cal.endswith(("core::mem::drop", "ptr::drop_in_place", "FnOnce::call_once", "FnMut::call_mut", "Fn::call")) and _re.search(r"\b[TF]\b", str(t2.get("generic", "")) + " ".join(fn["locals"][l]["ty"] for a2 in t2.get("args", []) for l in ([a2["p"]["l"]] if a2.get("k") in ("move", "copy") else []))):
                                user.append((b2["id"], cal))
                    # ... nor anything else that can panic: after the hand-over only the release primitives run (a formatted message that
                    # panics in a user Display re-enters the panic handler, which releases everything a second time)
                    QUIET = ("sc::platform::syscall", "Tsm::dealloc", "Tsm::release", "get_tls_ptr", "::cast", "Layout::new", "alloc::alloc::dealloc", "Result::<T, E>::is_err", "Result::<T, E>::is_ok",
                             "hint::unreachable_unchecked", "Tsm::get_sync", "Tsm::get_futex", "ptr::read", "::as_ptr", "ThreadLocalStorage::thread_stack_info")
                    for b2 in fn["blocks"]:
                        if b2["id"] not in after or b2.get("cleanup") or b2["id"] not in c.cfg.live_blocks():
                            continue
                        t2 = b2["term"]
                        if t2["k"] == "call" and t2.get("callee") and not any(q in t2["callee"] for q in QUIET) and not any(u[0] == b2["id"] for u in user):
                            # helpers introduced by a refactoring are expanded by the normaliser; what is left is a real call
                            user.append((b2["id"], t2["callee"]))
                    ck.ob("C06.1", f"no-user-code-after-the-hand-over|{p}", not user, fn=p, site=c.site(user[0][0]) if user else None,
                          detail=f"after the hand-over flag was flipped the thread runs {[u[1] for u in user]}: user code that panics there makes the panic handler release the join block again")
            if op.op in ("store", "swap", "fetch_or", "fetch_and", "fetch_xor") and mentions(op.recv, c.prov, lambda z: z[0] == "call" and (z[1] or "").endswith("Tsm::get_sync")):
                ck.ob("C06.1", f"flag-only-cas|{p}", False, fn=p, site=c.site(op.bb), detail=f"the hand-over flag is modified with `{op.op}`; only CAS(false->true) decides who frees")
    ck.ob("C06.1", "three-flag-cas-sites", flag_cas_fns == set(parties), detail=f"functions flipping the hand-over flag: {sorted(flag_cas_fns)}; expected exactly {sorted(parties)}")
    ck.floor("C06.1", "flag CAS sites", n_cas, 3)
    j = prog.fns.get(T.JOIN)
    if ck.anchor("C06.1", "join", j):
        c = prog.ctx(j)
        ds = T.call_blocks(c, dealloc)
        fg = T.call_blocks(c, "core::mem::forget")
        ok = len(ds) == 1 and len(fg) == 1 and c.cfg.dominates(ds[0], fg[0]) and all(c.cfg.dominates(fg[0], rb) for rb in c.cfg.return_blocks())
        if not ok and len(ds) == 1 and not fg:
            # disarmed up front instead: `ManuallyDrop::new(self)` before anything else can return
            md = [bb for bb, t in c.cfg.calls(lambda t: (t.get("callee") or "").endswith("ManuallyDrop::<T>::new")) if isinstance(strip_casts(c.args(bb)[0]), tuple) and strip_casts(c.args(bb)[0])[0] == "param" and strip_casts(c.args(bb)[0])[1] == 1]
            # ... and then nothing else frees the block: the dealloc must lie on every way out
            ok = len(md) == 1 and c.cfg.dominates(md[0], ds[0]) and all(c.cfg.dominates(md[0], rb) and c.cfg.dominates(ds[0], rb) for rb in c.cfg.return_blocks())
        ck.ob("C06.1", "join-forgets-self-after-free", ok, fn=T.JOIN, detail="join frees the block itself exactly once on every path and keeps the handle's Drop from running (mem::forget(self) after the free, or ManuallyDrop::new(self) up front with the free on every way out)")
        drops_self = [b for b in c.cfg.live_blocks() if c.cfg.term(b)["k"] == "drop" and "JoinHandle" in c.cfg.term(b).get("ty", "")]
        ck.ob("C06.1", "join-never-drops-handle", not drops_self, fn=T.JOIN, detail="a path in join drops the JoinHandle (running Drop) after freeing the block")
    s = prog.fns.get(T.SPAWN)
    if s is not None and T.SPAWN in callers:
        c = prog.ctx(s)
        for d in T.call_blocks(c, dealloc):
            from ..engine import pathsens
            r = pathsens.reachable_after(c, d)
            oks = [b for b in r if any(st["k"] == "assign" and st["rv"]["k"] == "agg" and (st["rv"].get("adt") or "").endswith("JoinHandle") for st in c.cfg.block(b)["stmts"])]
            ck.ob("C06.1", "spawn-frees-only-on-failure", not oks, fn=T.SPAWN, site=c.site(d), detail="spawn frees the join block on a path that still hands out a JoinHandle")
            # on a clone-failure path (the thread does not exist) or before clone
            clones = T.call_blocks(c, T.M + "__clone")

    # ---- C06.2 never while the kernel can still write -------------------------------------------------------------------
    T.check_clear_tid_reset(ck, prog, "C06.2")

    # the handle side may free the join block only after the kernel's exit write (CLONE_CHILD_CLEARTID clears the futex word inside
    # the block and futex-wakes it when the thread is gone): every free in join / Drop is dominated by wait_for_exit on the same block
    for p2 in (T.JOIN, T.DROP):
        fn2 = prog.fns.get(p2)
        if not ck.anchor("C06.2", p2, fn2):
            continue
        c = prog.ctx(fn2)
        ds = T.call_blocks(c, dealloc)
        ws = T.call_blocks_suffix(c, "spawn::wait_for_exit")
        ok = bool(ds) and all(any(c.cfg.dominates(w, d) and canon(c.args(w)[0]) == canon(strip_casts(c.args(d)[0])).replace("&", "") or
                                  (c.cfg.dominates(w, d) and mentions(c.args(d)[0], c.prov, lambda z: z[0] == "field" and z[2] == "tsm") and mentions(c.args(w)[0], c.prov, lambda z: z[0] == "field" and z[2] == "tsm")) for w in ws) for d in ds)
        if not ok and ds:
            # the wait written out in place: each free is dominated by an edge on which an Acquire load of the exit word gave != UNFINISHED
            unfin = prog.const(T.M + "UNFINISHED")
            edges = T.exit_word_checked_edges(c, unfin) if unfin is not None else []
            ok = all(any(c.cfg.edge_dominates(e, d) and is_acquire(o) for e, lb, o in edges) for d in ds)
        ck.ob("C06.2", f"handle-frees-only-after-thread-exit|{p2.split('::')[-1] if 'Drop' not in p2 else 'Drop'}", ok, fn=p2, site=c.site(ds[0]) if ds else None,
              detail="the handle frees the join block without first waiting for the thread's exit word: the kernel still clears (and futex-wakes) that word when the thread exits, i.e. writes into freed memory")

    # ---- C06.6 a failed spawn leaves nothing behind (shared with C05.2) ----------------------------------------------------
    T.check_failure_release(ck, prog, "C06.6")

    # ---- C06.3 TLS freed once by its thread ------------------------------------------------------------------------------------
    tls_frees = {}
    for p, fn in prog.fns.items():
        if not p.startswith("tiny_std::"):
            continue
        c = None
        for b in fn["blocks"]:
            t = b["term"]
            if t["k"] == "call" and (t.get("callee") or "") == "alloc::alloc::dealloc" and not b.get("cleanup"):
                c = c or prog.ctx(fn)
                if b["id"] not in c.cfg.live_blocks():
                    continue
                a = c.args(b["id"])
                if mentions(a[0], c.prov, lambda z: z[0] == "call" and (z[1] or "").endswith("get_tls_ptr")):
                    tls_frees.setdefault(p, []).append(b["id"])
    ck.ob("C06.3", "tls-free-sites", set(tls_frees) == {T.CLOSURE, T.PANIC}, detail=f"functions freeing the TLS block: {sorted(tls_frees)}; must be exactly the thread epilogue and the panic handler")
    cl = prog.fns.get(T.CLOSURE)
    if cl is not None and T.CLOSURE in tls_frees:
        c = prog.ctx(cl)
        fs = tls_frees[T.CLOSURE]
        ck.ob("C06.3", "epilogue-frees-tls-on-every-path", len(fs) == 1 and all(c.cfg.dominates(fs[0], rb) for rb in c.cfg.return_blocks()), fn=T.CLOSURE, detail="the thread epilogue must free its TLS block exactly once on every path")
    pn = prog.fns.get(T.PANIC)
    if pn is not None and T.PANIC in tls_frees:
        c = prog.ctx(pn)
        fs = tls_frees[T.PANIC]
        asm_blocks = [b for b in c.cfg.live_blocks() if c.cfg.term(b)["k"] == "asm" and "syscall" in c.cfg.term(b)["template"] or (c.cfg.term(b)["k"] == "asm" and "svc" in c.cfg.term(b)["template"])]
        ck.ob("C06.3", "panic-thread-branch-frees-tls", len(fs) == 1 and bool(asm_blocks) and all(c.cfg.dominates(fs[0], a) for a in asm_blocks), fn=T.PANIC, detail="the panic handler's thread branch must free the TLS block before unmapping the stack")
        exits = T.call_blocks_suffix(c, "process::exit::exit") + T.call_blocks_suffix(c, "process::exit")
        ck.ob("C06.3", "main-thread-branch-exits", bool(exits) and all(fs[0] not in c.cfg.reachable_from(0, avoid=set()) or not c.cfg.dominates(fs[0], e) for e in exits), fn=T.PANIC, detail="the main thread (no stack info) must not free a TLS block; it exits the process")

    T.check_tls_outlives_user_fn(ck, prog, "C06.3")
    T.check_tls_not_read_after_free(ck, prog, "C06.3")
    # no use of the TLS block after it has been freed: after the free, nothing may be read or written through a pointer/reference
    # obtained from get_tls_ptr() (the block's contents must have been copied out before)
    for p2, fs in sorted(tls_frees.items()):
        fn2 = prog.fns[p2]
        c = prog.ctx(fn2)
        is_tls = lambda z: z[0] == "call" and (z[1] or "").endswith("get_tls_ptr")  # noqa: E731
        late = []
        for f0 in fs:
            nxt = c.cfg.term(f0).get("t")
            after = c.cfg.reachable_from(nxt) if nxt is not None else set()
            for b in fn2["blocks"]:
                if b["id"] not in after or b.get("cleanup"):
                    continue
                places = []
                for i, st in enumerate(b["stmts"]):
                    if st["k"] != "assign":
                        continue
                    if st["dst"].get("p") and st["dst"]["p"][0]["k"] == "deref":
                        places.append((st["dst"], (b["id"], i), st.get("sp")))
                    rv = st["rv"]
                    ops = [rv.get("a"), rv.get("b")] + list(rv.get("ops") or [])
                    if rv["k"] in ("ref", "addr") and rv.get("p"):
                        ops.append({"k": "copy", "p": rv["p"]})
                    for o in ops:
                        if isinstance(o, dict) and o.get("k") in ("copy", "move") and o["p"].get("p") and o["p"]["p"][0]["k"] == "deref":
                            places.append((o["p"], (b["id"], i), st.get("sp")))
                t = b["term"]
                for o in (t.get("args") or []):
                    if isinstance(o, dict) and o.get("k") in ("copy", "move") and o["p"].get("p") and o["p"]["p"][0]["k"] == "deref":
                        places.append((o["p"], (b["id"], len(b["stmts"])), t.get("sp")))
                for pl, at, sp in places:
                    base = c.prov.operand({"k": "copy", "p": {"l": pl["l"]}}, at)
                    if points_into(base, c.prov, is_tls):
                        late.append((b["id"], c.prov.names.get(pl["l"], f"_{pl['l']}"), sp))
        from ..engine.cfg import span_str
        ck.ob("C06.3", f"no-tls-access-after-free|{p2.split('::')[-1]}", not late, fn=p2, site=span_str(late[0][2]) if late else None,
              detail=f"the TLS block is read through `{late[0][1] if late else ''}` after it was freed ({len(late)} accesses): once another thread's allocation reuses the block, this thread unmaps that thread's stack / frees its join state")

    # ---- C06.4 stack unmapped last ------------------------------------------------------------------------------------------------
    if ck.config != "X":
        T.check_trampoline_x86(ck, prog, "C06.4a", "C06.4")
    else:
        T.check_trampoline_a64(ck, prog, "C06.4a", "C06.4")
    if pn is not None:
        c = prog.ctx(pn)
        asms = [(b, c.cfg.term(b)) for b in c.cfg.live_blocks() if c.cfg.term(b)["k"] == "asm" and ("syscall" in c.cfg.term(b)["template"] or "svc" in c.cfg.term(b)["template"])]
        ck.ob("C06.4", "panic-asm-present", len(asms) == 1, fn=T.PANIC, detail=f"stack-unmapping asm! blocks in the panic handler: {len(asms)}")
        for b, t in asms:
            opts = t["options"]
            ck.ob("C06.4", "panic-asm-nostack-noreturn", "NOSTACK" in opts.upper() and "NORETURN" in opts.upper(), fn=T.PANIC, detail=f"options {opts}: the block runs while its own stack disappears, it must be nostack and noreturn")
            ins = {o["reg"]: c.prov.operand(o["value"], c.term_at(b)) for o in t["operands"] if o["dir"] == "in"}
            regs = {k.lower(): v for k, v in ins.items()}
            x86 = any("x86(" in k for k in regs)
            nr = next((v for k, v in regs.items() if ("x86(ax)" in k or "(x8)" in k)), None)
            a0 = next((v for k, v in regs.items() if ("x86(di)" in k or "(x0)" in k)), None)
            a1 = next((v for k, v in regs.items() if ("x86(si)" in k or "(x1)" in k)), None)
            ck.ob("C06.4", "panic-asm-munmap-nr", nr is not None and fold(nr) == (11 if x86 else 215), fn=T.PANIC, detail=f"syscall number input is {show(nr) if nr else None}; must be MUNMAP")
            ck.ob("C06.4", "panic-asm-args", a0 is not None and a1 is not None and mentions(a0, c.prov, lambda z: z[0] == "field" and z[2] == "stack_addr") and mentions(a1, c.prov, lambda z: z[0] == "field" and z[2] == "stack_sz"),
                  fn=T.PANIC, detail=f"munmap inputs ({show(a0) if a0 else None}, {show(a1) if a1 else None}) must be the thread's recorded stack_addr and stack_sz")
            from ..engine import asm as A
            lines = A.split_template(t["template"])
            last_sys = [i for i, l in enumerate(lines) if l.startswith(("syscall", "svc"))]
            ends_exit = len(last_sys) == 2 and any(("60" in l and "al" in l) or "#93" in l for l in lines[last_sys[0]:last_sys[1]])
            ck.ob("C06.4", "panic-asm-ends-in-exit", ends_exit, fn=T.PANIC, detail="the template must be: munmap syscall, load EXIT, exit syscall")
            import re as _re
            stacky = [l for l in lines if _re.search(r"\b(push|pop|call|ret|rsp|esp|sp)\b", l)]
            ck.ob("C06.4", "panic-asm-no-stack-use", not stacky, fn=T.PANIC, detail=f"stack-touching instructions in the template: {stacky}")
    # spawn records the mapping it made (the values the panic path unmaps)
    if s is not None:
        c = prog.ctx(s)
        rec = [st for b in s["blocks"] for st in b["stmts"] if st["k"] == "assign" and st["rv"]["k"] == "agg" and (st["rv"].get("adt") or "").endswith("ThreadDealloc")]
        ok = False
        for b in s["blocks"]:
            for i, st in enumerate(b["stmts"]):
                if st["k"] == "assign" and st["rv"]["k"] == "agg" and (st["rv"].get("adt") or "").endswith("ThreadDealloc"):
                    ops = [c.prov.operand(o, (b["id"], i)) for o in st["rv"]["ops"]]
                    fields = st["rv"]["fields"]
                    d = dict(zip(fields, ops))
                    ok = mentions(d.get("stack_addr"), c.prov, lambda z: z[0] == "call" and (z[1] or "").endswith("mmap::mmap")) and mentions(d.get("tsm"), c.prov, lambda z: z[0] == "call" and (z[1] or "").endswith("Tsm::init"))
        ck.ob("C06.4", "spawn-records-stack-mapping", ok, fn=T.SPAWN, detail="the ThreadDealloc record must hold the base of the stack mapping made by this spawn and this thread's join block")
        # every unmap of the stack covers exactly what was mapped: the length mapped is the length recorded for the panic
        # handler, the length handed to the trampoline's munmap, and the length unmapped on spawn's own failure path
        def size_value(e):
            e = strip_casts(e)
            while isinstance(e, tuple) and e[0] == "call" and (e[1] or "").endswith("new_unchecked") and e[2]:
                e = strip_casts(e[2][0])
            v = fold(e)
            return v if v is not None else canon(e)
        is_map = lambda z: z[0] == "call" and (z[1] or "").endswith("mmap::mmap")
        def is_base(e, depth=0):
            # the mmap result itself, reached through casts / Result plumbing only (no arithmetic on the way)
            e = strip_casts(e)
            if not isinstance(e, tuple) or depth > 12:
                return False
            if is_map(e):
                return True
            if e[0] == "bin":
                return False
            if e[0] == "call":
                # `?` / unwrap on the mmap Result is plumbing too
                if (e[1] or "").endswith(("Try>::branch", "Try::branch", "::unwrap", "::unwrap_unchecked", "::expect")) and e[2]:
                    return is_base(e[2][0], depth + 1)
                return False
            return any(is_base(x, depth + 1) for x in e[1:] if isinstance(x, tuple))
        maps = T.call_blocks_suffix(c, "unistd::mmap::mmap")
        if ck.anchor("C06.4", "spawn maps the stack once", len(maps) == 1 or None):
            mapped = size_value(c.args(maps[0])[1])
            uses = []
            for b in s["blocks"]:
                for i, st in enumerate(b["stmts"]):
                    if st["k"] == "assign" and st["rv"]["k"] == "agg" and (st["rv"].get("adt") or "").endswith("ThreadDealloc"):
                        d = dict(zip(st["rv"]["fields"], [c.prov.operand(o, (b["id"], i)) for o in st["rv"]["ops"]]))
                        uses.append(("record", b["id"], d.get("stack_sz")))
            for bb, t in c.cfg.calls(lambda t: (t.get("callee") or "").endswith("mmap::munmap")):
                a = c.args(bb)
                if a and mentions(a[0], c.prov, is_map):
                    uses.append(("failure-unmap", bb, a[1]))
                    # spawn's own clean-up (clone failed) gives the mapping back from its base too: an address inside the mapping - the stack
                    # top - is not page aligned, the kernel refuses it, and the swallowed error leaves the whole stack mapped
                    ck.ob("C06.4", "failure-path-unmaps-from-the-mapping-base", is_base(a[0]), fn=T.SPAWN, site=c.site(bb),
                          detail=f"munmap is given {show(a[0])[:90]}; must be the address mmap returned (no arithmetic on the way)")
            for bb, t in c.cfg.calls(lambda t: (t.get("callee") or "").endswith("__clone")):
                a = c.args(bb)
                if len(a) == 8:
                    uses.append(("trampoline", bb, a[7]))
                    ck.ob("C06.4", "trampoline-unmaps-from-the-mapping-base", is_base(a[6]), fn=T.SPAWN, site=c.site(bb),
                          detail="the address the exiting thread unmaps must be the base returned by mmap")
            ck.floor("C06.4", "stack-length-uses", len({u[0] for u in uses}), 3)
            for kind, bb, e in uses:
                ck.ob("C06.4", f"unmap-length-is-the-mapped-length|{kind}", e is not None and size_value(e) == mapped, fn=T.SPAWN, site=c.site(bb),
                      detail=f"the stack is mapped with length {mapped} but the {kind} uses {size_value(e) if e is not None else None}: whatever is not unmapped stays mapped for good (or memory beyond the mapping is unmapped)")

    # ---- C06.5 closure box consumed -----------------------------------------------------------------------------------------------------
    sf = prog.fns.get(T.START_FN)
    if ck.anchor("C06.5", "start_fn", sf):
        c = prog.ctx(sf)
        reb = T.call_blocks_suffix(c, "Box::<T>::from_raw")
        ck.ob("C06.5", "closure-box-consumed", len(reb) == 1, fn=T.START_FN, detail="the start function must take the closure back into a Box (freed when the call returns)")
