"""C11 — UnixStr search and path operations: panic-freedom, reads inside the arguments, needle/split-point shapes."""
from ..engine.prov import const_value, strip_casts, walk, walk_deep, show
from ..engine.dtable import canon
from ..engine.fold import fold
from ..engine import panics
from .c12 import mentions

CONFIGS_QUICK = ["A", "B", "C"]
CONFIGS_THOROUGH = ["A", "B", "C", "R", "X"]

EXPLANATION = (
    "Decided (static, MIR): C11.1 panic inventory of find, find_buf, buf_find, ends_with, match_up_to, match_up_to_str, path_file_name, path_join, path_join_fmt, parent_path: "
    "every overflow/bounds assertion and every panicking call (slice indexing, unwrap) is auto-discharged (type invariant len>=1, dominating comparison, range-bounded index, index arithmetic) "
    "or listed in a reviewed table with its reason; anything else is a reachable panic. C11.2 raw reads through a pointer taken from a &str/&[u8] (not NUL-terminated by type) are dominated by a comparison with that slice's length "
    "(reads through a UnixStr pointer are covered by the terminator invariant, C10). C11.3 the needle `find` hands to the searcher is the string without its terminator: the slice ends at len-1 (sibling find_buf passes the caller's bytes unchanged), "
    "an empty needle never reaches an index, and the search is skipped (None) only for a needle LONGER than the haystack. C11.4 split points: path_file_name returns the suffix starting one past the separator it found, under the guard that something follows; parent_path cuts before the separator (C10 checks the terminator). "
    "C11.6 separator accounting in path_join / path_join_fmt: on every path that appends the extension, (base ends with '/') + (extension starts with '/') + ('/' pushed) - (leading '/' skipped) == 1 with both facts tested on that path, and the extension is appended once. "
    "C11.7 ends_with answers true only after the needle's first byte was compared (dominating `needle index == 0`, exhausted needle, or a counting loop whose last round compares index 0). "
    "C11.4 also: path_file_name scans the whole string and returns a name only under index + 2 < len (linear form). "
    "C11.4 also: parent_path decides at the last separator only (no test on other positions of the path can refuse it). C11.5 also: a pairwise (zip) comparison of haystack and needle bytes stands under a comparison of the two lengths (zip ends at the shorter side). NOT decided: agreement of the results with the byte-string definitions for all operand pairs (first occurrence, suffix test, prefix length) - value-level.")
ASSUMPTIONS = ["slices and vectors are at most isize::MAX long", "reviewed table of loop-invariant arithmetic (see rule module)"]

M = "rusl::string::unix_str::"
FUNS = ["UnixStr::find", "UnixStr::find_buf", "UnixStr::ends_with", "UnixStr::match_up_to", "UnixStr::match_up_to_str", "UnixStr::path_file_name",
        "UnixStr::path_join", "UnixStr::path_join_fmt", "UnixStr::parent_path", "buf_find"]
# (function, site key) -> reason.  Keys are canonical operand expressions, not positions.
REVIEWED = {
    ("UnixStr::ends_with", "overflow_sub((len(*p1.0) Sub 1),var:ind)"): "ind <= other.len()-1 <= self.len()-1: the loop returns when other.len()-1-ind == 0 and other.len() <= self.len() was checked on entry",
    ("UnixStr::ends_with", "overflow_sub((len(*p2.0) Sub 1),var:ind)"): "ind <= other.len()-1: the loop returns when other.len()-1-ind == 0, before ind is incremented past it",
    ("UnixStr::ends_with", "overflow_add(var:ind,1)"): "ind < other.len() <= isize::MAX",
    ("UnixStr::match_up_to", "overflow_add(var:it,1)"): "it indexes bytes that were just read from memory; an object cannot span usize::MAX bytes",
    ("UnixStr::match_up_to_str", "overflow_add(var:it,1)"): "it < other.len() <= isize::MAX (checked each round)",
    ("UnixStr::parent_path", "overflow_sub(var:next_slash_back,1)"): "both sites are reached only with next_slash_back != 0 (tested just before)",
    ("UnixStr::parent_path", "overflow_add(var:next_slash_back,1)"): "only executed when next_slash_back == 0",
    ("UnixStr::path_join_fmt", "overflow_add(len(place:container_vec),1)"): "a Vec's length is at most isize::MAX",
}


def run(ck, progs, tier):
    for cfgname, prog in progs.items():
        ck.set_config(prog)
        run_one(ck, prog)
        check_join_separators(ck, prog)
        check_ends_with(ck, prog)


def run_one(ck, prog):
    n_sites = 0
    used_reviews = set()
    for name in FUNS:
        fn = prog.fns.get(M + name)
        if fn is None:
            if ck.config == "C" and name in ("UnixStr::path_join", "UnixStr::path_join_fmt", "UnixStr::parent_path"):
                continue
            ck.anchor("C11.1", name, fn)
            continue
        ctx = prog.ctx(fn)
        for s in panics.sites(ctx):
            n_sites += 1
            ok, why = panics.discharge(ctx, s)
            # reviewed entries are matched with the names of local variables blanked out (a renamed counter is the same counter)
            import re as _re
            blank = lambda k: _re.sub(r"var:[A-Za-z_0-9]+", "var:_", k)  # noqa: E731
            rk = next(((n_, k_) for (n_, k_) in REVIEWED if n_ == name and blank(k_) == blank(s["key"])), None)
            if not ok and rk is not None:
                ok, why = True, "reviewed: " + REVIEWED[rk]
                used_reviews.add(rk)
            from ..engine.cfg import span_str
            ck.ob("C11.1", f"{name}|{s['key']}", ok, fn=fn["path"], site=span_str(s["sp"]),
                  detail=("reachable panic: " if not ok else "") + why)
    ck.floor("C11.1", "potential panic sites", n_sites, {"C": 12, "R": 4}.get(ck.config, 18))   # release MIR carries no overflow assertions
    ck.extra.setdefault("reviewed_entries_used", {})[ck.config] = sorted(f"{a}|{b}" for a, b in used_reviews)

    # ---- C11.2 raw reads stay inside non-terminated slices ------------------------------------------------------
    for name in ("UnixStr::match_up_to_str", "UnixStr::match_up_to"):
        fn = prog.fns.get(M + name)
        if not ck.anchor("C11.2", name, fn):
            continue
        ctx = prog.ctx(fn)
        cfg = ctx.cfg
        for bb, t in cfg.calls(lambda t: (t.get("callee") or "").endswith("const_ptr::<impl *const T>::read")):
            e = ctx.args(bb)[0]
            # base pointer: from str::as_ptr / slice::as_ptr (needs a length check) or UnixStr::as_ptr (terminated)
            bases = [x for x in walk_deep(e, ctx.prov) if x[0] == "call" and (x[1] or "").endswith("::as_ptr")]
            needs = [x for x in bases if not (x[1] or "").endswith(("UnixStr::as_ptr", "UnixString::as_ptr"))]
            if not needs:
                ck.ob("C11.2", f"{name}|read-through-terminated-pointer", True, fn=fn["path"], site=ctx.site(bb), detail="read through a UnixStr pointer (terminator invariant)")
                continue
            # every path from entry to the FIRST execution of this read must pass a comparison with the slice's length:
            # remove edges that carry such a comparison; the read must become unreachable from entry.
            cut = set()
            for sb in cfg.live_blocks():
                if cfg.term(sb)["k"] != "switch":
                    continue
                for ed in cfg.succ[sb]:
                    for f in ctx.edge_facts(ed):
                        if f[0] == "cmp" and any(any(y[0] == "call" and (y[1] or "").endswith("::len") for y in walk_deep(z, ctx.prov)) for z in (f[2], f[3])):
                            cut.add((ed.src, ed.dst))
            r = cfg.reachable_from(0, avoid_edges=cut)
            ck.ob("C11.2", f"{name}|length-checked-before-read", bb not in r, fn=fn["path"], site=ctx.site(bb),
                  detail="a byte is read through a pointer taken from a &str/&[u8] before any comparison with that slice's length: for an empty argument this reads one byte past it")
            # ... and again after every update of the index: between each assignment of the index variable and the read
            # there must be a comparison with the length (a check made BEFORE the increment says nothing about the new index)
            idx_locals = set()
            for x in walk_deep(e, ctx.prov):
                if x[0] == "call" and (x[1] or "").endswith("::add") and len(x[2]) == 2:
                    iv = strip_casts(x[2][1])
                    if isinstance(iv, tuple) and iv[0] == "var":
                        idx_locals.add(iv[1])
            stale = []
            for l in idx_locals:
                for (dbb, didx) in ctx.prov.defs.get((l, None), []):
                    # the initialisation with 0 is no update: the path from entry to the first read is the rule above
                    try:
                        st0 = cfg.block(dbb)["stmts"][didx]
                        if st0["k"] == "assign" and fold(ctx.prov.rvalue(st0["rv"], (dbb, didx))) == 0:
                            continue
                    except (TypeError, IndexError, KeyError):
                        pass
                    # from just after the definition: successors of the defining block (the def is at the end of its block's work)
                    starts = [ed.dst for ed in cfg.succ[dbb] if (ed.src, ed.dst) not in cut]
                    reach = set()
                    for st in starts:
                        reach |= cfg.reachable_from(st, avoid_edges=cut)
                    # a definition in the same block as a later cut edge is covered by the cut
                    if bb in reach:
                        stale.append(dbb)
            ck.ob("C11.2", f"{name}|length-rechecked-after-index-update", not stale, fn=fn["path"], site=ctx.site(bb),
                  detail="the index is advanced and the next byte is read without comparing the NEW index with the slice's length: when the argument is a complete prefix the read lands one byte past it")

    # ---- C11.3 needle shape ------------------------------------------------------------------------------------------
    fn = prog.fns.get(M + "UnixStr::find")
    if ck.anchor("C11.3", "find", fn):
        ctx = prog.ctx(fn)
        calls = [bb for bb, t in ctx.cfg.calls(lambda t: (t.get("callee") or "").endswith("unix_str::buf_find"))]
        ck.ob("C11.3", "find-calls-searcher", len(calls) == 1, fn=fn["path"], detail=f"buf_find call sites in find: {len(calls)}")
        # the search is skipped (None without calling the searcher) only for a needle LONGER than the haystack
        if calls:
            early = [b["id"] for b in fn["blocks"] if b["id"] in ctx.cfg.live_blocks() and not b.get("cleanup") and
                     any(st["k"] == "assign" and st["dst"]["l"] == 0 and not st["dst"].get("p") and st["rv"]["k"] == "agg" and st["rv"].get("variant") == "None" for st in b["stmts"]) and
                     b["id"] in ctx.cfg.reachable_from(0, avoid={calls[0]})]
            for eb in early:
                facts = panics.dominating_facts(ctx, eb)
                strict = any(f[0] == "cmp" and ((f[1] == "Gt" and "p2" in canon(f[2]) and "p1" in canon(f[3]) and "p1" not in canon(f[2])) or
                                                (f[1] == "Lt" and "p1" in canon(f[2]) and "p2" in canon(f[3]) and "p2" not in canon(f[2]))) for f in facts)
                empty_needle = any(f[0] == "cmp" and f[1] == "Eq" and 0 in (fold(f[2]), fold(f[3])) for f in facts) or any(f[0] == "truth" and f[2] is True and "is_empty" in show(f[1]) for f in facts)
                ck.ob("C11.3", "find|search-skipped-only-for-a-longer-needle", strict or empty_needle, fn=fn["path"], site=ctx.site(eb),
                      detail="find answers None without searching under a condition other than `other.len() > self.len()`: a needle exactly as long as the haystack (the string itself) would never be found")
        for bb in calls:
            needle = ctx.args(bb)[1]
            ok = False
            shown = show(needle)
            for x in walk_deep(needle, ctx.prov):
                if x[0] == "agg" and str(x[1]).endswith("RangeTo") and x[3]:
                    en = strip_casts(x[3][0])
                    if isinstance(en, tuple) and en[0] == "bin" and en[1] == "Sub" and fold(en[3]) == 1 and panics.is_len_of_unixstr(en[2]):
                        ok = True
                    shown = show(en)
            ck.ob("C11.3", "needle-is-string-minus-terminator", ok, fn=fn["path"], site=ctx.site(bb),
                  detail=f"the needle handed to the searcher must be other's bytes up to len-1 (terminator stripped, nothing else); its end is `{shown}`")
    fb = prog.fns.get(M + "UnixStr::find_buf")
    if ck.anchor("C11.3", "find_buf", fb):
        ctx = prog.ctx(fb)
        for bb, t in ctx.cfg.calls(lambda t: (t.get("callee") or "").endswith("unix_str::buf_find")):
            a = ctx.args(bb)[1]
            while isinstance(a, tuple) and a[0] in ("ref", "deref", "cast"):
                a = a[2] if a[0] in ("ref", "cast") else a[1]
            ok = isinstance(a, tuple) and a[0] == "param"
            ck.ob("C11.3", "find_buf-passes-bytes-unchanged", ok, fn=fb["path"], site=ctx.site(bb), detail=f"find_buf must search for exactly the caller's bytes, passes {show(a)}")

    check_scan_step(ck, prog)
    check_parent_path_is_local(ck, prog)

    # ---- C11.4 split points --------------------------------------------------------------------------------------------
    pf = prog.fns.get(M + "UnixStr::path_file_name")
    if ck.anchor("C11.4", "path_file_name", pf):
        ctx = prog.ctx(pf)
        ok = False
        for bb, t in ctx.cfg.calls(lambda t: (t.get("callee") or "").endswith("Index::index")):
            a = ctx.args(bb)
            rng = strip_casts(a[1])
            if isinstance(rng, tuple) and rng[0] == "agg" and str(rng[1]).endswith("RangeFrom") and rng[3]:
                st = strip_casts(rng[3][0])
                if isinstance(st, tuple) and st[0] == "bin" and st[1] == "Add" and fold(st[3]) == 1:
                    # the index is the one at which the byte compared equal to '/'
                    facts = panics.dominating_facts(ctx, bb)
                    sep = any(f[0] == "cmp" and f[1] == "Eq" and 47 in (fold(f[2]), fold(f[3])) for f in facts)
                    ok = sep
                    # ... or the index an iterator search for '/' reported: rposition(|b| *b == b'/') over the string's bytes
                    rp = [z for z in walk_deep(st[2], ctx.prov, limit=80) if z[0] == "call" and (z[1] or "").endswith("Iterator::rposition") and len(z[2]) == 2]
                    for z in rp:
                        clo = strip_casts(z[2][1])
                        if isinstance(clo, tuple) and clo[0] == "agg" and isinstance(clo[2], str) and clo[2] in prog.fns:
                            cc = prog.ctx(prog.fns[clo[2]])
                            rets = [strip_casts(r) for r in cc.ret_expr().values()]
                            if len(rets) == 1 and isinstance(rets[0], tuple) and rets[0][0] == "bin" and rets[0][1] == "Eq" and 47 in (fold(rets[0][2]), fold(rets[0][3])):
                                ok = by_rposition = True
        ck.ob("C11.4", "file-name-starts-after-last-separator", ok, fn=pf["path"],
              detail="path_file_name must return the suffix starting at (index of the separator found scanning from the back) + 1")
        # the scan runs over the WHOLE string (the separator found is the last one of the string, not of a part of it) ...
        its = [bb for bb, t in ctx.cfg.calls(lambda t: (t.get("callee") or "").endswith("<impl [T]>::iter"))]

        def whole(e):
            e = strip_casts(e)
            n = 0
            while isinstance(e, tuple) and e and e[0] in ("ref", "addr", "deref") and n < 8:
                e = strip_casts(e[2] if e[0] != "deref" else e[1])
                n += 1
            return isinstance(e, tuple) and e and e[0] == "field" and str(e[2]) == "0" and isinstance(strip_casts(e[1]), tuple) and strip_casts(e[1])[0] == "deref" and \
                isinstance(strip_casts(strip_casts(e[1])[1]), tuple) and strip_casts(strip_casts(e[1])[1])[0] == "param"
        ck.ob("C11.4", "file-name-scan-covers-the-whole-string", len(its) == 1 and whole(ctx.args(its[0])[0]), fn=pf["path"],
              detail="the separator must be searched in the whole string; a search in a part of it finds the last separator of that part (\"/a/\" would yield \"a/\")")
        # ... and a name is returned only when at least one byte follows the separator: index + 2 < len (len counts the terminator)
        somes = [b["id"] for b in pf["blocks"] if b["id"] in ctx.cfg.live_blocks() and not b.get("cleanup") and
                 any(st["k"] == "assign" and st["dst"]["l"] == 0 and st["rv"]["k"] == "agg" and st["rv"].get("variant") == "Some" for st in b["stmts"])]
        guarded = bool(somes)
        is_len = lambda z: isinstance(z, tuple) and z and z[0] == "call" and (z[1] or "").endswith(("UnixStr::len", "<impl [T]>::len"))  # noqa: E731

        def lin(e, sign, acc):
            """e as  a*len + b*index + c  (index: any other atom), accumulated into acc = [a, b, c]; False when not linear"""
            e = strip_casts(e)
            v = fold(e)
            if v is not None:
                acc[2] += sign * v
                return True
            if isinstance(e, tuple) and e and e[0] == "field" and isinstance(e[1], tuple) and e[1][0] == "bin" and str(e[1][1]).endswith("WithOverflow"):
                e = e[1]
            if isinstance(e, tuple) and e and e[0] == "bin" and e[1] in ("Add", "Sub", "AddWithOverflow", "SubWithOverflow"):
                return lin(e[2], sign, acc) and lin(e[3], sign if e[1].startswith("Add") else -sign, acc)
            if is_len(e):
                acc[0] += sign
                return True
            acc[1] += sign
            return True
        for sb in somes:
            g = False
            for f in panics.dominating_facts(ctx, sb):
                if f[0] != "cmp" or f[1] not in ("Lt", "Gt", "Le", "Ge"):
                    continue
                small, big = (f[2], f[3]) if f[1] in ("Lt", "Le") else (f[3], f[2])
                acc = [0, 0, 0]
                if lin(big, 1, acc) and lin(small, -1, acc) and acc[0] == 1 and acc[1] == -1:
                    # len - index + c >= (1 if strict else 0)   =>   len - index >= that - c
                    if (1 if f[1] in ("Lt", "Gt") else 0) - acc[2] >= 3:
                        g = True
            guarded = guarded and g
        ck.ob("C11.4", "file-name-only-when-something-follows", guarded, fn=pf["path"], detail="Some(name) must be dominated by index + 2 < len (a separator in last position has no file name after it)")
        revs = [bb for bb, t in ctx.cfg.calls(lambda t: (t.get("callee") or "").endswith(("Iterator::rev", "Iterator::rposition")))]
        ck.ob("C11.4", "file-name-scans-from-the-back", len(revs) == 1, fn=pf["path"], detail="the separator must be searched from the end (last separator)")


def check_parent_path_is_local(ck, prog):
    """C11.4: parent_path decides from the end of the path - the last separator and the byte before it. A search over the whole string
    (find / buf_find / windows / contains / position) in it makes the answer depend on bytes far from the split point: a `//` early in
    the path has nothing to do with where the parent ends."""
    pp = prog.fns.get(M + "UnixStr::parent_path")
    if pp is None:
        if ck.config != "C":
            ck.anchor("C11.4", "parent_path", None)
        return
    c = prog.ctx(pp)
    SEARCH = ("::buf_find", "UnixStr::find", "UnixStr::find_buf", "<impl [T]>::windows", "<impl [T]>::contains", "Iterator::position", "<impl [T]>::starts_with", "memchr")
    far = sorted({(t.get("resolved") or t.get("callee") or "").split("::")[-1] for _, t in c.cfg.calls(lambda t: (t.get("resolved") or t.get("callee") or "").endswith(SEARCH) or (t.get("callee") or "").endswith(SEARCH))})
    ck.ob("C11.4", "parent-path-decides-at-the-last-separator", not far, fn=pp["path"], detail=f"parent_path searches the whole string ({far}); whether there is a parent depends only on the last separator and the byte before it")


def check_scan_step(ck, prog):
    """C11.5: the searcher examines every start position: the index it compares the first needle byte at is delivered by a
    Range over 0..haystack.len() (step one by construction) or is a counter whose every update inside the loop is `+ 1`."""
    fn = prog.fns.get(M + "buf_find")
    if not ck.anchor("C11.5", "buf_find", fn):
        return
    ctx = prog.ctx(fn)
    cfg = ctx.cfg
    # a pairwise comparison of haystack and needle bytes (`zip`) ends at the SHORTER side: when the haystack runs out first, what is left
    # of the needle is never compared and `all` / `eq` answer "equal" - a proper prefix of the needle at the end of the haystack is
    # then reported as an occurrence. Such a pairing must stand under a comparison of the two lengths.
    for bb, t in cfg.calls(lambda t: (t.get("callee") or "").endswith(("Iterator::zip", "iter::zip"))):
        a = ctx.args(bb)
        if len(a) < 2:
            continue
        ca, cb = canon(a[0]), canon(a[1])
        if not (("p1" in ca and "p2" in cb) or ("p2" in ca and "p1" in cb)):
            continue
        facts = panics.dominating_facts(ctx, bb)
        lens = any(f[0] == "cmp" and f[1] in ("Le", "Lt", "Ge", "Gt") and "len" in show(f[2]) + show(f[3]) and
                   (("p1" in canon(f[2]) and "p2" in canon(f[3])) or ("p2" in canon(f[2]) and "p1" in canon(f[3]))) for f in facts)
        ck.ob("C11.5", "pairwise-comparison-covers-the-whole-needle", lens, fn=fn["path"], site=ctx.site(bb),
              detail="haystack and needle bytes are paired with zip, which stops at the shorter side, without a comparison of the two lengths above it: "
                     "when the haystack ends first the rest of the needle is never compared (\"abab\".find(\"abb\") == Some(2))")
    # the bounds-checked index into parameter 1 (this_buf)
    idxs = []
    for b in fn["blocks"]:
        if b.get("cleanup") or b["id"] not in cfg.live_blocks():
            continue
        t = b["term"]
        if t["k"] == "assert" and t["msg"] == "bounds":
            at = (b["id"], len(b["stmts"]))
            ln, ix = ctx.prov.operand(t["ops"][0], at), ctx.prov.operand(t["ops"][1], at)
            if "p1" in canon(ln) and "p2" not in canon(ln):
                idxs.append((b["id"], ix))
    # ... or the positions are handed out by the haystack's own slice iterator (`for (i, b) in this_buf.iter().enumerate()`), which
    # visits every position in order; any adaptor that skips or reorders (step_by, skip, rev, filter ..) does not qualify
    PLAIN = ("<impl [T]>::iter", "Iterator::enumerate", "IntoIterator::into_iter", "Iterator::by_ref")
    by_iter = []
    for bb, t in cfg.calls(lambda t: (t.get("callee") or "").endswith("Iterator::next")):
        if not cfg.in_cycle(bb):
            continue
        chain = [x for x in walk_deep(ctx.args(bb)[0], ctx.prov) if x[0] == "call"]
        over_hay = any((x[1] or "").endswith("<impl [T]>::iter") and "p1" in canon(x[2][0]) and "p2" not in canon(x[2][0]) for x in chain)
        if over_hay and all((x[1] or "").endswith(PLAIN) for x in chain):
            by_iter.append(bb)
    if not idxs and by_iter:
        ck.ob("C11.5", "anchor|haystack-index", True, fn=fn["path"], detail="positions come from the haystack's slice iterator")
        ck.ob("C11.5", "scan-advances-one-position-at-a-time", True, fn=fn["path"], site=ctx.site(by_iter[0]), detail="positions are delivered by the haystack's own iterator, one at a time")
        return
    ck.ob("C11.5", "anchor|haystack-index", len(idxs) >= 1, fn=fn["path"], detail="no indexed access of the haystack found")
    for bb, ix in idxs[:1]:
        ixs = strip_casts(ix)
        ok = False
        why = ""
        if any(x[0] == "agg" and str(x[1]).endswith("ops::range::Range") for x in walk_deep(ix, ctx.prov)) and any(x[0] == "call" and (x[1] or "").endswith("Iterator::next") for x in walk_deep(ix, ctx.prov)):
            rng = [x for x in walk_deep(ix, ctx.prov) if x[0] == "agg" and str(x[1]).endswith("ops::range::Range")][0]
            ok = fold(rng[3][0]) == 0 and "p1" in canon(rng[3][1])
            why = "range over the haystack"
        elif isinstance(ixs, tuple) and ixs[0] == "var":
            defs = ctx.prov.expand(ixs)
            ok = True
            for d in defs:
                ds = strip_casts(d)
                if fold(ds) == 0:
                    continue
                if isinstance(ds, tuple) and ds[0] == "bin" and ds[1] == "Add" and fold(ds[3]) == 1 and isinstance(strip_casts(ds[2]), tuple) and strip_casts(ds[2])[0] == "var" and strip_casts(ds[2])[1] == ixs[1]:
                    continue
                ok = False
                why = f"the scan position is updated with {show(d)}"
        ck.ob("C11.5", "scan-advances-one-position-at-a-time", ok, fn=fn["path"], site=ctx.site(bb),
              detail=f"the search must try every start position in order (first occurrence): {why or 'the start index is neither a 0..len range nor a +1 counter'}; skipping ahead after a partial match misses overlapping occurrences (\"aaab\".find(\"aab\"))")


def check_join_separators(ck, prog):
    """C11.6 separator accounting for path_join / path_join_fmt: on every path that appends the extension to a non-empty base,
    (base ends with '/') + (ext starts with '/') + ('/' pushed) - (leading '/' of ext skipped) == 1, both facts are tested on the
    path, and the extension is appended exactly once."""
    from ..engine.dtable import enumerate_paths, path_local_value
    from .c12 import mentions
    def is_slash(a):
        """the constant b'/' (by value, or a promoted reference to it)"""
        if fold(a) == 47:
            return True
        x = strip_casts(a)
        n = 0
        while isinstance(x, tuple) and x and x[0] in ("ref", "deref", "addr") and n < 6:
            x = strip_casts(x[2] if x[0] in ("ref", "addr") else x[1])
            n += 1
        if not (isinstance(x, tuple) and x and x[0] == "const"):
            return False
        if x[1] == 47 or (len(x) > 4 and tuple(x[4]) == (47,)):
            return True
        # `&&u8` promoted: the pointee of the pointer stored at offset 0 is the byte
        # ... or a promoted `Some(&b'/')` (an Option<&u8> is just that pointer)
        return len(x) > 5 and any(off == 0 and (str(x[3]).endswith("u8") or str(x[3]).endswith("Option<&u8>")) and tuple(mem[:1]) == (47,) for off, mem in x[5])
    for nm in ("path_join", "path_join_fmt"):
        fn = prog.fns.get(M + "UnixStr::" + nm)
        if fn is None:
            if ck.config != "C":
                ck.anchor("C11.6", nm, None)
            continue
        ctx = prog.ctx(fn)
        cfg = ctx.cfg
        paths = enumerate_paths(ctx, max_paths=3000)
        n_checked = 0
        bad = []
        for edges in paths:
            blocks = [0] + [e.dst for e in edges]
            ext = [b for b in blocks if cfg.term(b)["k"] == "call" and (cfg.term(b).get("callee") or "").endswith(("Vec::<T, A>::extend_from_slice", "Extend::extend"))]
            if not ext:
                continue          # an early return (one side empty)
            B = E = None
            contradiction = False
            for e in edges:
                for f in ctx.edge_facts(e):
                    subj = None
                    val = None
                    if f[0] == "cmp" and f[1] in ("Eq", "Ne") and 47 in (fold(f[2]), fold(f[3])):
                        subj = f[3] if fold(f[2]) == 47 else f[2]
                        val = f[1] == "Eq"
                    elif f[0] == "truth" and isinstance(f[1], tuple) and f[1][0] == "call" and (f[1][1] or "").endswith(("PartialEq::eq", "PartialEq::ne", "PartialEq>::eq", "PartialEq>::ne")) and any(is_slash(a) for a in f[1][2]):
                        subj = [a for a in f[1][2] if not is_slash(a)]
                        subj = subj[0] if subj else None
                        val = f[2] if f[1][1].endswith("::eq") else (not f[2])
                    if f[0] == "variant" and f[2] == "None" and mentions(f[1], ctx.prov, lambda z: z[0] == "call" and (z[1] or "").endswith("::first")):
                        # an empty extension has no leading slash
                        contradiction |= E is True
                        E = False if E is None else E
                        continue
                    if subj is None:
                        continue
                    is_base = mentions(subj, ctx.prov, lambda z: z[0] == "call" and (z[1] or "").endswith("::last"))
                    is_ext = mentions(subj, ctx.prov, lambda z: z[0] == "call" and (z[1] or "").endswith(("::first", "::get_unchecked", "::get")))
                    if is_base and not is_ext:
                        contradiction |= B is not None and B != val
                        B = val
                    elif is_ext:
                        contradiction |= E is not None and E != val
                        E = val
            if contradiction:
                continue
            pushes = sum(1 for b in blocks if cfg.term(b)["k"] == "call" and (cfg.term(b).get("callee") or "").endswith("Vec::<T, A>::push") and fold(ctx.args(b)[1]) == 47)
            skips = 0
            skip_is_E = False
            for idx, b in enumerate(blocks):
                if b not in ext:
                    continue
                a = ctx.args(b)[1]
                for z in walk_deep(a, ctx.prov, limit=120):
                    if z[0] == "agg" and str(z[1]).endswith("ops::range::RangeFrom") and z[3]:
                        st = z[3][0]
                        v = fold(st)
                        if v is None and isinstance(strip_casts(st), tuple) and strip_casts(st)[0] == "var":
                            pv = path_local_value(ctx, edges[:idx], strip_casts(st)[1])
                            v = fold(pv) if pv is not None else None
                        if v is None:
                            # branch-free form: the number of bytes skipped IS the truth value of "the extension starts with '/'"
                            # (`usize::from(ext.first() == Some(&b'/'))`): the skip cancels the extension's own slash
                            sx = strip_casts(st)
                            if isinstance(sx, tuple) and sx[0] == "var":
                                pv = path_local_value(ctx, edges[:idx], sx[1])
                                sx = strip_casts(pv) if pv is not None else sx
                            if isinstance(sx, tuple) and sx[0] == "call" and (sx[1] or "").endswith(("From<bool>>::from", "From::from")) and sx[2]:
                                sx = strip_casts(sx[2][0])
                            if isinstance(sx, tuple) and sx[0] == "call" and (sx[1] or "").endswith(("PartialEq::eq", "PartialEq>::eq")) and \
                                    mentions(sx, ctx.prov, lambda z: z[0] == "call" and (z[1] or "").endswith("::first")) and \
                                    any(is_slash(w) or (isinstance(w, tuple) and w and w[0] == "const" and ((len(w) > 4 and w[4] is not None and tuple(w[4]) == (47,)) or (len(w) > 5 and any(tuple(mem[:1]) == (47,) for off, mem in w[5]))))
                                        for a2 in sx[2] for w in walk_deep(a2, ctx.prov, limit=40)):
                                skip_is_E = True
                                continue
                        if v is None or v >= 1:
                            skips += 1 if v == 1 else 99
            n_checked += 1
            if skip_is_E and B is not None:
                if int(B) + pushes - skips != 1 or len(ext) != 1:
                    bad.append(f"base ends with '/': {B}, the extension's own leading '/' is skipped, '/' pushed: {pushes}, further skipped: {skips}, appends: {len(ext)} -> {int(B) + pushes - skips} separator(s) at the boundary")
                continue
            if B is None or E is None:
                bad.append(f"a path appends the extension without having tested {'the base' if B is None else 'the extension'} for a slash at the boundary (base={B}, ext={E}, pushed={pushes}, skipped={skips})")
            elif int(B) + int(E) + pushes - skips != 1 or len(ext) != 1:
                bad.append(f"base ends with '/': {B}, extension starts with '/': {E}, '/' pushed: {pushes}, leading '/' skipped: {skips}, appends: {len(ext)} -> {int(B) + int(E) + pushes - skips} separator(s) at the boundary")
        ck.floor("C11.6", f"{nm}|joining paths analysed", n_checked, 3)
        ck.ob("C11.6", f"{nm}|exactly-one-separator-at-the-boundary", not bad, fn=fn["path"], detail="; ".join(sorted(set(bad))[:3]) or f"{n_checked} paths")


def check_ends_with(ck, prog):
    """C11.7 ends_with answers `true` only after the comparison has reached the needle's FIRST byte: every `true` result is
    dominated by (needle index == 0), or by the needle being exhausted (`get` on it returned None), or it is the exit of a counting
    loop whose last round compared needle index 0 (checked by substituting the last counter value into the index expression)."""
    from .c07 import Lin
    from .c12 import mentions
    fn = prog.fns.get(M + "UnixStr::ends_with")
    if not ck.anchor("C11.7", "UnixStr::ends_with", fn):
        return
    ctx = prog.ctx(fn)
    cfg = ctx.cfg
    lin = Lin(ctx)
    is_other = lambda z: z[0] == "param" and z[1] == 2  # noqa: E731
    # needle index expressions: the index handed to get()/Index on other.0, or a bounds assertion over other.0
    idx_exprs = []
    for bb, t in cfg.calls(lambda t: (t.get("callee") or "").endswith(("<impl [T]>::get", "Index::index", "<impl [T]>::get_unchecked"))):
        a = ctx.args(bb)
        if mentions(a[0], ctx.prov, is_other) and not mentions(a[0], ctx.prov, lambda z: z[0] == "param" and z[1] == 1):
            idx_exprs.append(a[1])
    for b in fn["blocks"]:
        t = b["term"]
        if b["id"] in cfg.live_blocks() and t["k"] == "assert" and t["msg"] == "bounds":
            at = (b["id"], len(b["stmts"]))
            ln, ix = ctx.prov.operand(t["ops"][0], at), ctx.prov.operand(t["ops"][1], at)
            if mentions(ln, ctx.prov, is_other) and not mentions(ln, ctx.prov, lambda z: z[0] == "param" and z[1] == 1):
                idx_exprs.append(ix)
    ck.floor("C11.7", "needle index expressions", len(idx_exprs), 1)
    trues = [b["id"] for b in fn["blocks"] if b["id"] in cfg.live_blocks() and not b.get("cleanup") and
             any(st["k"] == "assign" and st["dst"]["l"] == 0 and not st["dst"].get("p") and fold(ctx.prov.rvalue(st["rv"], (b["id"], i))) == 1 for i, st in enumerate(b["stmts"]))]
    ck.floor("C11.7", "`true` results", len(trues), 1)
    # edges that justify a `true`: needle index == 0, a `get` that ran out, or the exit of a counting loop whose last round compared index 0
    good = set()
    why = []
    for sb in cfg.live_blocks():
        if cfg.term(sb)["k"] != "switch":
            continue
        for e in cfg.succ[sb]:
            for f in ctx.edge_facts(e):
                if f[0] == "cmp" and f[1] == "Eq" and 0 in (fold(f[2]), fold(f[3])):
                    subj = f[3] if fold(f[2]) == 0 else f[2]
                    if any(canon(strip_casts(subj)) == canon(strip_casts(ix)) for ix in idx_exprs):
                        good.add((e.src, e.dst))
                if f[0] == "cmp" and f[1] == "Eq":
                    # the same equation spelled differently: A == B with A - B = +-(needle index), e.g. `ind + 1 == other.0.len()`
                    LA, LB = lin.of(f[2]), lin.of(f[3])
                    if LA is not None and LB is not None:
                        D = Lin._add(LA, LB, -1)
                        Dn = ({t: -c for t, c in D[0].items()}, -D[1])
                        clean = lambda L: ({t: c for t, c in L[0].items() if c != 0}, L[1])  # noqa: E731
                        for ix in idx_exprs:
                            I = lin.of(ix)
                            if I is not None and I[0] and clean(I) in (clean(D), clean(Dn)):
                                good.add((e.src, e.dst))
                if f[0] == "variant" and f[2] == "None" and mentions(f[1], ctx.prov, lambda z: z[0] == "call" and (z[1] or "").endswith("<impl [T]>::get") and mentions(z[2][0], ctx.prov, lambda w: w[0] == "param")):
                    good.add((e.src, e.dst))
                if f[0] == "cmp" and f[1] in ("Ge", "Gt") and isinstance(strip_casts(f[2]), tuple) and strip_casts(f[2])[0] == "var":
                    cnt = strip_casts(f[2])
                    R = lin.of(f[3])
                    if R is None:
                        continue
                    last = (R[0], R[1] - 1) if f[1] == "Ge" else R
                    vname = f"v:{cnt[2] or cnt[1]}"
                    for ix in idx_exprs:
                        I = lin.of(ix)
                        if I is None or vname not in I[0]:
                            continue
                        coef = I[0][vname]
                        rest = ({t: c for t, c in I[0].items() if t != vname}, I[1])
                        val = Lin._add(rest, ({t: c * coef for t, c in last[0].items()}, last[1] * coef), 1)
                        why.append(f"loop exits when {show(f[2])} {f[1]} {show(f[3])}: the last needle index compared is {val}")
                        if val == ({}, 0):
                            good.add((e.src, e.dst))
    r = cfg.reachable_from(0, avoid_edges=good)
    for k, tb in enumerate(sorted(trues)):
        ok = tb not in r
        ck.ob("C11.7", f"true-only-after-the-needles-first-byte-was-compared|#{k}", ok, fn=fn["path"], site=ctx.site(tb),
              detail="ends_with can answer `true` without the comparison having reached needle index 0 (" + ("; ".join(sorted(set(why))) or "no `index == 0` test, exhausted-`get` edge or counting-loop exit on the way") + "): a needle differing only in its first byte is accepted as a suffix")
