"""C11 — UnixStr search and path operations: panic-freedom, reads inside the arguments, needle/split-point shapes."""
from ..engine.prov import const_value, strip_casts, walk, walk_deep, show
from ..engine.dtable import canon
from ..engine.fold import fold
from ..engine import panics

CONFIGS_QUICK = ["A", "B", "C"]
CONFIGS_THOROUGH = ["A", "B", "C", "R", "X"]

EXPLANATION = (
    "Decided (static, MIR): C11.1 panic inventory of find, find_buf, buf_find, ends_with, match_up_to, match_up_to_str, path_file_name, path_join, path_join_fmt, parent_path: "
    "every overflow/bounds assertion and every panicking call (slice indexing, unwrap) is auto-discharged (type invariant len>=1, dominating comparison, range-bounded index, index arithmetic) "
    "or listed in a reviewed table with its reason; anything else is a reachable panic. C11.2 raw reads through a pointer taken from a &str/&[u8] (not NUL-terminated by type) are dominated by a comparison with that slice's length "
    "(reads through a UnixStr pointer are covered by the terminator invariant, C10). C11.3 the needle `find` hands to the searcher is the string without its terminator: the slice ends at len-1 (sibling find_buf passes the caller's bytes unchanged), "
    "and an empty needle never reaches an index. C11.4 split points: path_file_name returns the suffix starting one past the separator it found, under the guard that something follows; parent_path cuts before the separator (C10 checks the terminator). "
    "NOT decided: agreement of the results with the byte-string definitions for all operand pairs (first occurrence, suffix test, prefix length) - value-level.")
ASSUMPTIONS = ["slices and vectors are at most isize::MAX long", "reviewed table of loop-invariant arithmetic (see rule module)"]

M = "rusl::string::unix_str::"
FUNS = ["UnixStr::find", "UnixStr::find_buf", "UnixStr::ends_with", "UnixStr::match_up_to", "UnixStr::match_up_to_str", "UnixStr::path_file_name",
        "UnixStr::path_join", "UnixStr::path_join_fmt", "UnixStr::parent_path", "buf_find"]
# (function, site key) -> reason.  Keys are canonical operand expressions, not positions.
REVIEWED = {
    ("UnixStr::ends_with", "overflow_sub((len(*p1.0) Sub 1),var:ind)"): "ind <= other.len()-1 <= self.len()-1: the loop returns when other.len()-1-ind == 0 and other.len() <= self.len() was checked on entry",
    ("UnixStr::ends_with", "overflow_sub((len(*p2.0) Sub 1),var:ind)"): "ind <= other.len()-1: the loop returns when other.len()-1-ind == 0, before ind is incremented past it",
    ("UnixStr::ends_with", "overflow_add(var:ind,1)"): "ind < other.len() <= isize::MAX",
    ("UnixStr::match_up_to", "overflow_add(var:it,1)"): "it indexes bytes that were just read from memory; an object cannot span usize::MAX bytes",
    ("UnixStr::match_up_to_str", "overflow_add(var:it,1)"): "it < other.len() <= isize::MAX (checked each round)",
    ("UnixStr::parent_path", "overflow_sub(var:next_slash_back,1)"): "both sites are reached only with next_slash_back != 0 (tested just before)",
    ("UnixStr::parent_path", "overflow_add(var:next_slash_back,1)"): "only executed when next_slash_back == 0",
    ("UnixStr::path_join_fmt", "overflow_add(len(place:container_vec),1)"): "a Vec's length is at most isize::MAX",
}


def run(ck, progs, tier):
    for cfgname, prog in progs.items():
        ck.set_config(prog)
        run_one(ck, prog)


def run_one(ck, prog):
    n_sites = 0
    used_reviews = set()
    for name in FUNS:
        fn = prog.fns.get(M + name)
        if fn is None:
            if ck.config == "C" and name in ("UnixStr::path_join", "UnixStr::path_join_fmt", "UnixStr::parent_path"):
                continue
            ck.anchor("C11.1", name, fn)
            continue
        ctx = prog.ctx(fn)
        for s in panics.sites(ctx):
            n_sites += 1
            ok, why = panics.discharge(ctx, s)
            rk = (name, s["key"])
            if not ok and rk in REVIEWED:
                ok, why = True, "reviewed: " + REVIEWED[rk]
                used_reviews.add(rk)
            from ..engine.cfg import span_str
            ck.ob("C11.1", f"{name}|{s['key']}", ok, fn=fn["path"], site=span_str(s["sp"]),
                  detail=("reachable panic: " if not ok else "") + why)
    ck.floor("C11.1", "potential panic sites", n_sites, {"C": 12, "R": 4}.get(ck.config, 18))   # release MIR carries no overflow assertions
    ck.extra.setdefault("reviewed_entries_used", {})[ck.config] = sorted(f"{a}|{b}" for a, b in used_reviews)

    # ---- C11.2 raw reads stay inside non-terminated slices ------------------------------------------------------
    for name in ("UnixStr::match_up_to_str", "UnixStr::match_up_to"):
        fn = prog.fns.get(M + name)
        if not ck.anchor("C11.2", name, fn):
            continue
        ctx = prog.ctx(fn)
        cfg = ctx.cfg
        for bb, t in cfg.calls(lambda t: (t.get("callee") or "").endswith("const_ptr::<impl *const T>::read")):
            e = ctx.args(bb)[0]
            # base pointer: from str::as_ptr / slice::as_ptr (needs a length check) or UnixStr::as_ptr (terminated)
            bases = [x for x in walk_deep(e, ctx.prov) if x[0] == "call" and (x[1] or "").endswith("::as_ptr")]
            needs = [x for x in bases if not (x[1] or "").endswith(("UnixStr::as_ptr", "UnixString::as_ptr"))]
            if not needs:
                ck.ob("C11.2", f"{name}|read-through-terminated-pointer", True, fn=fn["path"], site=ctx.site(bb), detail="read through a UnixStr pointer (terminator invariant)")
                continue
            # every path from entry to the FIRST execution of this read must pass a comparison with the slice's length:
            # remove edges that carry such a comparison; the read must become unreachable from entry.
            cut = set()
            for sb in cfg.live_blocks():
                if cfg.term(sb)["k"] != "switch":
                    continue
                for ed in cfg.succ[sb]:
                    for f in ctx.edge_facts(ed):
                        if f[0] == "cmp" and any(any(y[0] == "call" and (y[1] or "").endswith("::len") for y in walk_deep(z, ctx.prov)) for z in (f[2], f[3])):
                            cut.add((ed.src, ed.dst))
            r = cfg.reachable_from(0, avoid_edges=cut)
            ck.ob("C11.2", f"{name}|length-checked-before-read", bb not in r, fn=fn["path"], site=ctx.site(bb),
                  detail="a byte is read through a pointer taken from a &str/&[u8] before any comparison with that slice's length: for an empty argument this reads one byte past it")
            # ... and again after every update of the index: between each assignment of the index variable and the read
            # there must be a comparison with the length (a check made BEFORE the increment says nothing about the new index)
            idx_locals = set()
            for x in walk_deep(e, ctx.prov):
                if x[0] == "call" and (x[1] or "").endswith("::add") and len(x[2]) == 2:
                    iv = strip_casts(x[2][1])
                    if isinstance(iv, tuple) and iv[0] == "var":
                        idx_locals.add(iv[1])
            stale = []
            for l in idx_locals:
                for (dbb, didx) in ctx.prov.defs.get((l, None), []):
                    # from just after the definition: successors of the defining block (the def is at the end of its block's work)
                    starts = [ed.dst for ed in cfg.succ[dbb] if (ed.src, ed.dst) not in cut]
                    reach = set()
                    for st in starts:
                        reach |= cfg.reachable_from(st, avoid_edges=cut)
                    # a definition in the same block as a later cut edge is covered by the cut
                    if bb in reach:
                        stale.append(dbb)
            ck.ob("C11.2", f"{name}|length-rechecked-after-index-update", not stale, fn=fn["path"], site=ctx.site(bb),
                  detail="the index is advanced and the next byte is read without comparing the NEW index with the slice's length: when the argument is a complete prefix the read lands one byte past it")

    # ---- C11.3 needle shape ------------------------------------------------------------------------------------------
    fn = prog.fns.get(M + "UnixStr::find")
    if ck.anchor("C11.3", "find", fn):
        ctx = prog.ctx(fn)
        calls = [bb for bb, t in ctx.cfg.calls(lambda t: (t.get("callee") or "").endswith("unix_str::buf_find"))]
        ck.ob("C11.3", "find-calls-searcher", len(calls) == 1, fn=fn["path"], detail=f"buf_find call sites in find: {len(calls)}")
        for bb in calls:
            needle = ctx.args(bb)[1]
            ok = False
            shown = show(needle)
            for x in walk_deep(needle, ctx.prov):
                if x[0] == "agg" and str(x[1]).endswith("RangeTo") and x[3]:
                    en = strip_casts(x[3][0])
                    if isinstance(en, tuple) and en[0] == "bin" and en[1] == "Sub" and fold(en[3]) == 1 and panics.is_len_of_unixstr(en[2]):
                        ok = True
                    shown = show(en)
            ck.ob("C11.3", "needle-is-string-minus-terminator", ok, fn=fn["path"], site=ctx.site(bb),
                  detail=f"the needle handed to the searcher must be other's bytes up to len-1 (terminator stripped, nothing else); its end is `{shown}`")
    fb = prog.fns.get(M + "UnixStr::find_buf")
    if ck.anchor("C11.3", "find_buf", fb):
        ctx = prog.ctx(fb)
        for bb, t in ctx.cfg.calls(lambda t: (t.get("callee") or "").endswith("unix_str::buf_find")):
            a = ctx.args(bb)[1]
            while isinstance(a, tuple) and a[0] in ("ref", "deref", "cast"):
                a = a[2] if a[0] in ("ref", "cast") else a[1]
            ok = isinstance(a, tuple) and a[0] == "param"
            ck.ob("C11.3", "find_buf-passes-bytes-unchanged", ok, fn=fb["path"], site=ctx.site(bb), detail=f"find_buf must search for exactly the caller's bytes, passes {show(a)}")

    check_scan_step(ck, prog)

    # ---- C11.4 split points --------------------------------------------------------------------------------------------
    pf = prog.fns.get(M + "UnixStr::path_file_name")
    if ck.anchor("C11.4", "path_file_name", pf):
        ctx = prog.ctx(pf)
        ok = False
        for bb, t in ctx.cfg.calls(lambda t: (t.get("callee") or "").endswith("Index::index")):
            a = ctx.args(bb)
            rng = strip_casts(a[1])
            if isinstance(rng, tuple) and rng[0] == "agg" and str(rng[1]).endswith("RangeFrom") and rng[3]:
                st = strip_casts(rng[3][0])
                if isinstance(st, tuple) and st[0] == "bin" and st[1] == "Add" and fold(st[3]) == 1:
                    # the index is the one at which the byte compared equal to '/'
                    facts = panics.dominating_facts(ctx, bb)
                    sep = any(f[0] == "cmp" and f[1] == "Eq" and 47 in (fold(f[2]), fold(f[3])) for f in facts)
                    ok = sep
        ck.ob("C11.4", "file-name-starts-after-last-separator", ok, fn=pf["path"],
              detail="path_file_name must return the suffix starting at (index of the separator found scanning from the back) + 1")
        revs = [bb for bb, t in ctx.cfg.calls(lambda t: (t.get("callee") or "").endswith("Iterator::rev"))]
        ck.ob("C11.4", "file-name-scans-from-the-back", len(revs) == 1, fn=pf["path"], detail="the separator must be searched from the end (last separator)")


def check_scan_step(ck, prog):
    """C11.5: the searcher examines every start position: the index it compares the first needle byte at is delivered by a
    Range over 0..haystack.len() (step one by construction) or is a counter whose every update inside the loop is `+ 1`."""
    fn = prog.fns.get(M + "buf_find")
    if not ck.anchor("C11.5", "buf_find", fn):
        return
    ctx = prog.ctx(fn)
    cfg = ctx.cfg
    # the bounds-checked index into parameter 1 (this_buf)
    idxs = []
    for b in fn["blocks"]:
        if b.get("cleanup") or b["id"] not in cfg.live_blocks():
            continue
        t = b["term"]
        if t["k"] == "assert" and t["msg"] == "bounds":
            at = (b["id"], len(b["stmts"]))
            ln, ix = ctx.prov.operand(t["ops"][0], at), ctx.prov.operand(t["ops"][1], at)
            if "p1" in canon(ln) and "p2" not in canon(ln):
                idxs.append((b["id"], ix))
    ck.ob("C11.5", "anchor|haystack-index", len(idxs) >= 1, fn=fn["path"], detail="no indexed access of the haystack found")
    for bb, ix in idxs[:1]:
        ixs = strip_casts(ix)
        ok = False
        why = ""
        if any(x[0] == "agg" and str(x[1]).endswith("ops::range::Range") for x in walk_deep(ix, ctx.prov)) and any(x[0] == "call" and (x[1] or "").endswith("Iterator::next") for x in walk_deep(ix, ctx.prov)):
            rng = [x for x in walk_deep(ix, ctx.prov) if x[0] == "agg" and str(x[1]).endswith("ops::range::Range")][0]
            ok = fold(rng[3][0]) == 0 and "p1" in canon(rng[3][1])
            why = "range over the haystack"
        elif isinstance(ixs, tuple) and ixs[0] == "var":
            defs = ctx.prov.expand(ixs)
            ok = True
            for d in defs:
                ds = strip_casts(d)
                if fold(ds) == 0:
                    continue
                if isinstance(ds, tuple) and ds[0] == "bin" and ds[1] == "Add" and fold(ds[3]) == 1 and isinstance(strip_casts(ds[2]), tuple) and strip_casts(ds[2])[0] == "var" and strip_casts(ds[2])[1] == ixs[1]:
                    continue
                ok = False
                why = f"the scan position is updated with {show(d)}"
        ck.ob("C11.5", "scan-advances-one-position-at-a-time", ok, fn=fn["path"], site=ctx.site(bb),
              detail=f"the search must try every start position in order (first occurrence): {why or 'the start index is neither a 0..len range nor a +1 counter'}; skipping ahead after a partial match misses overlapping occurrences (\"aaab\".find(\"aab\"))")
