"""C08 — memcpy/memmove/memset/memcmp/bcmp: self-containment, dispatch shape, tiling argument (c08_shape)."""
import re

from ..engine.prov import const_value, strip_casts, walk, walk_deep, show
from ..engine.dtable import canon
from ..engine.fold import fold
from ..engine import panics
from .c12 import mentions
from . import c08_shape

CONFIGS_QUICK = ["A"]
CONFIGS_THOROUGH = ["A", "R", "X"]

EXPLANATION = (
    "Decided (static, MIR; the structural conditions without which every call recurses or vanishes): C08.1 tiny-start carries #![no_builtins] and the five symbols are #[no_mangle] pub unsafe extern \"C\" functions with the C signatures; "
    "C08.2 the call-graph closure of the five contains only an allow-listed vocabulary (pointer add/sub/cast/read, integer and wrapping operations, From conversions, transmute) - in particular nothing that lowers back to a mem* symbol "
    "(copy, copy_nonoverlapping, write_bytes, read_unaligned/write_unaligned, swap, slice copy/fill/clone/eq) - and no aggregate wider than a word is copied except the audited [u8; 8] read; "
    "C08.3 shape of the dispatch: memmove copies backward exactly when dest.wrapping_sub(src) < n, word paths are entered only under n >= WORD_COPY_THRESHOLD with WORD_COPY_THRESHOLD >= 2*WORD_SIZE, "
    "the head length is (-dest) & WORD_MASK forward and dest_end & WORD_MASK backward, bcmp forwards to memcmp, and each function returns its first argument (memcmp the byte difference). "
    "C08.4-C08.7 a compositional tiling argument for every (n, alignment, overlap): on every path through copy_forward / copy_backward / set_bytes the leaf calls tile [0, n) - segment k starts where segment k-1 ended "
    "(linear normal forms of the pointer arguments along the path) and the segment lengths sum to n; the drivers move no data themselves and never step against their direction; every leaf loop performs exactly one store per round through "
    "its destination cursor of the element read through its source cursor (or the fill value), both cursors step by exactly one element in the routine's direction, forward loops store-then-advance and backward loops retreat-then-store, "
    "and the loop runs exactly while the cursor is inside [dest, dest + n) - hence no byte outside the destination range is written and, with the memmove dispatch rule of C08.3, overlapping copies read every source byte before it is overwritten; "
    "compare_bytes returns 0 only when the index reached n, otherwise (byte at s1+i) - (byte at s2+i), and the index starts at 0 and moves only past positions whose bytes compared equal. "
    "C08.7 also: compare_bytes reads a byte only at an index the loop test has shown to be below n (a bottom-tested loop reads index 0 when n == 0). C08.7 also: a byte difference is answered only at the scan position (all earlier positions compared equal). NOT decided: the arithmetic facts the argument leans on ((-dest) & 7 < n under n >= 16, (n - head) & !7 <= n - head) are taken from the constants check in C08.3 rather than re-derived; behaviour of the generated machine code.")
ASSUMPTIONS = ["#![no_builtins] keeps LLVM from recognising the loops as mem* idioms", "pointer read/write of a word-sized scalar lowers to a load/store, not to memcpy"]

M = "tiny_start::symbols::mem::"
SYMS = {"memcpy": "(*mut u8, *const u8, usize) -> *mut u8", "memmove": "(*mut u8, *const u8, usize) -> *mut u8", "memset": "(*mut u8, i32, usize) -> *mut u8",
        "memcmp": "(*const u8, *const u8, usize) -> i32", "bcmp": "(*const u8, *const u8, usize) -> i32"}
ALLOW = [r"^core::ptr::const_ptr::<impl \*const T>::(add|sub|cast|read|offset|cast_mut|wrapping_add|wrapping_sub|addr)$",
         r"^core::ptr::mut_ptr::<impl \*mut T>::(add|sub|cast|read|write|offset|cast_const|wrapping_add|wrapping_sub|addr)$",
         r"^core::num::<impl (usize|u8|u32|u64|i32|isize)>::(wrapping_neg|wrapping_sub|wrapping_add|wrapping_mul|from_ne_bytes|to_ne_bytes|rotate_left|rotate_right|swap_bytes|leading_zeros|trailing_zeros)$",
         r"^core::convert::From::from$", r"^core::convert::Into::into$", r"^core::intrinsics::transmute$", r"^core::mem::size_of$", r"^core::mem::transmute$"]
DENY = ("copy_nonoverlapping", "core::ptr::copy", "write_bytes", "read_unaligned", "write_unaligned", "core::ptr::swap", "core::mem::swap", "copy_from_slice", "::fill", "clone_from_slice",
        "copy_to", "copy_from", "PartialEq", "core::ptr::read_volatile", "core::slice::")


def run(ck, progs, tier):
    for cfgname, prog in progs.items():
        ck.set_config(prog)
        run_one(ck, prog)


def run_one(ck, prog):
    attrs = prog.crate_attrs("tiny_start") if "tiny_start" in prog.crates else []
    ck.ob("C08.1", "no_builtins", any("NoBuiltins" in a for a in attrs), detail="tiny-start must carry #![no_builtins]: otherwise LLVM turns the copy loops back into calls to memcpy/memset (infinite recursion)")
    fns = {}
    for name, sig in SYMS.items():
        fn = prog.fns.get(M + name)
        if not ck.anchor("C08.1", name, fn):
            continue
        fns[name] = fn
        got = fn.get("sig", "")
        norm = got.replace("unsafe extern \"C\" fn", "").strip()
        want = sig.replace("(", "(").strip()
        ck.ob("C08.1", f"{name}|signature", norm.replace(" ", "") == want.replace(" ", "") and fn.get("unsafe") and "C" in str(fn.get("abi")), fn=fn["path"], detail=f"exported signature `{got}` (abi {fn.get('abi')}); C requires `{sig}`")
        ck.ob("C08.1", f"{name}|no_mangle-public", "NO_MANGLE" in fn.get("cg_flags", "") and fn.get("vis") == "Public", fn=fn["path"], detail=f"the symbol must be exported unmangled (flags {fn.get('cg_flags')}, vis {fn.get('vis')})")
    if len(fns) != 5:
        return
    # ---- C08.2 closure vocabulary ------------------------------------------------------------------------------------
    cg = prog.callgraph()
    closure = cg.reach([f["path"] for f in fns.values()])
    local = sorted(p for p in closure if p in prog.fns)
    ck.floor("C08.2", "functions in the closure", len(local), 14)
    n_calls = 0
    for p in local:
        fn = prog.fns[p]
        if fn["crate"] != "tiny_start":
            ck.ob("C08.2", f"{p}|outside-tiny-start", False, fn=p, detail="the mem symbols call into another crate (not covered by no_builtins)")
            continue
        ctx = prog.ctx(fn)
        for bb, t in ctx.cfg.calls():
            c = t.get("callee")
            n_calls += 1
            if c is None:
                ck.ob("C08.2", f"{p}|indirect-call", False, fn=p, site=ctx.site(bb), detail="indirect call inside a mem symbol")
                continue
            if c in prog.fns and prog.fns[c]["crate"] == "tiny_start":
                continue
            if any(d in c for d in DENY):
                ck.ob("C08.2", f"{p}|lowers-to-mem-symbol|{c}", False, fn=p, site=ctx.site(bb), detail=f"`{c}` lowers to a call of memcpy/memmove/memset/memcmp: inside their own implementation that is infinite recursion")
                continue
            ok = any(re.match(a, c) for a in ALLOW)
            if not ok and c.startswith("core::panicking::"):
                # an assertion that cannot fail (discharged) never reaches the panic machinery
                sites = [x for x in panics.sites(ctx) if x["bb"] == bb]
                if sites and all(panics.discharge(ctx, x)[0] for x in sites):
                    ck.note(f"{p.split('::')[-1]}: contains an assertion that cannot fail ({panics.discharge(ctx, sites[0])[1]})")
                    continue
            ck.ob("C08.2", f"{p}|allowed-callee|{c}", ok, fn=p, site=ctx.site(bb), detail=f"`{c}` is outside the audited vocabulary of the mem symbols (pointer add/sub/cast/read/write, integer ops, transmute); re-audit before allowing")
        # aggregate copies wider than a word
        for l in fn["locals"]:
            ty = l["ty"]
            m = re.match(r"^\[u8; (\d+)\]$", ty)
            if m and int(m.group(1)) > 8:
                ck.ob("C08.2", f"{p}|wide-aggregate|{ty}", False, fn=p, detail=f"a local of type {ty} is copied by value: moves wider than a word are lowered to memcpy")
            if ty.startswith("[") and not m and "; " in ty:
                ck.ob("C08.2", f"{p}|aggregate|{ty}", False, fn=p, detail=f"array local {ty} in a mem symbol")
    ck.floor("C08.2", "call sites in the closure", n_calls, 40)

    # ---- C08.3 dispatch shape -----------------------------------------------------------------------------------------------
    mm = prog.ctx(fns["memmove"])
    fwd = [bb for bb, t in mm.cfg.calls(lambda t: (t.get("callee") or "").endswith("copy_forward"))]
    bwd = [bb for bb, t in mm.cfg.calls(lambda t: (t.get("callee") or "").endswith("copy_backward"))]
    ck.ob("C08.3", "memmove|two-directions", len(fwd) == 1 and len(bwd) == 1, fn=mm.path, detail=f"forward copies {len(fwd)}, backward copies {len(bwd)}")
    if fwd and bwd:
        def delta_facts(bb):
            out = []
            for f in panics.dominating_facts(mm, bb):
                if f[0] == "cmp" and f[1] in ("Ge", "Lt", "Gt", "Le"):
                    a, b = strip_casts(f[2]), strip_casts(f[3])
                    opn = f[1]
                    if isinstance(a, tuple) and a[0] == "param" and a[1] == 3:        # written as `n <= delta` / `n > delta`
                        a, b = b, a
                        opn = {"Ge": "Le", "Le": "Ge", "Gt": "Lt", "Lt": "Gt"}[opn]
                    is_delta = isinstance(a, tuple) and a[0] == "call" and (a[1] or "").endswith("usize>::wrapping_sub") and mentions(a[2][0], mm.prov, lambda z: z[0] == "param" and z[1] == 1) and mentions(a[2][1], mm.prov, lambda z: z[0] == "param" and z[1] == 2)
                    is_n = isinstance(b, tuple) and b[0] == "param" and b[1] == 3
                    if is_delta and is_n:
                        out.append(opn)
            return out
        ck.ob("C08.3", "memmove|forward-iff-delta>=n", delta_facts(fwd[0]) == ["Ge"], fn=mm.path, detail=f"the forward copy must be taken exactly when dest.wrapping_sub(src) >= n; dominating comparisons {delta_facts(fwd[0])}")
        ck.ob("C08.3", "memmove|backward-iff-delta<n", delta_facts(bwd[0]) == ["Lt"], fn=mm.path, detail=f"the backward copy must be taken exactly when dest.wrapping_sub(src) < n; dominating comparisons {delta_facts(bwd[0])}")
        for bb in fwd + bwd:
            a = mm.args(bb)
            ck.ob("C08.3", f"memmove|args-passed-through|{'fwd' if bb in fwd else 'bwd'}", [canon(x) for x in a] == ["p1", "p2", "p3"], fn=mm.path, detail=f"copy helpers must receive (dest, src, n) unchanged, got {[show(x) for x in a]}")
    W = prog.const(M + "WORD_SIZE")
    TH = prog.const(M + "WORD_COPY_THRESHOLD")
    MK = prog.const(M + "WORD_MASK")
    if MK is None and isinstance(W, int):
        MK = W - 1          # the mask constant is only a name for WORD_SIZE - 1; `% WORD_SIZE` says the same without it

    def mask_norm(e, depth=0):
        """x % W with W a power of two is x & (W - 1): one spelling for the matchers below"""
        if not isinstance(e, tuple) or depth > 12:
            return e
        if e[0] == "bin" and e[1] == "Rem" and isinstance(W, int) and fold(e[3]) == W and W & (W - 1) == 0:
            return ("bin", "BitAnd", mask_norm(e[2], depth + 1), ("const", W - 1, None, "usize"))
        if e[0] == "bin":
            return ("bin", e[1], mask_norm(e[2], depth + 1), mask_norm(e[3], depth + 1))
        if e[0] == "cast":
            return ("cast", e[1], mask_norm(e[2], depth + 1), e[3])
        return e
    ck.ob("C08.3", "threshold>=2*word", isinstance(W, int) and isinstance(TH, int) and TH >= 2 * W and MK == W - 1 and W & (W - 1) == 0, detail=f"WORD_SIZE={W} WORD_MASK={MK} WORD_COPY_THRESHOLD={TH}: the head alignment (< WORD_SIZE bytes) must fit inside n")
    for nm, head_kind in (("copy_forward", "neg"), ("copy_backward", "end"), ("set_bytes", "neg")):
        fn = prog.fns.get(M + nm)
        if not ck.anchor("C08.3", nm, fn):
            continue
        c = prog.ctx(fn)
        # word helpers only under n >= THRESHOLD
        words = [bb for bb, t in c.cfg.calls(lambda t: "words" in (t.get("callee") or ""))]
        ck.ob("C08.3", f"{nm}|has-word-path", len(words) >= 1, fn=fn["path"], detail="no word-wise path found")
        for wb in words:
            facts = panics.dominating_facts(c, wb)
            ok = any(f[0] == "cmp" and f[1] == "Ge" and fold(f[3]) == TH and isinstance(strip_casts(f[2]), tuple) and strip_casts(f[2])[0] in ("param", "var") for f in facts)
            ck.ob("C08.3", f"{nm}|word-path-under-threshold|{c.cfg.term(wb)['callee'].split('::')[-1]}", ok, fn=fn["path"], site=c.site(wb), detail="word-wise copying must be guarded by n >= WORD_COPY_THRESHOLD")
        # head length
        found = False
        for b in fn["blocks"]:
            for i, s in enumerate(b["stmts"]):
                if s["k"] == "assign" and s["rv"]["k"] == "binop" and s["rv"]["op"] in ("BitAnd", "Rem"):
                    e = mask_norm(c.prov.rvalue(s["rv"], (b["id"], i)))
                    if e[1] == "BitAnd" and fold(e[3]) == MK:
                        lhs = strip_casts(e[2])
                        if head_kind == "neg" and isinstance(lhs, tuple) and lhs[0] == "call" and (lhs[1] or "").endswith("usize>::wrapping_neg") and mentions(lhs, c.prov, lambda z: z[0] in ("param", "var") and z[1] == 1):
                            found = True
                        # the same quantity without the negation: (W - (dest & MASK)) & MASK with W = MASK + 1
                        if head_kind == "neg" and isinstance(lhs, tuple) and lhs[0] == "bin" and lhs[1] == "Sub" and fold(lhs[2]) == MK + 1:
                            inner = strip_casts(lhs[3])
                            if isinstance(inner, tuple) and inner[0] == "bin" and inner[1] == "BitAnd" and MK in (fold(inner[2]), fold(inner[3])) and mentions(inner, c.prov, lambda z: z[0] in ("param", "var") and z[1] == 1):
                                found = True
                        if head_kind == "end" and mentions(lhs, c.prov, lambda z: z[0] == "call" and (z[1] or "").endswith("::add")) and not mentions(lhs, c.prov, lambda z: z[0] == "call" and (z[1] or "").endswith("wrapping_neg")):
                            found = True
        ck.ob("C08.3", f"{nm}|head-length", found, fn=fn["path"], detail=("the unaligned head must be (-dest) & WORD_MASK bytes" if head_kind == "neg" else "the unaligned tail (copied first when going backward) must be dest_end & WORD_MASK bytes"))
    bc = prog.ctx(fns["bcmp"])
    ck.ob("C08.3", "bcmp-forwards-to-memcmp", [t.get("callee") for _, t in bc.cfg.calls()] == [M + "memcmp"] and [canon(x) for x in bc.args([bb for bb, _ in bc.cfg.calls()][0])] == ["p1", "p2", "p3"], fn=bc.path, detail="bcmp must be memcmp(s1, s2, n)")
    for nm in ("memcpy", "memmove", "memset"):
        c = prog.ctx(fns[nm])
        rets = list(c.ret_expr().values())
        def all_p1(e, depth=0):
            e2 = strip_casts(e)
            if isinstance(e2, tuple) and e2 and e2[0] == "var" and depth < 6:
                ds = c.prov.expand(e2)
                return bool(ds) and all(all_p1(d, depth + 1) for d in ds)
            return canon(e) == "p1"
        ck.ob("C08.3", f"{nm}|returns-first-argument", len(rets) >= 1 and all(all_p1(r) for r in rets), fn=c.path, detail=f"{nm} must return its destination pointer, returns {[show(r) for r in rets]}")
    ms = prog.ctx(fns["memset"])
    for bb, t in ms.cfg.calls(lambda t: (t.get("callee") or "").endswith("set_bytes")):
        a = ms.args(bb)
        ck.ob("C08.3", "memset|value-truncated-to-byte", canon(a[0]) == "p1" and canon(a[2]) == "p3" and isinstance(a[1], tuple) and a[1][0] == "cast" and a[1][3] == "u8" and canon(a[1]) == "p2", fn=ms.path, detail="memset must fill with (c as u8) over (s, n)")
    cb = prog.fns.get(M + "compare_bytes")
    if cb is None and prog.fns.get(M + "memcmp") is not None and any(prog.ctx(prog.fns[M + "memcmp"]).cfg.in_cycle(b) for b in prog.ctx(prog.fns[M + "memcmp"]).cfg.live_blocks()):
        cb = prog.fns[M + "memcmp"]        # the comparison loop written directly in memcmp (same parameters s1, s2, n)
    if ck.anchor("C08.3", "compare_bytes", cb):
        c = prog.ctx(cb)
        subs = []
        for b in cb["blocks"]:
            for i, s in enumerate(b["stmts"]):
                if s["k"] == "assign" and s["rv"]["k"] == "binop" and s["rv"]["op"].startswith("Sub"):
                    e = c.prov.rvalue(s["rv"], (b["id"], i))
                    subs.append(e)
        ok = any(mentions(e[2], c.prov, lambda z: z[0] == "param" and z[1] == 1) and mentions(e[3], c.prov, lambda z: z[0] == "param" and z[1] == 2) for e in subs)
        ck.ob("C08.3", "memcmp|difference-of-first-mismatch", ok, fn=cb["path"], detail="memcmp must return (byte of s1) - (byte of s2) at the first mismatch (sign matters)")
    c08_shape.check(ck, prog)
