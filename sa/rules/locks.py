"""Shared helpers for the futex-lock properties (C01, C02)."""
from ..engine.atomics import inventory, target_of, is_acquire, is_release
from ..engine.prov import const_value, strip_casts, walk, show

WAIT_WRAPPERS = ("tiny_std::sync::futex_wait_fast", "rusl::futex::futex_wait")
WAKE_WRAPPERS = ("rusl::futex::futex_wake",)
BLOCKING = ("rusl::futex::futex_wait", "tiny_std::sync::futex_wait_fast", "rusl::time::nanosleep",
            "rusl::select::ppoll", "rusl::select::epoll_wait", "tiny_std::thread::sleep",
            "core::hint::spin_loop", "rusl::unistd::sched_yield")


def find_atomic_fields(prog, adt_path, depth=0, seen=None):
    """(adt, field) pairs of atomic fields reachable by value from adt_path."""
    seen = seen or set()
    if adt_path in seen or depth > 4:
        return []
    seen.add(adt_path)
    a = prog.adts.get(adt_path)
    out = []
    if not a:
        return out
    for v in a["variants"]:
        for f in v["fields"]:
            ty = f["ty"]
            if ty.startswith("core::sync::atomic::Atomic"):
                out.append((adt_path, f["name"], ty))
            else:
                base = ty.split("<")[0]
                if base in prog.adts:
                    out += find_atomic_fields(prog, base, depth + 1, seen)
    return out


def has_atomic_call(fn):
    for b in fn["blocks"]:
        t = b["term"]
        if t["k"] == "call" and (t.get("callee") or "").startswith("core::sync::atomic::"):
            return True
    return False


def word_ops(prog, words):
    """All atomic ops in the program on any (adt, field) in words."""
    res = []
    for fn in prog.fns.values():
        if not has_atomic_call(fn):
            continue
        ctx = prog.ctx(fn)
        for op in inventory(fn, ctx.cfg, ctx.prov):
            tg = op.target
            if tg and tg[0] == "field" and (tg[1], tg[2]) in words:
                res.append((ctx, op))
    return res


def all_atomic_ops(prog, crate_prefix):
    res = []
    for p, fn in prog.fns.items():
        if not p.startswith(crate_prefix) and not p.startswith("<" + crate_prefix):
            continue
        if not has_atomic_call(fn):
            continue
        ctx = prog.ctx(fn)
        for op in inventory(fn, ctx.cfg, ctx.prov):
            res.append((ctx, op))
    return res


def word_passes(prog, words, within=None):
    """Calls that receive a reference to one of the words: [(ctx, bb, term, argidx, (adt, field))]."""
    res = []
    for p, fn in prog.fns.items():
        if within is not None and not within(p):
            continue
        ctx = None
        for b in fn["blocks"]:
            t = b["term"]
            if t["k"] != "call" or b.get("cleanup"):
                continue
            c = t.get("callee") or ""
            if c.startswith("core::sync::atomic::"):
                continue
            # cheap filter: any arg typed as reference to Atomic
            if ctx is None:
                ctx = prog.ctx(fn)
            if b["id"] not in ctx.cfg.live_blocks():
                continue
            for i, a in enumerate(t["args"]):
                if a["k"] not in ("copy", "move"):
                    continue
                ty = ctx.prov.local_ty.get(a["p"]["l"], "")
                if "core::sync::atomic::Atomic" not in ty:
                    continue
                e = ctx.prov.operand(a, ctx.term_at(b["id"]))
                tg = target_of(e)
                if tg and tg[0] == "field" and (tg[1], tg[2]) in words:
                    res.append((ctx, b["id"], t, i, (tg[1], tg[2])))
    return res


def through_result_adapters(x):
    """Result::map / map_err / ok() / as_ref() keep the Ok-ness of their receiver: look through them to the operation itself"""
    x = strip_casts(x)
    n = 0
    while isinstance(x, tuple) and x and x[0] == "call" and (x[1] or "").endswith(("Result::<T, E>::map", "Result::<T, E>::map_err", "Result::<T, E>::ok", "Result::<T, E>::as_ref", "Result::<T, E>::copied", "Result::<T, E>::inspect")) and x[2] and n < 6:
        x = strip_casts(x[2][0])
        while isinstance(x, tuple) and x and x[0] in ("ref",):
            x = strip_casts(x[2])
        n += 1
    return x


def _is_ok_adapter(x):
    x = strip_casts(x)
    return isinstance(x, tuple) and x and x[0] == "call" and (x[1] or "").endswith("Result::<T, E>::ok")


def acquiring_edges(ctx, acq_op_at, acquirer_fns=()):
    """CFG edges whose traversal proves an acquiring transition happened.

    acq_op_at: {bb: kind} for blocks whose terminator is an acquiring op in this fn;
      kind = ('cas',) success == Ok variant ; ('swap0',) success == returned value == 0
    acquirer_fns: callee paths whose return implies acquisition.
    Returns set of (src, dst) pairs and a list of descriptions.
    """
    pairs, descr = set(), []
    cfg = ctx.cfg
    live = cfg.live_blocks()
    for b in live:
        t = cfg.term(b)
        if t["k"] == "call" and (t.get("callee") in acquirer_fns or t.get("resolved") in acquirer_fns) and t.get("t") is not None:
            pairs.add((b, t["t"]))
            descr.append(f"return of {t.get('callee')} @bb{b}")
        if t["k"] != "switch":
            continue
        for e in cfg.succ[b]:
            for f in ctx.edge_facts(e):
                if (f[0] == "variant" and f[2] == "Ok") or (f[0] == "variant" and f[2] == "Some" and _is_ok_adapter(f[1])):
                    x = through_result_adapters(f[1])
                    if isinstance(x, tuple) and x[0] == "call" and acq_op_at.get(x[3], (None,))[0] == "cas":
                        pairs.add((e.src, e.dst))
                        descr.append(f"Ok edge of CAS@bb{x[3]} (bb{e.src}->bb{e.dst})")
                if f[0] == "cmp" and f[1] == "Eq":
                    for x, y in ((f[2], f[3]), (f[3], f[2])):
                        x = strip_casts(x)
                        if isinstance(x, tuple) and x[0] == "call" and acq_op_at.get(x[3], (None,))[0] == "swap0" and const_value(y) == 0:
                            pairs.add((e.src, e.dst))
                            descr.append(f"swap@bb{x[3]} returned 0 (bb{e.src}->bb{e.dst})")
    return pairs, descr


def returns_only_via(ctx, pairs):
    """True when no Return is reachable from entry once the given edges are removed."""
    r = ctx.cfg.reachable_from(0, avoid_edges=pairs)
    bad = [b for b in ctx.cfg.return_blocks() if b in r]
    if not bad:
        return True, None
    path = ctx.cfg.find_path(0, lambda b: b in bad)
    return False, path


def reaches_any(prog, root, names):
    cg = prog.callgraph()
    chain = cg.path(root, lambda f: any(f == n or f.startswith(n) for n in names))
    return chain


def order_ok_acquire(op):
    return is_acquire(op.success_order)


def order_ok_release(op):
    return is_release(op.success_order)
