"""C13 — spawn returns only in the caller; the child runs exactly what was configured, or the caller gets Err."""
from ..engine.prov import const_value, strip_casts, walk, walk_deep, show
from ..engine.dtable import canon
from ..engine.fold import fold, fold_ip
from ..engine.cfg import span_str
from ..engine import panics
from ..engine.variants import reachable_returns
from .c12 import child_region, mentions
from .threads import fold_flags

CONFIGS_QUICK = ["A", "B", "C"]
CONFIGS_THOROUGH = ["A", "B", "C", "R", "X"]

EXPLANATION = (
    "Decided (static, MIR): C13.1 from the `fork() == 0` edge of do_spawn no `return` is reachable - every child path ends in exit (after reporting) or exec; "
    "C13.2 the child's steps run in the order stdio dup2 -> cwd -> uid -> gid -> pgroup -> pre-exec closures -> execve, each on its configured value and whenever that value is configured (no path from the option's Some edge goes round the step), a failing pre-exec hook ends the preparation, every descriptor the spawn machinery creates (pipes, /dev/null) is O_CLOEXEC, and execve receives bin/argv/envp unchanged; "
    "C13.3 the error channel agrees end to end: the child writes errno.to_be_bytes() ++ FOOTER to the write end, the parent's 8-byte arm decodes with from_be_bytes and compares the same FOOTER constant, "
    "the pipe is O_CLOEXEC so EOF means exec succeeded, and execve's error always carries a code (C09.3: positive); "
    "C13.4 the parent closes the write end before its first read (else a successful exec never produces EOF) and retries the read only on EINTR; "
    "C13.5 every Command builder method that touches argv/envp leaves the vector NULL-terminated with the new pointer in the slot that held the terminator; "
    "C13.6 Command::spawn/exec hand each configured attribute to the child as the builder's own field read in place and modify no builder field (a Command can be spawned again), and Command::env records the variable on every feasible path (enum-variant refinement of self.env), in both feature sets; "
    "C13.7 Child::wait/try_wait wait on the child's own pid, WNOHANG only in try_wait, and return the cached status afterwards. "
    "C13.2 also: every kernel call on the child's side is a configured step, the status report or exit (nothing else touches what the new program inherits). "
    "C13.2 also: the result of every configured child step is propagated (a failing dup2/chdir/setuid/setgid/setpgid is reported, never skipped). "
    "C13.7 also: Child::wait closes the handle's stdin before it waits (a child reading to EOF would otherwise never finish). C13.2 also: every wrapper the forked child uses asks the kernel once (no retry loop; dup's EBUSY retry is C09.5's documented exception). NOT decided: what the exec'd program observes (kernel), process-tree observation, uid/gid semantics.")
ASSUMPTIONS = ["fork returns 0 exactly in the child", "a diverging call (-> !) never returns"]

DO_SPAWN = "tiny_std::process::do_spawn"
CMD = "tiny_std::process::Command::<'a>::"
STEP_ORDER = ["rusl::unistd::dup::dup2", "rusl::unistd::chdir::chdir", "rusl::unistd::setuid::setuid", "rusl::unistd::setgid::setgid", "rusl::unistd::setpgid::setpgid",
              "tiny_std::process::PreExec::run", "rusl::process::execve::execve"]


def run(ck, progs, tier):
    for cfgname, prog in progs.items():
        ck.set_config(prog)
        run_one(ck, prog)


def callee_in(t, name):
    return t.get("callee") == name or t.get("resolved") == name


def run_one(ck, prog):
    f = prog.fns.get(DO_SPAWN)
    if not ck.anchor("C13.1", "do_spawn", f):
        return
    ctx = prog.ctx(f)
    cfg = ctx.cfg
    forks = [bb for bb, t in cfg.calls(lambda t: (t.get("callee") or "").endswith("::fork") or "clone" in (t.get("callee") or "").split("::")[-1])]
    ck.ob("C13.1", "anchor|one fork site", len(forks) == 1, fn=DO_SPAWN, detail=f"fork/clone call sites in do_spawn: {len(forks)}")
    region = child_region(prog, ctx)
    ck.ob("C13.1", "anchor|child branch", bool(region), fn=DO_SPAWN, detail="no `pid == 0` branch on the fork result found")
    if not region:
        return
    # entry edge of the region
    rets = [rb for rb in cfg.return_blocks() if rb in region]
    # returns reachable FROM the region (a return block itself may be shared and thus not dominated)
    reach = set()
    for b in region:
        reach |= cfg.reachable_from(b)
    bad_rets = [rb for rb in cfg.return_blocks() if rb in reach]
    if bad_rets:
        # name each offending edge: Break/Err edges inside the region from which a return is reachable
        named = 0
        cnt = {}
        for sb in sorted(region):
            if cfg.term(sb)["k"] != "switch":
                continue
            for e in cfg.succ[sb]:
                for fct in ctx.edge_facts(e):
                    if fct[0] == "variant" and fct[2] in ("Break", "Err"):
                        r = cfg.reachable_from(e.dst)
                        if any(rb in r for rb in cfg.return_blocks()):
                            from .c12 import failing_callee
                            who = failing_callee(fct[1])
                            i = cnt.get(who, 0)
                            cnt[who] = i + 1
                            named += 1
                            ck.ob("C13.1", f"child-returns|{who}#{i}", False, fn=DO_SPAWN, site=ctx.site(sb),
                                  detail=f"in the forked child, a failure of `{who}` returns Err to the caller: a second copy of the calling program keeps running (with its heap, locks and descriptors)")
        if not named:
            ck.ob("C13.1", "child-returns|other", False, fn=DO_SPAWN, detail="a `return` is reachable from the child branch")
    else:
        ck.ob("C13.1", "child-never-returns", True, fn=DO_SPAWN, detail="no return reachable from the child branch")
    # every child path ends in a diverging call (exit) -- blocks with no successors in region must be diverging calls
    ends = [b for b in region if not cfg.succ[b] and cfg.term(b)["k"] not in ("return",)]
    okends = all(cfg.term(b)["k"] == "call" and (cfg.term(b).get("diverges") or cfg.term(b).get("t") is None) or cfg.term(b)["k"] == "unreachable" for b in ends)
    ck.ob("C13.1", "child-ends-in-exit", bool(ends) and okends, fn=DO_SPAWN, detail="the child branch must end in exit()/exec on every path")

    # ---- C13.2 order and arguments -----------------------------------------------------------------------------
    # The child's steps may sit in do_spawn's child branch or in a private helper called from it (inlining bound 1):
    # sites = [(ctx, bb, pos)] where pos orders do_spawn-level events (helper call position / own block).
    cg = prog.callgraph()
    helpers = []
    for bb, t in cfg.calls():
        c = t.get("callee")
        if bb in region and c in prog.fns and c.startswith("tiny_std::process::") and prog.fns[c].get("vis", "").startswith("Restricted") and c != DO_SPAWN:
            if any(any(callee_in(t2, nm) for nm in STEP_ORDER) for _, t2 in prog.ctx(c).cfg.calls()):
                helpers.append((bb, c))
    # a helper that performs child steps must only be called from the child branch of do_spawn (it must not run in the parent)
    for hb, h in helpers:
        callers = cg.callers.get(h, set())
        ck.ob("C13.2", f"helper-only-in-child|{h}", callers == {DO_SPAWN} and all(b in region for b, _ in cfg.calls(lambda t: t.get("callee") == h)), fn=h,
              detail=f"{h} performs the child's pre-exec steps and must be called only from the forked child's branch; callers {sorted(callers)}")
        # its Err must not become a return of do_spawn: covered by C13.1 (no return reachable from the child branch)
    steps = {}   # name -> [(ctx, bb, outer_bb)]
    for name in STEP_ORDER:
        lst = [(ctx, bb, bb) for bb, t in cfg.calls(lambda t: callee_in(t, name)) if bb in region]
        for hb, h in helpers:
            hctx = prog.ctx(h)
            lst += [(hctx, bb, hb) for bb, t in hctx.cfg.calls(lambda t: callee_in(t, name))]
        steps[name] = lst
    ck.floor("C13.2", "child-side steps", sum(len(v) for v in steps.values()), 9)

    # the child does what was configured and nothing else: every call that reaches the kernel from the child's branch (or its helpers) is one
    # of the configured steps, the status report (write) or exit. An extra step - closing "the originals" after dup2, say - changes what the
    # new program inherits (Stdio::RawFd(1) for stderr: the close takes the child's stdout away)
    from ..engine.cfg import is_raw_syscall
    from .futexflavour import nr_name
    ALLOWED_EXTRA = ("rusl::unistd::write::write", "rusl::process::exit::exit")

    def kernel_step(c):
        return c is not None and c.startswith("rusl::") and c in prog.fns and any(is_raw_syscall(x) for x in cg.reach([c]))
    extra = []
    n_kernel = 0
    for c2, blocks in [(ctx, region)] + [(prog.ctx(h), None) for _, h in helpers]:
        for bb, t in c2.cfg.calls():
            if blocks is not None and bb not in blocks:
                continue
            c = t.get("resolved") or t.get("callee")
            if kernel_step(c):
                n_kernel += 1
                if c not in STEP_ORDER and c not in ALLOWED_EXTRA:
                    extra.append((c2, bb, c))
    ck.floor("C13.2", "kernel calls on the child's side", n_kernel, 9)
    # each of these wrappers asks the kernel once: a wrapper that goes round again on some error (ETXTBSY from execve, say) keeps the
    # forked child spinning in the caller's program instead of reporting the error - spawn then never returns
    looping = []
    wrappers = set()
    for c2, blocks in [(ctx, region)] + [(prog.ctx(h), None) for _, h in helpers]:
        for bb, t in c2.cfg.calls():
            c = t.get("resolved") or t.get("callee")
            if (blocks is None or bb in blocks) and kernel_step(c):
                wrappers.add(c)
    for w in sorted(wrappers):
        for f in sorted(x for x in cg.reach([w]) if x in prog.fns and x.startswith("rusl::")):
            cw = prog.ctx(prog.fns[f])
            for bb, t in cw.cfg.calls(lambda t: is_raw_syscall(t.get("callee"))):
                a0 = cw.args(bb)
                if cw.cfg.in_cycle(bb) and not (a0 and nr_name(a0[0]) in ("DUP2", "DUP3")):     # dup's EBUSY retry is the documented exception, checked by C09.5
                    looping.append((w, f, cw.site(bb)))
    ck.floor("C13.2", "child-side wrappers", len(wrappers), 6)
    ck.ob("C13.2", "child-step-asks-the-kernel-once", not looping, fn=looping[0][1] if looping else DO_SPAWN, site=looping[0][2] if looping else None,
          detail=f"`{looping[0][0]}` (used by the forked child) repeats its system call in a loop: while the condition lasts the child neither execs nor reports, and spawn blocks on the status pipe" if looping else f"{len(wrappers)} wrappers")
    for c2, bb, c in extra:
        ck.ob("C13.2", f"child-does-only-what-was-configured|{c.split('::')[-1]}", False, fn=c2.path, site=c2.site(bb),
              detail=f"the forked child calls `{c}`, which is neither a configured step (dup2, chdir, setuid, setgid, setpgid, hooks, execve) nor the status report / exit")
    ck.ob("C13.2", "child-does-only-what-was-configured", not extra, fn=DO_SPAWN, detail=f"{n_kernel} kernel calls on the child's side checked against the configured steps")

    def may_follow(x, y):
        """step site y can execute after step site x."""
        (cx, bx, ox), (cy, by, oy) = x, y
        if cx is cy:
            return by in cx.cfg.reachable_from(bx) and not (bx == by and not cx.cfg.in_cycle(bx)) and bx != by or (bx == by and cx.cfg.in_cycle(bx))
        nxt = cfg.term(ox).get("t")
        return nxt is not None and oy in cfg.reachable_from(nxt)
    for i, a in enumerate(STEP_ORDER):
        for b in STEP_ORDER[i + 1:]:
            bad = [(x, y) for x in steps[b] for y in steps[a] if may_follow(x, y)]
            ck.ob("C13.2", f"order|{a.split('::')[-1]}<{b.split('::')[-1]}", not bad, fn=DO_SPAWN,
                  detail=f"`{a.split('::')[-1]}` can execute after `{b.split('::')[-1]}` in the child")
    ck.ob("C13.2", "exec-is-last", len(steps[STEP_ORDER[-1]]) == 1, fn=DO_SPAWN, detail=f"execve call sites in the child: {len(steps[STEP_ORDER[-1]])}")
    want = {"rusl::unistd::chdir::chdir": [(0, "cwd")], "rusl::unistd::setuid::setuid": [(0, "uid")], "rusl::unistd::setgid::setgid": [(0, "gid")],
            "rusl::unistd::setpgid::setpgid": [(1, "pgroup")], "rusl::process::execve::execve": [(0, "bin"), (1, "argv"), (2, "envp")]}

    def from_param(c2, e, pname, outer_bb):
        """e derives only from c2's parameter `pname`; if c2 is a helper, the matching call argument in do_spawn derives from do_spawn's `pname`."""
        ps = [x for x in walk_deep(e, c2.prov) if x[0] == "param"]
        if not ps or {x[2] for x in ps} != {pname}:
            return False
        if c2 is ctx:
            return True
        idx = ps[0][1] - 1
        oargs = ctx.args(outer_bb)
        if idx >= len(oargs):
            return False
        ops = [x for x in walk_deep(oargs[idx], ctx.prov) if x[0] == "param"]
        return bool(ops) and {x[2] for x in ops} == {pname}

    def from_param_object(c2, e, pname, outer_bb):
        """the configured values travel in a parameter struct: e is `setup.<pname>` (possibly behind a reference) of the helper's struct
        parameter, and the struct built at the call in do_spawn has do_spawn's `pname` in that field"""
        flds = [x for x in walk_deep(e, c2.prov, limit=60) if x[0] == "field" and isinstance(x[2], str) and mentions(x[1], c2.prov, lambda z: z[0] == "param") and
                not mentions(x[1], c2.prov, lambda z: z[0] == "field")]
        if len({x[2] for x in flds}) != 1:
            return False
        fname = flds[0][2]
        if c2 is ctx:
            return fname == pname      # do_spawn itself receives the parameter struct: its field of that name is the configured value
        pidx = [z[1] for z in walk_deep(flds[0][1], c2.prov, limit=20) if z[0] == "param"][0] - 1
        oargs = ctx.args(outer_bb)
        if pidx >= len(oargs):
            return False
        for z in walk_deep(oargs[pidx], ctx.prov, limit=80):
            if z[0] == "agg" and len(z) > 4 and z[4] and fname in z[4]:
                op = z[3][list(z[4]).index(fname)]
                names = {w[2] for w in walk_deep(op, ctx.prov, limit=60) if w[0] == "param"}
                return fname == pname and names == {pname}
        # the struct is handed through unchanged from do_spawn's own parameter
        oa = strip_casts(oargs[pidx])
        return fname == pname and isinstance(oa, tuple) and oa[0] == "param"
    for name, lst in want.items():
        for (c2, bb, ob) in steps[name]:
            args = c2.args(bb)
            for ai, pname in lst:
                ok = ai < len(args) and (from_param(c2, args[ai], pname, ob) or from_param_object(c2, args[ai], pname, ob))
                ck.ob("C13.2", f"arg|{name.split('::')[-1]}#{ai}={pname}", ok, fn=c2.path, site=c2.site(bb),
                      detail=f"`{name.split('::')[-1]}` argument {ai} must be the configured `{pname}`, found {show(args[ai]) if ai < len(args) else None}")
    # a configured attribute is applied WHENEVER it is configured: from the `Some` edge of the option no return is reachable
    # that goes round the step (a value-dependent skip - "0 means nothing to do" - silently drops the configuration)
    for name, lst in want.items():
        if name.endswith("execve"):
            continue
        for (c2, bb, ob) in steps[name]:
            for ai, pname in lst:
                some_edges = []
                for sb in c2.cfg.live_blocks():
                    if c2.cfg.term(sb)["k"] != "switch":
                        continue
                    for e in c2.cfg.succ[sb]:
                        for f in c2.edge_facts(e):
                            if f[0] == "variant" and f[2] == "Some":
                                ps = {x[2] for x in walk_deep(f[1], c2.prov) if x[0] == "param"}
                                if ps == {pname} or from_param_object(c2, f[1], pname, ob):
                                    some_edges.append(e)
                skipped = [e for e in some_edges if any(rb in c2.cfg.reachable_from(e.dst, avoid={bb}) for rb in c2.cfg.return_blocks()) and e.dst != bb]
                ck.ob("C13.2", f"applied-whenever-configured|{pname}", bool(some_edges) and not skipped, fn=c2.path, site=c2.site(bb),
                      detail=f"with `{pname}` configured (Some) the child can finish its preparation without calling {name.split('::')[-1]}: the step must not depend on the configured value")
    targets = []
    for (c2, bb, ob) in steps["rusl::unistd::dup::dup2"]:
        args = c2.args(bb)
        targets.append(fold(args[1]) if len(args) > 1 else None)
        stream = {0: "stdin", 1: "stdout", 2: "stderr"}.get(fold(args[1]))
        src_ok = mentions(args[0], c2.prov, lambda x: x[0] == "call" and (x[1] or "").endswith("ChildStdio::fd") and stream is not None and
                          mentions(x[2][0], c2.prov, lambda y: y[0] == "field" and y[2] == stream))
        ck.ob("C13.2", f"dup2-source|{fold(args[1])}", src_ok, fn=c2.path, site=c2.site(bb), detail=f"dup2 onto descriptor {fold(args[1])} must take the configured child `{stream}` descriptor, found {show(args[0])}")
    ck.ob("C13.2", "dup2-targets", sorted(t for t in targets if t is not None) == [0, 1, 2], fn=DO_SPAWN, detail=f"dup2 targets in the child: {targets}; must be stdin/stdout/stderr once each")
    # dup2 is what clears O_CLOEXEC on the child's stdio descriptors: it must always be the real dup3 call
    d2 = prog.fns.get("rusl::unistd::dup::dup2")
    if ck.anchor("C13.2", "rusl dup2", d2):
        dctx = prog.ctx(d2)
        d3 = [bb for bb, t in dctx.cfg.calls(lambda t: (t.get("callee") or "").endswith("dup::dup3"))]
        ok = len(d3) == 1 and all(dctx.cfg.dominates(d3[0], rb) for rb in dctx.cfg.return_blocks()) and [canon(x) for x in dctx.args(d3[0])[:2]] == ["p1", "p2"] and fold(dctx.args(d3[0])[2]) == 0
        ck.ob("C13.2", "dup2-always-duplicates", ok, fn=d2["path"],
              detail="dup2(old, new) must always go through dup3(old, new, no flags): the child relies on that call to put the configured stream on 0/1/2 WITHOUT O_CLOEXEC; a shortcut (e.g. old == new => Ok) leaves a CLOEXEC descriptor that exec closes")
        d3f = prog.fns.get("rusl::unistd::dup::dup3")
        if d3f is not None:
            from ..engine.cfg import is_raw_syscall
            c3 = prog.ctx(d3f)
            sites = {bb for bb, t in c3.cfg.calls(lambda t: is_raw_syscall(t.get("callee")))}
            oks = [b["id"] for b in d3f["blocks"] if b["id"] in c3.cfg.live_blocks() and any(s["k"] == "assign" and s["dst"]["l"] == 0 and s["rv"]["k"] == "agg" and s["rv"].get("variant") == "Ok" for s in b["stmts"])]
            r = c3.cfg.reachable_from(0, avoid=sites)
            ck.ob("C13.2", "dup3-success-only-after-syscall", bool(oks) and not [b for b in oks if b in r], fn=d3f["path"], detail="dup3 can report success without issuing DUP3")
    # a step that fails is reported, not skipped: the result of every configured step (dup2, chdir, setuid, setgid, setpgid) reaches a `?`
    # (or a match whose Err arm leaves with the error) - `.ok()`, `let _ =` or an Option-returning helper would let the child go on and
    # exec with a stream, directory or identity it was not configured with while spawn reports Ok
    PASS = ("Result::<T, E>::map_err", "Result::<T, E>::map", "convert::Into::into", "convert::From::from")
    for name in STEP_ORDER[:5]:
        for (c2, bb, ob) in steps[name]:
            def is_res(x, depth=0):
                x = strip_casts(x)
                if not isinstance(x, tuple) or not x or depth > 6:
                    return False
                if x[0] == "call" and x[3] == bb:
                    return True
                if x[0] == "call" and (x[1] or "").endswith(PASS) and x[2]:
                    return is_res(x[2][0], depth + 1)
                if x[0] == "ref":
                    return is_res(x[2], depth + 1)
                return False
            propagated = any(is_res(c2.args(b2)[0]) for b2, t2 in c2.cfg.calls(lambda t2: (t2.get("callee") or "").endswith("Try::branch")))
            if not propagated:
                bad_edges = [e for sb in c2.cfg.live_blocks() if c2.cfg.term(sb)["k"] == "switch" for e in c2.cfg.succ[sb] for f in c2.edge_facts(e) if f[0] == "variant" and f[2] == "Err" and is_res(f[1])]
                oks = {b["id"] for b in c2.fn["blocks"] if any(st["k"] == "assign" and st["dst"]["l"] == 0 and not st["dst"].get("p") and st["rv"]["k"] == "agg" and st["rv"].get("variant") == "Ok" for st in b["stmts"])}
                later = {b2 for nm in STEP_ORDER for (c3, b2, o3) in steps[nm] if c3 is c2 and b2 != bb}
                propagated = bool(bad_edges) and not any(c2.cfg.reachable_from(e.dst) & (oks | later) for e in bad_edges)
            ck.ob("C13.2", f"step-failure-is-reported|{name.split('::')[-1]}|{c2.site(bb)}", propagated, fn=c2.path, site=c2.site(bb),
                  detail=f"the result of `{name.split('::')[-1]}` in the child is not propagated: when it fails the child carries on and execs although the configuration was not applied")
    # closures: the loop runs over do_spawn's `closures`
    for (c2, bb, ob) in steps["tiny_std::process::PreExec::run"]:
        ck.ob("C13.2", "closures-run-in-loop", c2.cfg.in_cycle(bb), fn=c2.path, site=c2.site(bb), detail="pre-exec closures must all be run (loop over the slice)")
        # a failing hook stops the preparation and is what gets reported: from the Err edge of its result no further hook runs
        err_edges = [e for sb in c2.cfg.live_blocks() if c2.cfg.term(sb)["k"] == "switch" for e in c2.cfg.succ[sb] for f in c2.edge_facts(e)
                     if f[0] == "variant" and f[2] in ("Err", "Break") and mentions(f[1], c2.prov, lambda z: z[0] == "call" and z[3] == bb)]
        ck.ob("C13.2", "hook-failure-ends-the-preparation", bool(err_edges) and all(bb not in c2.cfg.reachable_from(e.dst) for e in err_edges), fn=c2.path, site=c2.site(bb),
              detail="the result of a pre-exec hook is not tested (or the loop goes on after a failure): a later hook's success overwrites the failure and the program is exec'd although a configured step failed")
    # every descriptor the spawn machinery creates is close-on-exec: the child's stdio is installed with dup2 (which clears the flag on
    # the copy), everything else - both ends of every pipe, /dev/null - must disappear at exec, or the child inherits ends it was not
    # given (a child reading its own piped stdin never sees EOF)
    cloexec_ = prog.const("rusl::platform::compat::fcntl::OpenFlags::O_CLOEXEC")
    n_cr = 0
    for p_, fn_ in sorted(prog.fns.items()):
        if not p_.startswith("tiny_std::process::") or fn_.get("is_test"):
            continue
        cx = None
        for b_ in fn_["blocks"]:
            t_ = b_["term"]
            if t_["k"] != "call" or b_.get("cleanup"):
                continue
            cal = t_.get("callee") or ""
            pos = 0 if cal.endswith("pipe::pipe2") else 1 if cal.endswith(("open::open", "open::open_mode")) else None
            if pos is None:
                continue
            cx = cx or prog.ctx(fn_)
            if b_["id"] not in cx.cfg.live_blocks():
                continue
            n_cr += 1
            a_ = cx.args(b_["id"])
            fl_ = fold_flags(prog, cx, a_[pos]) if pos < len(a_) else None
            ck.ob("C13.2", f"descriptor-created-close-on-exec|{p_.split('process::')[-1]}|{cal.split('::')[-1]}", isinstance(fl_, int) and isinstance(cloexec_, int) and fl_ & cloexec_ == cloexec_, fn=p_, site=cx.site(b_["id"]),
                  detail=f"{cal.split('::')[-1]} in the spawn machinery is called with flags {fl_}: without O_CLOEXEC the exec'd program inherits a descriptor it was not configured with")
    ck.floor("C13.2", "descriptors created by the spawn machinery", n_cr, 2)

    # ---- C13.3 error channel ------------------------------------------------------------------------------------------
    pipes = [bb for bb, t in cfg.calls(lambda t: (t.get("callee") or "").endswith("::pipe2"))]
    ck.ob("C13.3", "anchor|status pipe", len(pipes) == 1, fn=DO_SPAWN, detail=f"pipe2 sites: {len(pipes)}")
    if pipes:
        fl = fold(ctx.args(pipes[0])[0])
        cloexec = prog.const("rusl::platform::compat::fcntl::OpenFlags::O_CLOEXEC")
        ck.ob("C13.3", "pipe-cloexec", fl is not None and cloexec is not None and (fl & cloexec) == cloexec, fn=DO_SPAWN, site=ctx.site(pipes[0]),
              detail=f"the status pipe must be O_CLOEXEC (flags {fl}), otherwise a successful exec never yields EOF")
    writes = [bb for bb, t in cfg.calls(lambda t: (t.get("callee") or "").endswith("unistd::write::write")) if bb in region]
    ck.ob("C13.3", "child-writes-status-once", len(writes) == 1, fn=DO_SPAWN, detail=f"write calls in the child: {len(writes)}")
    arr = None
    if writes:
        args = ctx.args(writes[0])
        ok_fd = mentions(args[0], ctx.prov, lambda x: x[0] == "field" and x[2] == "out_pipe")
        ck.ob("C13.3", "child-writes-to-write-end", ok_fd, fn=DO_SPAWN, site=ctx.site(writes[0]), detail=f"the child reports on {show(args[0])}; must be the status pipe's write end")
        buf = args[1]
        uses_be = mentions(buf, ctx.prov, lambda x: x[0] == "call" and (x[1] or "").endswith("::to_be_bytes"))
        from_exec = mentions(buf, ctx.prov, lambda x: x[0] == "call" and (x[1] or "").endswith("execve::execve"))
        footers = [x for x in walk_deep(buf, ctx.prov) if x[0] == "const" and x[2] and x[2].endswith("CLOEXEC_MSG_FOOTER")]
        # layout of the 8 status bytes, from either spelling: an array literal [code[0], .., FOOTER[3]], or a buffer filled by
        # `bytes[a..b].copy_from_slice(src)` pieces.  layout[i] = ("code", k) | ("footer", k, byte value)
        def range_of(e, n):
            for z in walk_deep(e, ctx.prov):
                if z[0] == "agg" and str(z[1]).startswith("core::ops::range::") and z[2] in ("RangeTo", "RangeFrom", "Range", "RangeFull", "RangeToInclusive", "RangeInclusive"):
                    v = [const_value(x) for x in z[3]]
                    if None in v:
                        return None
                    return {"RangeTo": lambda: (0, v[0]), "RangeFrom": lambda: (v[0], n), "Range": lambda: (v[0], v[1]), "RangeFull": lambda: (0, n),
                            "RangeToInclusive": lambda: (0, v[0] + 1), "RangeInclusive": lambda: (v[0], v[1] + 1)}[z[2]]()
            return None

        def source_kind(e):
            if mentions(e, ctx.prov, lambda x: x[0] == "call" and (x[1] or "").endswith("::to_be_bytes")):
                return ("code", None)
            for y in walk_deep(e, ctx.prov):
                if y[0] == "const" and y[2] and y[2].endswith("CLOEXEC_MSG_FOOTER") and len(y) > 4:
                    return ("footer", list(y[4]))
            return (None, None)
        layout = [None] * 8
        for x in walk_deep(buf, ctx.prov):
            if x[0] == "agg" and x[1] == "array" and len(x[3]) == 8:
                arr = x
        if arr is not None:
            for i, el in enumerate(arr[3]):
                e2 = strip_casts(el)
                k = const_value(e2[2]) if isinstance(e2, tuple) and e2[0] == "index" else e2[2] if isinstance(e2, tuple) and e2[0] == "cindex" else None
                kind, val = source_kind(el)
                if kind == "code" and k is not None:
                    layout[i] = ("code", k)
                elif kind == "footer" and k is not None and k < len(val):
                    layout[i] = ("footer", k, val[k])
        else:
            places = [x for x in walk_deep(buf, ctx.prov) if x[0] == "place" and str(x[3]).replace(" ", "") == "[u8;8]"]
            if len(places) == 1:
                arr = places[0]
                for cb, t in cfg.calls(lambda t: (t.get("callee") or "").endswith("copy_from_slice")):
                    if cb not in region or not cfg.dominates(cb, writes[0]):
                        continue
                    a = ctx.args(cb)
                    im = [z for z in walk_deep(a[0], ctx.prov) if z[0] == "call" and (z[1] or "").endswith("IndexMut::index_mut")]
                    rg = None
                    if not im:
                        # the two halves of `msg.split_at_mut(k)`: (.0 = msg[..k], .1 = msg[k..])
                        for z in walk_deep(a[0], ctx.prov, limit=60):
                            if z[0] == "field" and isinstance(z[1], tuple) and z[1][0] == "call" and (z[1][1] or "").endswith("::split_at_mut") and len(z[1][2]) == 2 and \
                                    mentions(z[1][2][0], ctx.prov, lambda w: w[0] == "place" and w[1] == arr[1]) and const_value(z[1][2][1]) is not None and str(z[2]) in ("0", "1"):
                                k_ = const_value(z[1][2][1])
                                rg = (0, k_) if str(z[2]) == "0" else (k_, 8)
                                break
                        if rg is None:
                            continue
                    elif len(im) != 1 or not mentions(im[0][2][0], ctx.prov, lambda z: z[0] == "place" and z[1] == arr[1]):
                        continue
                    else:
                        rg = range_of(im[0][2][1], 8)
                    kind, val = source_kind(a[1])
                    if rg is None or kind is None or rg[1] - rg[0] != 4:
                        continue
                    for k, i in enumerate(range(rg[0], rg[1])):
                        if 0 <= i < 8:
                            layout[i] = ("code", k) if kind == "code" else ("footer", k, val[k] if k < len(val) else None)
        pieces = [a2 for cb2, t2 in cfg.calls(lambda t2: (t2.get("callee") or "").endswith("copy_from_slice")) if cb2 in region and cfg.dominates(cb2, writes[0]) for a2 in ctx.args(cb2)[1:]]
        uses_be = uses_be or (any(x is not None and x[0] == "code" for x in layout) and any(mentions(a2, ctx.prov, lambda x: x[0] == "call" and (x[1] or "").endswith("::to_be_bytes")) for a2 in pieces))
        from_exec = from_exec or any(mentions(a2, ctx.prov, lambda x: x[0] == "call" and (x[1] or "").endswith("execve::execve")) for a2 in pieces)
        ck.ob("C13.3", "child-encodes-errno-be", uses_be and from_exec and any(x is not None and x[0] == "code" for x in layout), fn=DO_SPAWN, site=ctx.site(writes[0]),
              detail="the 8 status bytes must start with the exec error's errno.to_be_bytes()")
        ck.ob("C13.3", "child-appends-footer", any(x is not None and x[0] == "footer" for x in layout), fn=DO_SPAWN, site=ctx.site(writes[0]), detail="the status bytes must end with CLOEXEC_MSG_FOOTER")
        ck.ob("C13.3", "status-is-8-bytes", arr is not None, fn=DO_SPAWN, detail="the status message must be an 8-byte array")
        if arr is not None:
            idx_ok = all(layout[i] is not None and layout[i][0] == ("code" if i < 4 else "footer") and layout[i][1] == i % 4 for i in range(8))
            ck.ob("C13.3", "status-layout", idx_ok, fn=DO_SPAWN, site=ctx.site(writes[0]), detail=f"status bytes must be code[0..4] followed by FOOTER[0..4] in order; found {layout}")
    # parent side
    reads = [bb for bb, t in cfg.calls(lambda t: (t.get("callee") or "").endswith("unistd::read::read")) if bb not in region]
    ck.ob("C13.3", "parent-reads-status", len(reads) == 1, fn=DO_SPAWN, detail=f"read calls in the parent: {len(reads)}")
    if reads:
        args = ctx.args(reads[0])
        ck.ob("C13.3", "parent-reads-read-end", mentions(args[0], ctx.prov, lambda x: x[0] == "field" and x[2] == "in_pipe"), fn=DO_SPAWN, site=ctx.site(reads[0]),
              detail=f"the parent reads {show(args[0])}; must be the status pipe's read end")
        be = [bb for bb, t in cfg.calls(lambda t: (t.get("callee") or "").endswith("::from_be_bytes")) if bb not in region]
        ck.ob("C13.3", "parent-decodes-errno-be", len(be) == 1, fn=DO_SPAWN, detail="the parent must decode the errno with from_be_bytes (the child encodes with to_be_bytes)")
        # which bytes the parent decodes and which it validates, from either spelling (split_at(4) halves, or bytes[0..4] elements
        # and &bytes[4..])
        rbuf = [x for x in walk_deep(args[1], ctx.prov) if x[0] == "place" and str(x[3]).replace(" ", "") == "[u8;8]"]

        def byte_range(e):
            """the range of the read buffer an expression views"""
            for z in walk_deep(e, ctx.prov):
                if z[0] == "call" and (z[1] or "").endswith("::split_at") and const_value(z[2][1]) is not None:
                    return ("split", const_value(z[2][1]))
                if z[0] == "call" and (z[1] or "").endswith("Index::index") and rbuf and mentions(z[2][0], ctx.prov, lambda w: w[0] == "place" and w[1] == rbuf[0][1]):
                    return range_of(z[2][1], 8)
                # a slice pattern's rest binding: `let [a, b, c, d, footer @ ..] = bytes`
                if z[0] == "subslice" and rbuf and mentions(z[1], ctx.prov, lambda w: w[0] == "place" and w[1] == rbuf[0][1]):
                    return (z[2], 8 - z[3] if z[4] else z[3])
            ee = strip_casts(e)
            if isinstance(ee, tuple) and ee[0] == "agg" and ee[1] == "array":
                idx = []
                for el in ee[3]:
                    e3 = strip_casts(el)
                    if isinstance(e3, tuple) and e3[0] in ("index", "cindex") and rbuf and mentions(e3[1], ctx.prov, lambda w: w[0] == "place" and w[1] == rbuf[0][1]):
                        idx.append(const_value(e3[2]) if e3[0] == "index" else e3[2])
                    else:
                        return None
                if idx and idx == list(range(idx[0], idx[0] + len(idx))):
                    return (idx[0], idx[0] + len(idx))
            return None
        dec = byte_range(ctx.args(be[0])[0]) if len(be) == 1 else None
        child_footer = [x[2] if x is not None and x[0] == "footer" else None for x in layout[4:]] if writes and arr is not None else None
        parent_footer, cmp_range = None, None
        for bb, t in cfg.calls(lambda t: (t.get("callee") or "").endswith(("PartialEq::ne", "PartialEq::eq", "PartialEq>::ne", "PartialEq>::eq"))):
            if bb in region:
                continue
            a = ctx.args(bb)
            consts = [list(y[4][:4]) for x in a for y in walk_deep(x, ctx.prov) if y[0] == "const" and len(y) > 4 and y[4] is not None and len(y[4]) == 4]   # compared by VALUE: the named constant or an equal literal
            rgs = [byte_range(x) for x in a]
            rgs = [r for r in rgs if r is not None]
            if consts and rgs:
                parent_footer, cmp_range = consts[0], rgs[0]
        ok_split = (dec == ("split", 4) and cmp_range == ("split", 4)) or (dec == (0, 4) and cmp_range == (4, 8))
        ck.ob("C13.3", "parent-splits-at-4", ok_split, fn=DO_SPAWN, detail=f"the parent must split the 8 status bytes at 4 (errno | footer); it decodes {dec} and validates {cmp_range}")
        ck.ob("C13.3", "parent-compares-same-footer", child_footer is not None and None not in child_footer and child_footer == parent_footer, fn=DO_SPAWN,
              detail=f"footer bytes written by the child {child_footer} must equal the bytes the parent validates against {parent_footer}")
        # C13.4: write end closed before the first read
        closers = []
        for bb, t in cfg.calls():
            if bb in region:
                continue
            c = t.get("callee") or ""
            if c in ("core::mem::drop", "rusl::unistd::close::close") and t["args"]:
                if mentions(ctx.args(bb)[0], ctx.prov, lambda x: x[0] == "field" and x[2] == "out_pipe"):
                    closers.append(bb)
        for b in cfg.live_blocks():
            t = cfg.term(b)
            if t["k"] == "drop" and b not in region:
                e = ctx.prov.place(t["p"], ctx.term_at(b))
                if mentions(e, ctx.prov, lambda x: x[0] == "field" and x[2] == "out_pipe"):
                    closers.append(b)
        ok = any(cfg.dominates(c, reads[0]) for c in closers)
        ck.ob("C13.4", "write-end-closed-before-read", ok, fn=DO_SPAWN, site=ctx.site(reads[0]),
              detail="the parent must close its copy of the status pipe's write end before reading: otherwise a successful exec never produces EOF and spawn never returns")
        # retry only on EINTR: back edges to the read must pass an EINTR test
        nxt = cfg.term(reads[0]).get("t")
        eintr_edges = set()
        for sb in cfg.live_blocks():
            if cfg.term(sb)["k"] != "switch":
                continue
            for e in cfg.succ[sb]:
                for fct in ctx.edge_facts(e):
                    if fct[0] == "cmp" and fct[1] == "Eq" and any(fold(z) == 4 for z in (fct[2], fct[3])):
                        eintr_edges.add((e.src, e.dst))
                    if fct[0] == "variant" and str(fct[2]) == "EINTR":
                        eintr_edges.add((e.src, e.dst))
                    if fct[0] == "truth" and fct[2] is True and mentions(fct[1], ctx.prov, lambda z: z[0] == "const" and z[2] and "EINTR" in z[2]):
                        eintr_edges.add((e.src, e.dst))
        r = cfg.reachable_from(nxt, avoid_edges=eintr_edges) if nxt is not None else set()
        ck.ob("C13.4", "read-retry-only-on-eintr", reads[0] not in r and ctx.cfg.in_cycle(reads[0]), fn=DO_SPAWN, site=ctx.site(reads[0]),
              detail="the status read may be repeated only after EINTR (and must be retried then)")
    # execve only returns Err with a code: the `code == None` arm is dead (checked in rusl)
    ex = prog.fns.get("rusl::process::execve::execve")
    if ck.anchor("C13.3", "execve", ex):
        ectx = prog.ctx(ex)
        rets = list(ectx.ret_expr().values())
        ok = bool(rets) and all(mentions(r, ectx.prov, lambda x: x[0] == "call" and (x[1] or "").endswith("Error::with_code")) for r in rets)
        ck.ob("C13.3", "execve-error-carries-code", ok, fn=ex["path"], detail="execve must return Err(Error::with_code(..)) so that the child always has an errno to report")

    # ---- C13.5 / C13.6 builder (alloc configurations) ------------------------------------------------------------------
    if prog.fns.get(CMD + "arg") is not None:
        check_builder(ck, prog)
    else:
        ck.note(f"config {ck.config}: no `alloc` Command builder compiled; C13.5/C13.6 not applicable there")

    # Child::wait gives up its write end of the child's stdin BEFORE it waits: a child that reads to end of input would otherwise never see
    # the end and never exit - the parent holding the only writer while blocked in wait4
    cw = prog.fns.get("tiny_std::process::Child::wait")
    if ck.anchor("C13.7", "Child::wait", cw):
        c7 = prog.ctx(cw)
        waits = [bb for bb, t in c7.cfg.calls(lambda t: (t.get("callee") or "").endswith(("Process::wait", "wait::wait_pid")))]
        closes = [bb for bb, t in c7.cfg.calls(lambda t: (t.get("callee") or "").endswith(("core::mem::drop", "ptr::drop_in_place")))
                  if c7.args(bb) and mentions(c7.args(bb)[0], c7.prov, lambda z: z[0] == "field" and z[2] == "stdin")]
        # `self.stdin = None` drops the old value in place (a drop terminator on the field) - the same close
        closes += [b for b in c7.cfg.live_blocks() if c7.cfg.term(b)["k"] == "drop" and any(pe.get("k") == "field" and pe.get("n") == "stdin" for pe in (c7.cfg.term(b).get("p", {}).get("p") or []))]
        ck.ob("C13.7", "Child::wait|stdin-closed-before-waiting", len(waits) == 1 and bool(closes) and any(c7.cfg.dominates(cb_, waits[0]) and cb_ != waits[0] for cb_ in closes), fn=cw["path"],
              detail=f"the piped stdin must be dropped (taken out of self.stdin) before the wait call; drops of stdin found at blocks {closes}, wait at {waits}")
    # ---- C13.7 wait / try_wait ----------------------------------------------------------------------------------------------
    for nm, flag_ok in (("tiny_std::process::Process::wait", lambda v: v == 0), ("tiny_std::process::Process::try_wait", lambda v: v == 1)):
        fn = prog.fns.get(nm)
        if not ck.anchor("C13.7", nm, fn):
            continue
        c = prog.ctx(fn)
        ws = [bb for bb, t in c.cfg.calls(lambda t: (t.get("callee") or "").endswith("wait::wait_pid"))]
        ck.ob("C13.7", f"{nm}|one-waitpid", len(ws) == 1, fn=nm, detail=f"wait_pid sites: {len(ws)}")
        for bb in ws:
            a = c.args(bb)
            pid_ok = mentions(a[0], c.prov, lambda x: x[0] == "field" and x[2] == "pid")
            fl = fold_ip(prog, a[1]) if len(a) > 1 else None
            ck.ob("C13.7", f"{nm}|pid", pid_ok, fn=nm, site=c.site(bb), detail=f"waits on {show(a[0])}, must be the child's own pid")
            ck.ob("C13.7", f"{nm}|flags", fl is not None and flag_ok(fl), fn=nm, site=c.site(bb), detail=f"wait flags {fl}: WNOHANG(1) exactly in try_wait, none in wait")
            # cached status short-circuit: a return not dominated by the wait exists (status already known)
            cached = [rb for rb in c.cfg.return_blocks() if rb in c.cfg.reachable_from(0, avoid={bb})]
            ck.ob("C13.7", f"{nm}|cached-status", bool(cached), fn=nm, detail="a known exit status must be returned without waiting again (the pid may have been recycled)")
            # the status is remembered only for a child that was actually reaped: after a WNOHANG wait, a store into `status` needs
            # pid != 0 on its path (pid == 0 means "still running"; caching that status makes a later wait() return at once)
            if fl == 1:
                for b in fn["blocks"]:
                    if b["id"] not in c.cfg.live_blocks() or b.get("cleanup") or b["id"] not in c.cfg.reachable_from(c.cfg.term(bb).get("t")):
                        continue
                    for i, st in enumerate(b["stmts"]):
                        if st["k"] == "assign" and st["dst"].get("p") and any(pe["k"] == "field" and pe.get("n") == "status" and (pe.get("adt") or "").endswith("process::Process") for pe in st["dst"]["p"]):
                            facts = panics.dominating_facts(c, b["id"])
                            reaped = any(f[0] == "cmp" and ((f[1] == "Ne" and 0 in (fold(f[2]), fold(f[3]))) or (f[1] in ("Gt",) and fold(f[3]) == 0)) and
                                         any(mentions(x, c.prov, lambda z: z[0] == "field" and z[2] == "pid" and mentions(z[1], c.prov, lambda w: w[0] == "call" and w[3] == bb)) for x in (f[2], f[3])) for f in facts)
                            ck.ob("C13.7", f"{nm}|status-cached-only-when-reaped", reaped, fn=nm, site=span_str(st.get("sp")),
                                  detail="try_wait stores the status of a WNOHANG wait without `pid != 0` on the path: for a child that is still running the kernel reports pid 0 and status 0, and caching that makes every later wait()/try_wait() claim the child exited with 0")


def check_builder(ck, prog):
    NULLP = lambda e: mentions(e, None, lambda x: False)  # noqa: E731
    # C13.6: spawning does not consume the configuration - every configured attribute handed to do_spawn is the builder's own
    # field of that name, read in place (a Command can be spawned again and must then run the same configuration)
    ds = prog.fns.get(DO_SPAWN)
    pnames = {x["arg"]: x["n"] for x in (ds or {}).get("names", []) if x.get("arg")}
    for meth in ("spawn", "exec"):
        fn = prog.fns.get(CMD + meth)
        if fn is None:
            continue
        ctx = prog.ctx(fn)
        for bb, t in ctx.cfg.calls(lambda t: t.get("callee") in (DO_SPAWN, "tiny_std::process::do_exec")):
            callee = prog.fns.get(t["callee"])
            pn = {x["arg"]: x["n"] for x in (callee or {}).get("names", []) if x.get("arg")}
            for ai, a in enumerate(ctx.args(bb)):
                name = pn.get(ai + 1)
                if name not in ("stdin", "stdout", "stderr", "cwd", "uid", "gid", "pgroup"):
                    continue
                x = strip_casts(a)
                for _ in range(3):      # through a local copy (`let stdin = self.stdin;`)
                    if isinstance(x, tuple) and x[0] == "var":
                        defs = list(ctx.prov.expand(x))
                        if len(defs) == 1:
                            x = strip_casts(defs[0])
                            continue
                    break
                direct = isinstance(x, tuple) and x[0] == "field" and x[2] == name and canon(x[1]) == "*p1"
                ck.ob("C13.6", f"{meth}|configuration-read-in-place|{name}", direct, fn=fn["path"], site=ctx.site(bb),
                      detail=f"Command::{meth} hands `{show(a)}` to the child as `{name}`: it must be the builder's own `self.{name}` (copied), not a value taken out of or computed from it - otherwise a second spawn of the same Command runs a different configuration")
        muts = []
        for b in fn["blocks"]:
            if b.get("cleanup") or b["id"] not in ctx.cfg.live_blocks():
                continue
            for st in b["stmts"]:
                if st["k"] == "assign" and st["dst"].get("p") and st["dst"]["l"] == 1 and st["dst"]["p"][0]["k"] == "deref":
                    muts.append(st["dst"]["p"][1].get("n") if len(st["dst"]["p"]) > 1 else "?")
        ck.ob("C13.6", f"{meth}|builder-not-modified", not muts, fn=fn["path"], detail=f"Command::{meth} assigns to builder fields {muts}")
    for meth, vec_field, cnt_field in (("arg", "argv", "args"), ("env", "envp", "vars")):
        fn = prog.fns.get(CMD + meth)
        if not ck.anchor("C13.5", f"Command::{meth}", fn):
            continue
        ctx = prog.ctx(fn)
        cfg = ctx.cfg
        pushes = []
        idx_writes = []
        for bb, t in cfg.calls(lambda t: (t.get("callee") or "").endswith("Vec::<T, A>::push")):
            a = ctx.args(bb)
            tgt = canon(a[0])
            pushes.append((bb, tgt, a[1]))
        # pointer-vector pushes must push null; string-vector pushes push the string
        ptr_push = [(bb, v) for bb, tgt, v in pushes if vec_field in tgt]
        str_push = [(bb, v) for bb, tgt, v in pushes if cnt_field in tgt and vec_field not in tgt]
        ck.ob("C13.5", f"{meth}|pushes-null-terminator", len(ptr_push) == 1 and is_null(ptr_push[0][1], ctx), fn=fn["path"],
              detail=f"Command::{meth} must push exactly one null terminator onto {vec_field}")
        ck.ob("C13.5", f"{meth}|records-string", len(str_push) == 1, fn=fn["path"], detail=f"Command::{meth} must push the string onto {cnt_field}")
        # the overwritten slot index is len() of the string vector, written before the pushes
        idx = [bb for bb, t in cfg.calls(lambda t: (t.get("callee") or "").endswith("IndexMut::index_mut"))]
        ok_idx = False
        for bb in idx:
            a = ctx.args(bb)
            if vec_field in canon(a[0]) and mentions(a[1], ctx.prov, lambda x: x[0] == "call" and (x[1] or "").endswith("::len") and cnt_field in canon(x[2][0])):
                if ptr_push and str_push and bb not in cfg.reachable_from(cfg.term(str_push[0][0]).get("t")) and bb not in cfg.reachable_from(cfg.term(ptr_push[0][0]).get("t")):
                    ok_idx = True
        ck.ob("C13.5", f"{meth}|slot-index-is-count", ok_idx, fn=fn["path"],
              detail=f"the pointer must be stored at index {cnt_field}.len() (the old terminator's slot) before either vector grows")
        if ptr_push and str_push:
            ck.ob("C13.5", f"{meth}|terminator-on-every-path-that-records", all(cfg.dominates(ptr_push[0][0], str_push[0][0]) or cfg.dominates(str_push[0][0], ptr_push[0][0]) for _ in [0]),
                  fn=fn["path"], detail="recording the string and re-terminating the pointer vector must happen together")
    # Command::new starts with [bin, null]
    fn = prog.fns.get(CMD + "new")
    if ck.anchor("C13.5", "Command::new", fn):
        ctx = prog.ctx(fn)
        arrays = []
        for b in fn["blocks"]:
            for i, s in enumerate(b["stmts"]):
                if s["k"] == "assign" and s["rv"]["k"] == "agg" and s["rv"].get("ak") == "array" and s["rv"].get("ty", "").startswith("*const u8") and len(s["rv"]["ops"]) == 2:
                    arrays.append([ctx.prov.operand(o, (b["id"], i)) for o in s["rv"]["ops"]])
        ok = any(mentions(a[0], ctx.prov, lambda x: x[0] == "call" and (x[1] or "").endswith("::as_ptr")) and is_null(a[1], ctx) for a in arrays)
        ck.ob("C13.5", "new|argv=[bin,null]", ok, fn=fn["path"], detail="Command::new must start argv as [bin.as_ptr(), null]")

    # ---- C13.6 env recorded on every feasible path -------------------------------------------------------------------------
    fn = prog.fns.get(CMD + "env")
    ctx = prog.ctx(fn)
    cfg = ctx.cfg
    env_adt = prog.adts.get("tiny_std::process::Environment")
    if not ck.anchor("C13.6", "Environment enum", env_adt):
        return
    variants = [v["name"] for v in env_adt["variants"]]
    rec = [bb for bb, t in cfg.calls(lambda t: (t.get("callee") or "").endswith("Vec::<T, A>::push")) if "vars" in canon(ctx.args(bb)[0]) and "envp" not in canon(ctx.args(bb)[0])]
    ck.ob("C13.6", "anchor|records", len(rec) == 1, fn=fn["path"], detail="Command::env must have one site recording the variable")
    if rec:
        # initial value of self.env: whatever a previous call/`new` left: all variants possible
        bad = reachable_returns(ctx, prog, (1, ("env",)), variants, avoid_blocks=set(rec))
        ck.ob("C13.6", "env-recorded-on-every-path", not bad, fn=fn["path"], site=ctx.site(rec[0]),
              detail=f"Command::env can return without recording the variable for some initial state of self.env (variants {variants}): the variable is silently dropped")
    # default environment of `new`
    ck.extra.setdefault("environment_variants", {})[ck.config] = variants


def is_null(e, ctx):
    e = strip_casts(e)
    if isinstance(e, tuple) and e[0] == "call" and (e[1] or "") in ("core::ptr::null", "core::ptr::null_mut"):
        return True
    if isinstance(e, tuple) and e[0] == "const" and e[1] == 0:
        return True
    return False
