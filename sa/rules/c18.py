"""C18 — io_uring: teardown mirrors set-up; SQE constructors are well-formed; enter/register pass arguments through."""
import os
import re

from ..engine.prov import const_value, strip_casts, walk, walk_deep, show
from ..engine.dtable import canon
from ..engine.fold import fold
from ..engine.cfg import is_raw_syscall, span_str
from ..engine import panics
from .c12 import mentions

CONFIGS_QUICK = ["A", "B"]
CONFIGS_THOROUGH = ["A", "B", "C", "R", "X"]

EXPLANATION = (
    "Decided (static, MIR): C18.1 teardown mirrors set-up: set-up maps the completion ring only when IORING_FEAT_SINGLE_MMAP is absent and otherwise aliases the submission ring pointer, "
    "so in Drop for IoUring the munmap whose address derives from completion_queue.ring_ptr must be control-dependent on a comparison of the two ring pointers (or the feature bit) - an unconditional third munmap releases the same range twice; "
    "C18.2 sizes agree: the two ring unmaps use the ring_size fields that set-up stored from the very sizes it mapped, the SQE array is unmapped with ring_entries * sqe_size where sqe_size uses the same SQE128 test as set-up, and close(fd) happens once, after the unmaps; "
    "C18.3 set-up failure edges release what was acquired: the ring descriptor and each mapping made so far are disposed of exactly once on every exit of setup_io_uring (the C12.1/C12.2 typestate analysis, run here on that function); "
    "C18.4 every SQE constructor is well-formed (sibling agreement over all new_* functions): opcode is the IoUringOp variant the name says, user_data and flags come from the parameters of those names, fd from the descriptor/dir-fd parameter (AT_FDCWD for None), each field is fed from the argument the kernel's prep function reads there (reviewed table c18_abi.json), every parameter reaches the entry and no field carries the caller's argument on some paths and a constant on others; "
    "C18.5 io_uring_enter / io_uring_register_* pass the ring descriptor and their arguments through to the system call and classify the result (C09). "
    "C18.6 a submission slot is handed out only while (tail + 1) - kernel_head <= ring_entries with the head the kernel publishes on every path, so no queued operation is overwritten before it was consumed, flush leaves the tail unpublished only when head == tail, and the completion read is entries + ((kernel_head & mask) << shift); "
    "C18.4 also: every io_uring flag constant has the value of the kernel header (frozen table c18_flags.json) and no two names of one flag type share a bit. "
    "C18.2 also: with IORING_FEAT_SINGLE_MMAP the shared mapping is as long as the longer ring, and the ring descriptor is closed exactly once on every way out of Drop. "
    "C18.4 also: every constructor argument reaches its entry field unmodified (no masking of a mode, no substituted clock) and the integer constants a constructor writes are the reviewed ones (c18_consts.json). C18.6 also: the private tail moves only together with a slot being handed out, and the kernel's ring flags word is tested with that ring's own bits (IORING_SQ_* / IORING_CQ_*). NOT decided: that results equal the direct system call's, one completion per submission (kernel behaviour).")
ASSUMPTIONS = ["params.sq_entries == ring_entries read from the mapped ring (the kernel's two reports of one number)", "IORING_FEAT_SINGLE_MMAP semantics"]

Q = "rusl::platform::compat::io_uring::"
MUNMAP = "rusl::unistd::mmap::munmap"
MMAP = "rusl::unistd::mmap::mmap"
CLOSE = "rusl::unistd::close::close"


def run(ck, progs, tier):
    from .c17 import check_slot_capacity, check_cqe_index, check_flush_publishes, check_completion_head
    for cfgname, prog in progs.items():
        ck.set_config(prog)
        run_one(ck, prog)
        # C18.6 an entry the kernel has not consumed yet is never handed out again (its operation would be lost: no completion)
        check_slot_capacity(ck, prog, "C18.6")
        check_cqe_index(ck, prog, "C18.6")
        check_completion_head(ck, prog, "C18.6")
        check_flush_publishes(ck, prog, "C18.6")
        check_ring_flag_tests(ck, prog, "C18.6")


def check_ring_flag_tests(ck, prog, rule):
    """the flags word the kernel keeps in a ring is tested with that ring's own bits (IORING_SQ_* for the submission ring,
    IORING_CQ_* for the completion ring): IORING_ENTER_SQ_WAKEUP (2, an io_uring_enter argument) is not IORING_SQ_NEED_WAKEUP (1) -
    with the wrong bit needs_wakeup() stays false on an idle SQPOLL ring, nobody wakes the poller and the queued operations never complete."""
    n, bad = 0, []
    for p, fn in prog.fns.items():
        if fn["crate"] != "rusl" or fn.get("is_test"):
            continue
        c = None
        for b in fn["blocks"]:
            if b.get("cleanup"):
                continue
            for i, st in enumerate(b["stmts"]):
                if st["k"] == "assign" and st["rv"]["k"] == "binop" and st["rv"].get("op") == "BitAnd":
                    c = c or prog.ctx(fn)
                    if b["id"] not in c.cfg.live_blocks():
                        continue
                    e = c.prov.rvalue(st["rv"], (b["id"], i))
                    sides = [e[2], e[3]] if isinstance(e, tuple) and e[0] == "bin" and len(e) > 3 else []
                    word = [x for x in sides if mentions(x, c.prov, lambda z: z[0] == "field" and z[2] == "kernel_flags")]
                    if not word:
                        continue
                    n += 1
                    ring = "SQ" if mentions(word[0], c.prov, lambda z: z[0] == "field" and z[2] == "submission_queue") else "CQ"
                    other = [x for x in sides if x is not word[0]]
                    consts = [z for x in other for z in walk_deep(x, c.prov, limit=30) if z[0] == "const" and z[2]]
                    names = [z[2] for z in consts]
                    # the uapi names of the ring's own bits; a local alias (`const NEED_WAKEUP: u32 = IORING_SQ_NEED_WAKEUP as u32`) is
                    # accepted under the rest of that name with that value
                    OWN = {"SQ": {"NEED_WAKEUP": 1, "CQ_OVERFLOW": 2, "TASKRUN": 4}, "CQ": {"EVENTFD_DISABLED": 1}}[ring]
                    def own(z):
                        last = str(z[2]).split("::")[-1]
                        return last.startswith(f"IORING_{ring}_") or OWN.get(last.replace(f"{ring}_", "", 1) if last.startswith(f"{ring}_") else last) == z[1]
                    if not consts or not all(own(z) for z in consts):
                        bad.append((p, c.site(b["id"]), names))
    ck.floor(rule, "tests of a ring's kernel flags word", n, 1)
    ck.ob(rule, "ring-flags-tested-with-the-rings-own-bits", not bad, fn=bad[0][0] if bad else None, site=bad[0][1] if bad else None,
          detail=f"the kernel's ring flags word is masked with {bad[0][2] if bad else ''}: a bit of another flag namespace (enter / setup flags) means something else in this word")


def run_one(ck, prog):
    d = prog.fns.get(f"<{Q}IoUring as core::ops::drop::Drop>::drop")
    su = prog.fns.get("rusl::io_uring::setup_io_uring")
    if not ck.anchor("C18.1", "Drop for IoUring", d) or not ck.anchor("C18.1", "setup_io_uring", su):
        return
    dc, sc = prog.ctx(d), prog.ctx(su)
    # ---- set-up side: which mappings are conditional --------------------------------------------------------------
    maps = [(bb, sc.args(bb)) for bb, t in sc.cfg.calls(lambda t: t.get("callee") == MMAP)]
    ck.ob("C18.1", "setup|three-mmaps", len(maps) == 3, fn=su["path"], detail=f"mmap sites in set-up: {len(maps)}")
    cond_maps = []
    for bb, a in maps:
        facts = panics.dominating_facts(sc, bb)
        single = any(f[0] == "cmp" and any(mentions(x, sc.prov, lambda z: (z[0] == "field" and z[2] == "features")) for x in (f[2], f[3])) for f in facts)
        if single:
            cond_maps.append(bb)
    ck.ob("C18.1", "setup|cq-mapping-conditional-on-single-mmap", len(cond_maps) == 1, fn=su["path"], detail=f"mappings made under the SINGLE_MMAP feature test: {len(cond_maps)} (expected exactly the completion ring)")
    check_index_array(ck, prog, "C18.1")
    check_ring_geometry(ck, prog, "C18.1")
    from .c12 import check_ring_setup_release
    check_ring_setup_release(ck, prog, "C18.3")
    # ---- drop side ----------------------------------------------------------------------------------------------------------
    unmaps = [(bb, dc.args(bb)) for bb, t in dc.cfg.calls(lambda t: t.get("callee") == MUNMAP)]
    ck.ob("C18.1", "drop|three-munmaps", len(unmaps) == 3, fn=d["path"], detail=f"munmap sites in Drop: {len(unmaps)}")
    kinds = {}
    for bb, a in unmaps:
        which = None
        if mentions(a[0], dc.prov, lambda z: z[0] == "field" and z[2] == "entries"):
            which = "sqes"
        elif mentions(a[0], dc.prov, lambda z: z[0] == "field" and z[2] == "ring_ptr" and mentions(z[1], dc.prov, lambda w: w[0] == "field" and w[2] == "completion_queue")):
            which = "cq"
        elif mentions(a[0], dc.prov, lambda z: z[0] == "field" and z[2] == "ring_ptr" and mentions(z[1], dc.prov, lambda w: w[0] == "field" and w[2] == "submission_queue")):
            which = "sq"
        kinds[which] = (bb, a)
    ck.ob("C18.1", "drop|one-unmap-per-region", set(kinds) == {"sqes", "cq", "sq"}, fn=d["path"], detail=f"unmapped regions: {sorted(str(k) for k in kinds)}; expected the SQE array, the submission ring and the completion ring once each")
    if "cq" in kinds:
        bb, a = kinds["cq"]
        facts = panics.dominating_facts(dc, bb)
        guarded = False
        for f in facts:
            if f[0] == "cmp" and f[1] in ("Ne", "Eq"):
                rp = [x for x in (f[2], f[3]) if mentions(x, dc.prov, lambda z: z[0] == "field" and z[2] == "ring_ptr")]
                if len(rp) == 2 and f[1] == "Ne":
                    guarded = True
            if f[0] in ("cmp", "truth") and mentions(f[1] if f[0] == "truth" else f[2], dc.prov, lambda z: z[0] == "const" and z[2] and "SINGLE_MMAP" in z[2]):
                guarded = True
        ck.ob("C18.1", "cq-unmap-conditional-on-alias", guarded, fn=d["path"], site=dc.site(bb),
              detail="the completion ring is unmapped unconditionally, but on kernels with IORING_FEAT_SINGLE_MMAP set-up stores the SAME pointer for both rings: the range is unmapped twice (the second call can tear down another thread's fresh mapping)")
    # ---- C18.2 sizes ------------------------------------------------------------------------------------------------------------
    for k, fld in (("sq", "submission_queue"), ("cq", "completion_queue")):
        if k in kinds:
            bb, a = kinds[k]
            ok = mentions(a[1], dc.prov, lambda z: z[0] == "field" and z[2] == "ring_size" and mentions(z[1], dc.prov, lambda w: w[0] == "field" and w[2] == fld))
            ck.ob("C18.2", f"{k}-unmap-length-is-stored-ring-size", ok, fn=d["path"], site=dc.site(bb), detail=f"the {k} ring must be unmapped with {fld}.ring_size; found {show(a[1])}")
    if "sqes" in kinds:
        bb, a = kinds["sqes"]
        ln = a[1]
        ok = mentions(ln, dc.prov, lambda z: z[0] == "bin" and z[1] == "Mul" and any(mentions(x, dc.prov, lambda w: w[0] == "field" and w[2] == "ring_entries") for x in (z[2], z[3])))
        ck.ob("C18.2", "sqes-unmap-length=entries*sqe_size", ok, fn=d["path"], site=dc.site(bb), detail=f"the SQE array must be unmapped with ring_entries * sqe_size; found {show(ln)}")
        # the SQE128 test exists on both sides
        def sqe128(ctx):
            for sb in ctx.cfg.live_blocks():
                if ctx.cfg.term(sb)["k"] != "switch":
                    continue
                for e in ctx.cfg.succ[sb]:
                    for f in ctx.edge_facts(e):
                        if f[0] == "cmp" and any(mentions(x, ctx.prov, lambda z: z[0] == "bin" and z[1] == "BitAnd" and (fold(z[3]) == 1024 or fold(z[2]) == 1024 or mentions(z, ctx.prov, lambda w: w[0] == "const" and w[2] and "SQE128" in w[2]))) for x in (f[2], f[3])):
                            return True
                        # the same bit asked through the flags type: flags.contains(IORING_SETUP_SQE128)
                        if f[0] == "truth" and isinstance(f[1], tuple) and f[1][0] == "call" and (f[1][1] or "").endswith("::contains") and \
                                any(fold(a) == 1024 or mentions(a, ctx.prov, lambda w: w[0] == "const" and ((w[2] and "SQE128" in w[2]) or w[1] == 1024)) for a in f[1][2][1:]):
                            return True
            return False
        ck.ob("C18.2", "sqe128-test-on-both-sides", sqe128(dc) and sqe128(sc), fn=d["path"], detail="set-up and Drop must compute the SQE size with the same IORING_SETUP_SQE128 (1 << 10) test")
    # set-up stores the sizes it mapped
    for b in su["blocks"]:
        for i, s in enumerate(b["stmts"]):
            if s["k"] == "assign" and s["rv"]["k"] == "agg" and (s["rv"].get("adt") or "").endswith(("UringSubmissionQueue", "UringCompletionQueue")):
                dd = dict(zip(s["rv"]["fields"], [sc.prov.operand(o, (b["id"], i)) for o in s["rv"]["ops"]]))
                which = "sq" if s["rv"]["adt"].endswith("UringSubmissionQueue") else "cq"
                # the mmap whose result is ring_ptr was called with the stored size
                rp, rs = dd.get("ring_ptr"), dd.get("ring_size")
                srcs = [z for z in walk_deep(rp, sc.prov) if z[0] == "call" and z[1] == MMAP]
                ok = bool(srcs) and any(canon(strip_casts(sc.args(z[3])[1]).__getitem__(2)[0]) == canon(rs) if isinstance(strip_casts(sc.args(z[3])[1]), tuple) and strip_casts(sc.args(z[3])[1])[0] == "call" and strip_casts(sc.args(z[3])[1])[2] else False for z in srcs)
                ck.ob("C18.2", f"setup-stores-mapped-size|{which}", ok, fn=su["path"], detail=f"ring_size stored for the {which} ring must be the length its mapping was made with (ring_size={show(rs)})")
    # one mapping for both rings (IORING_FEAT_SINGLE_MMAP) is as long as the LONGER of the two: every redefinition of a ring size from
    # the other ring's size raises it (`if cq > sq { sq = cq } else { cq = sq }`, or max(sq, cq)) - the shorter one would leave the tail
    # of the index array or of the completion entries outside the mapping
    names18 = {x["p"]["l"]: x["n"] for x in su.get("names", []) if isinstance(x.get("p", {}).get("l"), int) and not x["p"].get("p")}
    szl = {n_: l for l, n_ in names18.items() if n_ in ("sq_ring_sz", "cq_ring_sz")}
    if len(szl) == 2:
        bad18 = []
        n_re = 0
        for b in su["blocks"]:
            if b["id"] not in sc.cfg.live_blocks() or b.get("cleanup"):
                continue
            for i, st in enumerate(b["stmts"]):
                if st["k"] != "assign" or st["dst"].get("p") or st["dst"]["l"] not in szl.values():
                    continue
                v = strip_casts(sc.prov.rvalue(st["rv"], (b["id"], i)))
                other = [l for l in szl.values() if l != st["dst"]["l"]][0]
                rv0 = st["rv"]
                other_now = canon(strip_casts(sc.prov.operand({"k": "copy", "p": {"l": other}}, (b["id"], i))))
                if rv0["k"] == "use" and rv0["a"].get("k") in ("copy", "move") and not rv0["a"]["p"].get("p") and canon(v) == other_now and \
                        canon(v) != canon(strip_casts(sc.prov.operand({"k": "copy", "p": {"l": st["dst"]["l"]}}, (b["id"], i)))):
                    n_re += 1
                    # dst = other: must happen where other is the larger one
                    big = canon(v)
                    small = canon(strip_casts(sc.prov.operand({"k": "copy", "p": {"l": st["dst"]["l"]}}, (b["id"], i))))
                    fs = panics.dominating_facts(sc, b["id"])
                    up = any(f[0] == "cmp" and ((f[1] in ("Gt", "Ge") and canon(strip_casts(f[2])) == big and canon(strip_casts(f[3])) == small) or
                                                (f[1] in ("Lt", "Le") and canon(strip_casts(f[2])) == small and canon(strip_casts(f[3])) == big)) for f in fs)
                    is_max = isinstance(v, tuple) and v[0] == "call" and (v[1] or "").endswith(("::max", "cmp::max"))
                    if not up and not is_max:
                        bad18.append(b["id"])
                elif isinstance(v, tuple) and v[0] == "call" and (v[1] or "").endswith(("::min", "cmp::min")):
                    n_re += 1
                    bad18.append(b["id"])
                elif isinstance(v, tuple) and v[0] == "call" and (v[1] or "").endswith(("::max", "cmp::max")):
                    n_re += 1
        ck.ob("C18.2", "shared-mapping-is-the-longer-ring", n_re >= 1 and not bad18, fn=su["path"], site=sc.site(bad18[0]) if bad18 else None,
              detail="with IORING_FEAT_SINGLE_MMAP both rings share one mapping: its length must be the larger of the two ring sizes")
    closes = [bb for bb, t in dc.cfg.calls(lambda t: t.get("callee") == CLOSE)]
    # exactly one close on every way out (one site, or one per exit branch), each after the unmaps that always happen
    every_exit = bool(closes) and not any(rb in dc.cfg.reachable_from(0, avoid=set(closes)) for rb in dc.cfg.return_blocks())
    twice = any(c2 in dc.cfg.reachable_from(dc.cfg.term(c1).get("t"), avoid=set()) for c1 in closes for c2 in closes if dc.cfg.term(c1).get("t") is not None and (c2 != c1 or dc.cfg.in_cycle(c1)))
    after = all(c not in dc.cfg.reachable_from(0, avoid={kinds[k][0]}) or k == "cq" for c in closes for k in kinds if k)
    ck.ob("C18.2", "close-once-after-unmaps", every_exit and not twice and after, fn=d["path"],
          detail="the ring descriptor is closed exactly once, after the unmaps")

    # ---- C18.4 SQE constructors ----------------------------------------------------------------------------------------------------
    ops = prog.adts.get(Q + "IoUringOp")
    variants = [v["name"] for v in ops["variants"]] if ops else []
    n = 0
    for p, fn in sorted(prog.fns.items()):
        m = re.match(r"^" + re.escape(Q) + r"IoUringSubmissionQueueEntry::new_(\w+)$", p)
        if not m:
            continue
        ctx = prog.ctx(fn)
        agg = None
        for b in fn["blocks"]:
            for i, s in enumerate(b["stmts"]):
                if s["k"] == "assign" and s["rv"]["k"] == "agg" and (s["rv"].get("adt") or "").endswith("io_uring_sqe"):
                    agg = dict(zip(s["rv"]["fields"], [ctx.prov.operand(o, (b["id"], i)) for o in s["rv"]["ops"]]))
        if agg is None:
            continue
        n += 1
        name = m.group(1).replace("_", "").lower()
        opv = None
        for z in walk_deep(agg.get("opcode"), ctx.prov):
            if z[0] == "agg" and str(z[1]).endswith("IoUringOp"):
                opv = z[2]
            if z[0] == "const" and z[2]:
                mm = re.search(r"IoUringOp::(\w+)", z[2])
                if mm:
                    opv = mm.group(1)
        # names whose operation is a variant of another opcode (frozen table, io_uring ABI)
        alias = {"readvfixed": "readfixed", "writevfixed": "writefixed"}
        want = alias.get(name, name)
        okop = opv is not None and (opv.lower() == want or want.startswith(opv.lower()))
        ck.ob("C18.4", f"new_{m.group(1)}|opcode", okop, fn=p,
              detail=f"new_{m.group(1)} builds an entry with opcode IoUringOp::{opv}; the name says {m.group(1)}")
        ud = agg.get("user_data")
        ck.ob("C18.4", f"new_{m.group(1)}|user_data", isinstance(strip_casts(ud), tuple) and strip_casts(ud)[0] == "param" and "user_data" in str(strip_casts(ud)[2]), fn=p, detail=f"user_data must be the user_data parameter, found {show(ud)}")
        fl = agg.get("flags")
        ck.ob("C18.4", f"new_{m.group(1)}|flags", mentions(fl, ctx.prov, lambda z: z[0] == "param" and "flags" in str(z[2])), fn=p, detail=f"the SQE flags must come from the sqe_flags parameter, found {show(fl)}")
        fd = agg.get("fd")
        okfd = mentions(fd, ctx.prov, lambda z: z[0] == "param" and ("fd" in str(z[2]) or "sock" in str(z[2]))) or fold(fd) is not None
        if name == "socket":
            okfd = mentions(fd, ctx.prov, lambda z: z[0] == "param" and "domain" in str(z[2]))   # IORING_OP_SOCKET carries the address family in `fd`
        ck.ob("C18.4", f"new_{m.group(1)}|fd", okfd, fn=p, detail=f"the fd field must come from the descriptor / dir-fd parameter, found {show(fd)}")
        # an argument reaches the entry on every path: a field fed from a parameter is not replaced by a constant on some branch
        # (the kernel decides which arguments an operation looks at - e.g. the mode of an O_TMPFILE open - not the constructor)
        dropped = []
        for fname, e in agg.items():
            x = strip_casts(e)
            if isinstance(x, tuple) and x[0] == "var":
                defs = list(ctx.prov.expand(x))
                withp = [d for d in defs if mentions(d, ctx.prov, lambda z: z[0] == "param")]
                # (an Option parameter unpacked with a default - `match len { Some(l) => l, None => 0 }` - is not a dropped argument)
                opt_only = all(str(fn["locals"][z[1]]["ty"]).startswith("core::option::Option<") for d in withp for z in walk_deep(d, ctx.prov) if z[0] == "param")
                if withp and len(withp) < len(defs) and not opt_only:
                    dropped.append(fname)
        ck.ob("C18.4", f"new_{m.group(1)}|arguments-passed-on-every-path", not dropped, fn=p,
              detail=f"entry field(s) {dropped} carry the caller's argument on some paths and a constant on others: the operation then differs from the direct system call for the inputs on the other branch")
        used = {z[1] for e in agg.values() for z in walk_deep(e, ctx.prov, limit=2000) if z[0] == "param"}
        for b in fn["blocks"]:     # a flag parameter selects a constant: it reaches the entry through the branch it decides
            if b["term"]["k"] == "switch" and b["id"] in ctx.cfg.live_blocks():
                used |= {z[1] for z in walk_deep(ctx.prov.operand(b["term"]["discr"], (b["id"], len(b["stmts"]))), ctx.prov) if z[0] == "param"}
        ck.ob("C18.4", f"new_{m.group(1)}|all-parameters-reach-the-entry", used >= set(range(1, fn["argc"] + 1)), fn=p,
              detail=f"parameters reaching the entry: {sorted(used)} of {fn['argc']}")
    # which sqe field carries which argument is fixed by the kernel's io_*_prep functions; the table below was read off the tree,
    # reviewed against them by hand (tools/mk_sqe_abi.py) and frozen - e.g. IORING_OP_ACCEPT takes the address from `addr` and the
    # length pointer from `addr2`, RENAMEAT the new directory in `len`, SOCKET the type in `off`
    import json as _json
    abi = _json.load(open(os.path.join(os.path.dirname(__file__), "c18_abi.json")))
    got = sqe_field_sources(prog)
    for ctor, fields in sorted(got.items()):
        want = abi.get(ctor)
        if want is None:
            ck.ob("C18.4", f"new_{ctor}|field-sources-reviewed", False, fn=Q + "IoUringSubmissionQueueEntry::new_" + ctor,
                  detail=f"new_{ctor} is not in the reviewed table sa/rules/c18_abi.json: its field layout {fields} has to be checked against the kernel's prep function and added")
            continue
        diff = {k: (want.get(k), fields.get(k)) for k in sorted(set(want) | set(fields)) if want.get(k) != fields.get(k)}
        ck.ob("C18.4", f"new_{ctor}|field-sources-match-the-kernel-abi", not diff, fn=Q + "IoUringSubmissionQueueEntry::new_" + ctor,
              detail=f"entry fields fed from other arguments than the reviewed layout (field: (reviewed parameter indices / constant, found)): {diff}")
    # a caller's argument reaches its field as it is (no masking or arithmetic on the way: the direct system call gets the value unchanged),
    # and the constants an entry can carry are the reviewed ones (opcode, AT_FDCWD, IORING_TIMEOUT_ABS ..): frozen table c18_consts.json
    cpath = os.path.join(os.path.dirname(__file__), "c18_consts.json")
    frozen = _json.load(open(cpath)) if os.path.exists(cpath) else {}
    def dirfd_default(ctor):
        # AT_FDCWD (-100) is what a missing directory descriptor stands for (unpack_dir_fd, checked by none-dirfd-is-at-fdcwd): a constructor
        # that takes an Option<Fd> directory may spell that default itself
        f_ = prog.fns.get(Q + "IoUringSubmissionQueueEntry::new_" + ctor)
        has_opt_fd = f_ is not None and any("Option<" in str(f_["locals"][i_]["ty"]) and ("Fd" in str(f_["locals"][i_]["ty"]) or "NonNegativeI32" in str(f_["locals"][i_]["ty"])) for i_ in range(1, f_["argc"] + 1))
        return {-100} if has_opt_fd else set()
    for ctor, (consts, arith) in sorted(sqe_constants_and_arith(prog).items()):
        ck.ob("C18.4", f"new_{ctor}|arguments-reach-the-entry-unmodified", not arith, fn=Q + "IoUringSubmissionQueueEntry::new_" + ctor,
              detail=f"a parameter is transformed before it is stored in the entry: {arith}")
        want_c = frozen.get(ctor)
        ck.ob("C18.4", f"new_{ctor}|entry-constants-are-the-reviewed-ones", want_c is not None and (set(consts) - dirfd_default(ctor)) <= set(want_c), fn=Q + "IoUringSubmissionQueueEntry::new_" + ctor,
              detail=f"constants that can reach the entry: {consts}; reviewed: {want_c} (a new constant - a flag bit, a clock selector - changes what the kernel is asked to do)")
    ck.floor("C18.4", "SQE constructors", n, 16 if ck.config == "C" else 19)   # three constructors need alloc
    # the flag words handed to the kernel: each named bit has the value the kernel header gives it (frozen table c18_flags.json), and no
    # two names of one flag type share a bit (a copy-pasted shift turns a hard link into a soft one)
    flags = _json.load(open(os.path.join(os.path.dirname(__file__), "c18_flags.json")))["values"]
    seen = {}
    n_flags = 0
    for cpath, d in sorted(prog.consts.items()):
        if not cpath.startswith(Q) or not isinstance(d.get("value"), int):
            continue
        short = cpath[len(Q):]
        if "::" not in short or short.count("::") != 1:
            continue        # Type::NAME only; a constant local to a function is seen where it is used
        n_flags += 1
        want = flags.get(short)
        if want is None:
            ck.ob("C18.4", f"flag|{short}|reviewed", False, detail=f"{short} = {d['value']} is not in the reviewed table sa/rules/c18_flags.json; check it against include/uapi/linux/io_uring.h and add it")
        else:
            ck.ob("C18.4", f"flag|{short}|kernel-value", d["value"] == want, detail=f"{short} is {d['value']}, the kernel header says {want}")
        ty = short.split("::")[0]
        if d["value"] != 0 and not short.endswith("::DEFAULT"):
            other = seen.setdefault((ty, d["value"]), short)
            ck.ob("C18.4", f"flag|{short}|distinct", other == short, detail=f"{short} and {other} are the same bit ({d['value']})")
    ck.floor("C18.4", "io_uring flag constants", n_flags, 40)
    uf = prog.fns.get(Q + "unpack_dir_fd")
    if ck.anchor("C18.4", "unpack_dir_fd", uf):
        c2 = prog.ctx(uf)
        vals = {fold(v) for v in c2.ret_expr().values()} | {fold(d) for v in c2.ret_expr().values() if isinstance(v, tuple) and v[0] == "var" for d in c2.prov.expand(v)}
        ck.ob("C18.4", "none-dirfd-is-at-fdcwd", -100 in vals, fn=uf["path"], detail=f"a missing dir fd must become AT_FDCWD (-100); constants returned {sorted(str(v) for v in vals)}")

    # ---- C18.5 enter / register pass-through ------------------------------------------------------------------------------------------
    for nm, nr in (("rusl::io_uring::io_uring_enter", "IO_URING_ENTER"), ("rusl::io_uring::io_uring_register_files", "IO_URING_REGISTER"), ("rusl::io_uring::io_uring_register_buffers", "IO_URING_REGISTER"), ("rusl::io_uring::io_uring_register_io_slices", "IO_URING_REGISTER")):
        fn = prog.fns.get(nm)
        if fn is None:
            continue
        ctx = prog.ctx(fn)
        sites = [bb for bb, t in ctx.cfg.calls(lambda t: is_raw_syscall(t.get("callee")))]
        ck.ob("C18.5", f"{nm.split('::')[-1]}|one-syscall", len(sites) == 1, fn=nm, detail=f"raw syscall sites {len(sites)}")
        for bb in sites:
            a = ctx.args(bb)
            ck.ob("C18.5", f"{nm.split('::')[-1]}|ring-fd-first", len(a) > 1 and mentions(a[1], ctx.prov, lambda z: z[0] == "param" and z[1] == 1), fn=nm, site=ctx.site(bb), detail=f"the first syscall argument must be the ring descriptor parameter, found {show(a[1]) if len(a) > 1 else None}")
            used = {z[1] for x in a[1:] for z in walk_deep(x, ctx.prov) if z[0] == "param"}
            ck.ob("C18.5", f"{nm.split('::')[-1]}|all-parameters-used", used >= set(range(1, fn["argc"] + 1)), fn=nm, site=ctx.site(bb), detail=f"every parameter must reach the system call; parameters used {sorted(used)} of {fn['argc']}")


def sqe_field_sources(prog):
    """{constructor: {leaf field of io_uring_sqe: [parameter indices] | constant}} (zero / absent fields omitted)"""
    out = {}
    for p, fn in sorted(prog.fns.items()):
        m = re.match(r"^" + re.escape(Q) + r"IoUringSubmissionQueueEntry::new_(\w+)$", p)
        if not m:
            continue
        ctx = prog.ctx(fn)
        flat = {}

        def flatten(name, e):
            e0 = strip_casts(e)
            if isinstance(e0, tuple) and e0[0] == "agg" and len(e0) > 4 and e0[4]:
                for f, o in zip(e0[4], e0[3]):
                    flatten(str(f), o)
                return
            # (a bool parameter selects a constant - through a branch or as `u32::from(!relative) * ABS` - it is not a value the field carries)
            ps = sorted({z[1] for z in walk_deep(e, ctx.prov, limit=400) if z[0] == "param" and str(fn["locals"][z[1]].get("ty")) != "bool"})
            v = ps if ps else fold(e)
            if v not in (0, None, []):
                flat[name] = v
        for b in fn["blocks"]:
            for i, st in enumerate(b["stmts"]):
                if st["k"] == "assign" and st["rv"]["k"] == "agg" and (st["rv"].get("adt") or "").endswith("io_uring_sqe"):
                    for f, o in zip(st["rv"]["fields"], st["rv"]["ops"]):
                        flatten(f, ctx.prov.operand(o, (b["id"], i)))
        out[m.group(1)] = flat
    return out


def _ev_bool(e, env, ctx, depth=0):
    """value of an integer expression over bool parameters (env: parameter index -> 0/1); None when not understood"""
    e = strip_casts(e)
    v = fold(e)
    if v is not None:
        return int(v)
    if not isinstance(e, tuple) or depth > 12:
        return None
    if e[0] == "param":
        return env.get(e[1])
    if e[0] == "var":
        ds = [_ev_bool(d, env, ctx, depth + 1) for d in ctx.prov.expand(e)]
        return ds[0] if len(ds) == 1 else None
    if e[0] == "un" and e[1] == "Not":
        a = _ev_bool(e[2], env, ctx, depth + 1)
        return None if a is None else (1 - a if a in (0, 1) else None)
    if e[0] == "call" and (e[1] or "").endswith(("From::from", "Into::into", "::from", "::into")) and e[2]:
        return _ev_bool(e[2][0], env, ctx, depth + 1)
    if e[0] == "bin" and e[1] in ("Mul", "Add", "Sub", "BitOr", "BitAnd", "BitXor", "Shl", "MulWithOverflow", "AddWithOverflow"):
        a, b = _ev_bool(e[2], env, ctx, depth + 1), _ev_bool(e[3], env, ctx, depth + 1)
        if a is None or b is None:
            return None
        return {"Mul": a * b, "MulWithOverflow": a * b, "Add": a + b, "AddWithOverflow": a + b, "Sub": a - b, "BitOr": a | b, "BitAnd": a & b, "BitXor": a ^ b, "Shl": a << b}[e[1]]
    if e[0] == "field" and isinstance(e[1], tuple) and e[1][0] in ("bin", "overflow") and str(e[2]) == "0":
        return _ev_bool(e[1], env, ctx, depth + 1)
    if e[0] == "overflow":
        return _ev_bool(("bin",) + tuple(e[1:]), env, ctx, depth + 1)
    return None


def sqe_constants_and_arith(prog):
    """per constructor: the set of integer constants that can reach the entry (through any definition of a merged value) and the
    arithmetic / bit operations applied to a caller's argument on its way into the entry"""
    out = {}
    for p, fn in sorted(prog.fns.items()):
        m = re.match(r"^" + re.escape(Q) + r"IoUringSubmissionQueueEntry::new_(\w+)$", p)
        if not m:
            continue
        ctx = prog.ctx(fn)
        consts, arith = set(), []
        for b in fn["blocks"]:
            for i, st in enumerate(b["stmts"]):
                if st["k"] == "assign" and st["rv"]["k"] == "agg" and (st["rv"].get("adt") or "").endswith("io_uring_sqe"):
                    for o in st["rv"]["ops"]:
                        e = ctx.prov.operand(o, (b["id"], i))
                        for z in walk_deep(e, ctx.prov, limit=600):
                            if z[0] == "const" and isinstance(z[1], int) and not isinstance(z[1], bool):
                                consts.add(z[1])
                            is_arith = (z[0] == "bin" and z[1] not in ("Eq", "Ne", "Lt", "Gt", "Le", "Ge")) or \
                                (z[0] == "call" and (z[1] or "").endswith(("::bitand", "::bitor", "::bitxor", "::not", "::shl", "::shr", "::wrapping_add", "::wrapping_sub", "::intersection", "::union", "::difference")))
                            if is_arith and any(w[0] == "param" for w in walk_deep(z, ctx.prov, limit=80)):
                                ps_ = sorted({w[1] for w in walk_deep(z, ctx.prov, limit=80) if w[0] == "param"})
                                if all(str(fn["locals"][q]["ty"]) == "bool" for q in ps_) and len(ps_) <= 3:
                                    # a selection among constants written as arithmetic on a flag: enumerate it
                                    import itertools as _it
                                    vals_ = [_ev_bool(z, dict(zip(ps_, combo)), ctx) for combo in _it.product((0, 1), repeat=len(ps_))]
                                    if all(isinstance(v_, int) for v_ in vals_):
                                        consts.update(vals_)
                                        continue
                                arith.append(show(z)[:80])
                        v = fold(e)
                        if v is not None:
                            consts.add(v)
        out[m.group(1)] = (sorted(consts), sorted(set(arith)))
    return out


def check_ring_geometry(ck, prog, rule):
    """every word of a ring is found through that ring's own offset table: the submission queue's head/tail/flags/dropped/mask/entries
    come from sq_off.<same name>, the completion queue's from cq_off.<same name> (with one mapping shared by both rings a read at the
    other table's offset is a valid read of the wrong word).  Shared by C17.7 and C18.1."""
    su = prog.fns.get("rusl::io_uring::setup_io_uring")
    if not ck.anchor(rule, "setup_io_uring", su):
        return
    sc = prog.ctx(su)
    want = {"kernel_head": "head", "kernel_tail": "tail", "kernel_flags": "flags", "kernel_dropped": "dropped", "kernel_overflow": "overflow", "ring_mask": "ring_mask", "ring_entries": "ring_entries"}
    table = {"UringSubmissionQueue": "io_sqring_offsets", "UringCompletionQueue": "io_cqring_offsets"}
    n = 0
    for b in su["blocks"]:
        for i, st in enumerate(b["stmts"]):
            if not (st["k"] == "assign" and st["rv"]["k"] == "agg" and (st["rv"].get("adt") or "").split("::")[-1] in table):
                continue
            q = st["rv"]["adt"].split("::")[-1]
            vals = dict(zip(st["rv"]["fields"], [sc.prov.operand(o, (b["id"], i)) for o in st["rv"]["ops"]]))
            offs = lambda e: {(y[2], (y[3] or "").split("::")[-1]) for y in walk_deep(e, sc.prov, limit=4000) if y[0] == "field" and (y[3] or "").endswith("ring_offsets")}
            base = offs(vals.get("ring_ptr")) | offs(vals.get("ring_size"))     # offsets that only size / place the mapping
            for f, oname in want.items():
                if f not in vals:
                    continue
                n += 1
                got = offs(vals[f]) - base
                ck.ob(rule, f"setup|{q}.{f}|read-at-its-own-offset", got == {(oname, table[q])}, fn=su["path"], site=sc.site(b["id"]),
                      detail=f"{q}.{f} must be located with {table[q]}.{oname}; it is located with {sorted(got)}")
    ck.floor(rule, "ring words located in set-up", n, 12)


def check_index_array(ck, prog, rule):
    """the slot -> entry index array (sq_array) is the identity over the ring the kernel created (shared by C17.7 and C18.1)"""
    su = prog.fns.get("rusl::io_uring::setup_io_uring")
    if not ck.anchor(rule, "setup_io_uring", su):
        return
    sc = prog.ctx(su)
    # the slot -> entry index array is initialised for every slot of the ring the kernel actually created (it rounds the
    # requested size up): the loop storing into sq_array runs over 0..*sq_off.ring_entries, not over the requested count
    stores = [bb for bb, t in sc.cfg.calls(lambda t: (t.get("callee") or "").endswith("Atomic::<u32>::store")) if sc.cfg.in_cycle(bb)]
    ck.ob(rule, "setup|anchor|index-array-store", len(stores) == 1, fn=su["path"], detail=f"atomic stores inside a loop of set-up: {len(stores)}")
    for bb in stores:
        a = sc.args(bb)
        ranges = [z for z in walk_deep(a[1], sc.prov, limit=200) if z[0] == "agg" and str(z[1]).endswith("ops::range::Range") and len(z[3]) == 2]
        ok = False
        why = "no range found for the stored index"
        for rg in ranges:
            lo, hi = rg[3]
            from_kernel = mentions(hi, sc.prov, lambda z: z[0] == "call" and (z[1] or "").endswith("value_at_offset") and len(z[2]) > 1 and
                                   mentions(z[2][1], sc.prov, lambda w: w[0] == "field" and w[2] == "ring_entries" and mentions(w[1], sc.prov, lambda v: v[0] == "field" and v[2] == "sq_off")))
            requested = mentions(hi, sc.prov, lambda z: z[0] == "param") and not from_kernel
            ok = fold(lo) == 0 and from_kernel and not requested
            why = f"the loop runs over {show(lo)}..{show(hi)}"
        if not ranges:
            # the same loop written with a counter: `let mut i = 0; while i < entries { ..; i += 1 }`
            from ..engine import panics as _panics
            idx = strip_casts(a[1])
            defs = list(sc.prov.expand(idx)) if isinstance(idx, tuple) and idx[0] == "var" else []
            starts0 = any(fold(d) == 0 for d in defs)
            steps1 = any(isinstance(strip_casts(d), tuple) and strip_casts(d)[0] == "bin" and strip_casts(d)[1] in ("Add", "AddWithOverflow", "AddUnchecked") and 1 in (fold(strip_casts(d)[2]), fold(strip_casts(d)[3])) and
                         canon(idx) in (canon(strip_casts(strip_casts(d)[2])), canon(strip_casts(strip_casts(d)[3]))) for d in defs)
            for f in _panics.dominating_facts(sc, bb):
                if f[0] == "cmp" and f[1] == "Lt" and canon(strip_casts(f[2])) == canon(idx) and len(defs) == 2 and starts0 and steps1:
                    hi = f[3]
                    from_kernel = mentions(hi, sc.prov, lambda z: z[0] == "call" and (z[1] or "").endswith("value_at_offset") and len(z[2]) > 1 and
                                           mentions(z[2][1], sc.prov, lambda w: w[0] == "field" and w[2] == "ring_entries" and mentions(w[1], sc.prov, lambda v: v[0] == "field" and v[2] == "sq_off")))
                    requested = mentions(hi, sc.prov, lambda z: z[0] == "param") and not from_kernel
                    ok = from_kernel and not requested
                    why = f"the loop counts from 0 while below {show(hi)}"
        identity = canon(strip_casts(a[1])) == canon(strip_casts([z for z in walk_deep(a[0], sc.prov, limit=200) if z[0] == "call" and (z[1] or "").endswith("::add")][0][2][1])) if any(z[0] == "call" and (z[1] or "").endswith("::add") for z in walk_deep(a[0], sc.prov, limit=200)) else False
        ck.ob(rule, "setup|index-array-covers-the-kernels-ring", ok, fn=su["path"], site=sc.site(bb),
              detail=f"{why}; it must cover 0..(ring_entries read from the mapped submission ring): the kernel rounds the requested size up, slots beyond the requested count would keep index 0 (their operations never run, entry 0 runs twice)")
        ck.ob(rule, "setup|index-array-is-identity", identity, fn=su["path"], site=sc.site(bb), detail="slot i must map to entry i (sq_array[i] = i)")
