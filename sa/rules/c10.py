"""C10 — every UnixStr/UnixString produced by safe code is NUL-terminated (terminator typestate at every sink)."""
from ..engine.prov import const_value, strip_casts, walk, walk_deep, show
from ..engine.dtable import canon
from ..engine.fold import fold
from ..engine.cfg import span_str

CONFIGS_QUICK = ["A", "B", "C"]
CONFIGS_THOROUGH = ["A", "B", "C", "R", "X"]

EXPLANATION = (
    "Decided (static, MIR): C10.1 a terminator typestate over every *sink* in safe code of rusl and tiny-std - a place where bytes become a UnixStr/UnixString "
    "(the UnixString(..) aggregate, transmute::<Vec<u8>, UnixString>, the &[u8] -> &UnixStr pointer cast, from_bytes_unchecked/from_str_unchecked called from a safe function). "
    "The bytes reaching a sink must be in state NT (last byte is NUL) on every path, derived with a frozen transfer table of the idioms the repository uses: whole bytes of a UnixStr/UnixString and to_vec() of them are NT; "
    "a suffix [k..] of NT bytes under a dominating length guard is NT; push(0) makes a vector NT, pop()/push(non-zero)/any unknown mutation makes it unknown; extend_from_slice(NT)/extend(NT vector) keeps NT; "
    "the true edge of `last() == Some(&0)` is NT; the scanner idiom (byte == 0 and index == len-1 both dominate) is NT; `b[..=buf_strlen(b)?]` is NT. A sink reached in state unknown is a violation. "
    "C10.2 the fallible constructors return Err on the `index != len-1` edge of the scanner (interior NUL) and UnixStr::try_from_bytes returns Err when no NUL was found; the const validator dominates the transmute in from_str_checked. "
    "C10.3 field privacy: UnixString.0 / UnixStr.0 are not public, so no safe external code can forge one. "
    "C10.5 *_unchecked sinks inside private unsafe helpers (reachable only through this crate's safe API) match an audited idiom: a prefix ending at a NUL stored just before, or raw parts (pointer, len + 1) whose call sites pass <&UnixStr>.as_ptr() and a buffer of exactly strlen(pointer) bytes. "
    "C10.6 the scanners that idiom trusts: buf_strlen / strlen return an index at which the byte was just compared equal to 0, reached by a counter from 0 in steps of 1, and buf_strlen fails only at the end of the buffer. C10.4 type-level witnesses: UnixString's constructor and bytes are private to rusl, literals with an interior NUL or without terminator are rejected at compile time; "
    "C10.4 also: the unix_lit! macro itself rejects a literal with an interior or its own trailing NUL at compile time. "
    "NOT decided: that inputs with several NULs are handled as the caller intends beyond rejection; public unsafe constructors (from_ptr, *_unchecked) are the caller's obligation.")
ASSUMPTIONS = ["the transfer table is the complete list of byte-vector operations used in these functions; any other mutation makes the state unknown (fail closed)",
               "type invariant: the byte field of an existing UnixStr/UnixString is NUL-terminated (established inductively by this very rule at every sink)"]

USTR = "rusl::string::unix_str::UnixStr"
USTRING = "rusl::string::unix_str::UnixString"
VEC_U8 = "alloc::vec::Vec<u8>"
UNCHANGED = ("::reserve", "::reserve_exact", "::len", "::capacity", "::last", "::first", "::as_ptr", "::as_slice", "::as_mut_ptr", "::is_empty", "::iter", "::get", "::shrink_to_fit", "::as_mut_slice", "::spare_capacity_mut")


def run(ck, progs, tier):
    for cfgname, prog in progs.items():
        ck.set_config(prog)
        run_one(ck, prog)
    # type-level witnesses (compile_fail doctests with compiling twins) against the public API of the tree under analysis
    from ..engine import witness
    witness.check(ck, ck.repo, "C10", "C10.4")


class NT:
    """Terminator typestate for one function."""

    def __init__(self, prog, ctx):
        self.prog, self.ctx, self.cfg, self.prov = prog, ctx, ctx.cfg, ctx.prov
        self.vecs = {l["id"] for l in ctx.fn["locals"] if l["ty"] == VEC_U8}
        self._in = None

    # ---- expression-level NT sources -------------------------------------------------------------------
    def nt_expr(self, e, at_bb=None, depth=0):
        e = strip_casts(e)
        if not isinstance(e, tuple) or depth > 20:
            return False
        k = e[0]
        if k == "field" and e[3] in (USTR, USTRING) and e[2] == "0":
            return True
        if k in ("ref", "addr"):
            return self.nt_expr(e[2], at_bb, depth + 1)
        if k == "deref":
            return self.nt_expr(e[1], at_bb, depth + 1)
        if k == "cast":
            return self.nt_expr(e[2], at_bb, depth + 1)
        if k == "bytes":
            return len(e[1]) > 0 and e[1][-1] == 0
        if k == "call":
            n = e[1] or ""
            a = e[2]
            if n.endswith(("UnixStr::as_slice", "Vec::<T, A>::as_slice", "slice::<impl [T]>::to_vec", "core::ptr::from_ref", "Deref::deref", "AsRef::as_ref", "Clone::clone")) and a:
                return self.nt_expr(a[0], at_bb, depth + 1)
            if n.endswith(("Index::index", "::get_unchecked")) and len(a) == 2:
                rng = strip_casts(a[1])
                if isinstance(rng, tuple) and rng[0] == "agg" and str(rng[1]).endswith("RangeFrom"):
                    # suffix of NT bytes; needs a dominating guard on the source's length (non-empty suffix)
                    return self.nt_expr(a[0], at_bb, depth + 1) and (at_bb is None or self.len_guarded(a[0], at_bb, e[3]))
                if isinstance(rng, tuple) and rng[0] == "agg" and str(rng[1]).endswith("RangeToInclusive") and rng[3]:
                    end = strip_casts(rng[3][0])
                    # b[..=buf_strlen(b)?]
                    for x in walk_deep(end, self.prov):
                        if x[0] == "call" and (x[1] or "").endswith("strlen::buf_strlen") and x[2] and self.same_source(x[2][0], a[0]):
                            return True
                    return False
                if isinstance(rng, tuple) and rng[0] == "agg" and str(rng[1]).endswith("RangeTo") and rng[3]:
                    # the exclusive form of the same prefix: b[..buf_strlen(b)? + 1]
                    end = strip_casts(rng[3][0])
                    if isinstance(end, tuple) and end[0] == "bin" and end[1] == "Add" and const_value(end[3]) == 1:
                        for x in walk_deep(end[2], self.prov):
                            if x[0] == "call" and (x[1] or "").endswith("strlen::buf_strlen") and x[2] and self.same_source(x[2][0], a[0]):
                                return True
                    return False
            return False
        if k == "var":
            ds = self.prov.expand(e)
            return bool(ds) and all(self.nt_expr(d, at_bb, depth + 1) for d in ds)
        return False

    def same_source(self, a, b):
        return canon(strip_refs(a)) == canon(strip_refs(b))

    def len_guarded(self, src, at_bb, idx_bb=None):
        """some dominating switch edge compares something with the length of the same source."""
        cs = canon(strip_refs(src))
        for sb in self.cfg.live_blocks():
            if self.cfg.term(sb)["k"] != "switch":
                continue
            for e in self.cfg.succ[sb]:
                if not self.cfg.edge_dominates(e, at_bb):
                    continue
                for f in self.ctx.edge_facts(e):
                    if f[0] == "cmp":
                        for side in (f[2], f[3]):
                            for x in walk_deep(side, self.prov):
                                if x[0] == "call" and (x[1] or "").endswith(("::len",)) and x[2]:
                                    inner = canon(strip_refs(x[2][0])).replace("*", "")
                                    c2 = cs.replace("*", "")
                                    if inner == c2 or c2.startswith(inner) or inner.startswith(c2):
                                        return True
        return False

    # ---- vector typestate ---------------------------------------------------------------------------------
    def vec_of(self, e):
        """local id when e is `&mut V` / `V` for a tracked Vec<u8> local."""
        x = e
        while isinstance(x, tuple) and x[0] in ("ref", "addr", "deref"):
            x = x[2] if x[0] in ("ref", "addr") else x[1]
        if isinstance(x, tuple) and x[0] == "place" and x[1] in self.vecs:
            return x[1]
        return None

    def compute(self):
        cfg = self.cfg
        IN = {0: {v: "U" for v in self.vecs}}
        work = [0]
        self.block_out_edges = {}
        it = 0
        while work and it < 5000:
            it += 1
            b = work.pop()
            st = dict(IN[b])
            st = self.transfer_block(b, st)
            for e in cfg.succ[b]:
                st2 = dict(st)
                # edge refinement: last() == Some(0)
                if e.kind == "sw":
                    for f in self.ctx.edge_facts(e):
                        if f[0] == "cmp" and f[1] == "Eq":
                            for x, y in ((f[2], f[3]), (f[3], f[2])):
                                if const_value(y) == 0:
                                    v = self.last_of(x)
                                    if v is not None:
                                        st2[v] = "NT"
                        # the same test as a comparison of the Option: `v.last() == Some(&0)` / `!= Some(&0)` on its false edge
                        if f[0] == "truth" and isinstance(f[1], tuple) and f[1][0] == "call" and (f[1][1] or "").endswith(("PartialEq::eq", "PartialEq::ne")) and len(f[1][2]) == 2:
                            holds = bool(f[2]) == (f[1][1] or "").endswith("::eq")
                            for x, y in ((f[1][2][0], f[1][2][1]), (f[1][2][1], f[1][2][0])):
                                v = self.last_of(x)
                                if v is not None and holds and _is_some_ref_nul(y, self.prov):
                                    st2[v] = "NT"
                old = IN.get(e.dst)
                if old is None:
                    IN[e.dst] = st2
                    work.append(e.dst)
                else:
                    new = {v: (old[v] if old.get(v) == st2.get(v) else "U") for v in self.vecs}
                    if new != old:
                        IN[e.dst] = new
                        work.append(e.dst)
        self._in = IN

    def last_of(self, x):
        """x is the payload of `V.last()` (possibly .copied()): return V."""
        for y in walk_deep(x, self.prov):
            if y[0] == "call" and (y[1] or "").endswith(("slice::<impl [T]>::last",)) and y[2]:
                inner = y[2][0]
                # last(&*deref(&V)) : Vec derefs to slice
                for z in walk_deep(inner, self.prov):
                    if z[0] == "place" and z[1] in self.vecs:
                        return z[1]
                    if z[0] == "call" and (z[1] or "").endswith(("Deref::deref", "::as_slice")) and z[2]:
                        v = self.vec_of(z[2][0])
                        if v is not None:
                            return v
        return None

    def transfer_block(self, b, st, upto=None):
        """apply statements (and the terminator unless upto is given: a statement index / 'term')."""
        blk = self.cfg.block(b)
        for i, s in enumerate(blk["stmts"]):
            if upto is not None and upto != "term" and i >= upto:
                return st
            if s["k"] == "assign" and not s["dst"].get("p") and s["dst"]["l"] in self.vecs:
                v = s["dst"]["l"]
                rv = s["rv"]
                if rv["k"] == "use" and rv["a"].get("k") in ("copy", "move") and not rv["a"]["p"].get("p") and rv["a"]["p"]["l"] in self.vecs:
                    st[v] = st.get(rv["a"]["p"]["l"], "U")
                else:
                    e = self.prov.rvalue(rv, (b, i))
                    st[v] = "NT" if self.nt_expr(e, b) else "U"
        if upto is not None and upto == "term":
            return st
        if upto is not None:
            return st
        t = blk["term"]
        if t["k"] == "call":
            at = (b, len(blk["stmts"]))
            args = [self.prov.operand(a, at) for a in t["args"]]
            c = t.get("callee") or ""
            # result assigned to a tracked vec
            d = t["dst"]
            if args:
                v = self.vec_of(args[0]) if (isinstance(args[0], tuple) and args[0][0] == "ref" and args[0][1]) else None
                if v is not None:
                    if c.endswith("Vec::<T, A>::push"):
                        st[v] = "NT" if const_value(args[1]) == 0 else "U"
                    elif c.endswith("Vec::<T, A>::extend_from_slice"):
                        st[v] = "NT" if self.nt_expr(args[1], b) else "U"
                    elif c.endswith("Extend::extend"):
                        w = None
                        a1 = t["args"][1]
                        if a1.get("k") in ("copy", "move") and not a1["p"].get("p"):
                            w = self.prov.root_local(a1)
                        st[v] = "NT" if (w in self.vecs and st.get(w) == "NT") else "U"
                    elif c.endswith(UNCHANGED):
                        pass
                    else:
                        st[v] = "U"
            if not d.get("p") and d["l"] in self.vecs:
                e = ("call", c, tuple(args), b)
                st[d["l"]] = "NT" if self.nt_expr(e, b) else "U"
        return st

    def state_at(self, v, bb, idx):
        if self._in is None:
            self.compute()
        st = dict(self._in.get(bb, {x: "U" for x in self.vecs}))
        st = self.transfer_block(bb, st, upto=idx if idx != "term" else "term")
        return st.get(v, "U")

    # ---- scanner idiom --------------------------------------------------------------------------------------
    def scanner_dominates(self, bb, src):
        """bb is dominated by `*byte == 0` and `ind == len - 1` edges, len being the length of the sink's source."""
        has_zero = has_last = False
        cs = canon(strip_refs(src))
        for sb in self.cfg.live_blocks():
            if self.cfg.term(sb)["k"] != "switch":
                continue
            for e in self.cfg.succ[sb]:
                if not self.cfg.edge_dominates(e, bb):
                    continue
                for f in self.ctx.edge_facts(e):
                    if f[0] == "cmp" and f[1] == "Eq":
                        for x, y in ((f[2], f[3]), (f[3], f[2])):
                            if const_value(y) == 0 and any(z[0] == "call" and (z[1] or "").endswith("Iterator::next") for z in walk_deep(x, self.prov)):
                                has_zero = True
                            ys = strip_casts(y)
                            if isinstance(ys, tuple) and ys[0] == "bin" and ys[1] == "Sub" and const_value(ys[3]) == 1:
                                for z in walk_deep(ys[2], self.prov):
                                    if z[0] == "call" and (z[1] or "").endswith("::len") and z[2]:
                                        has_last = True
                            # the same position test moved across: ind + 1 == len
                            xs = strip_casts(x)
                            if isinstance(xs, tuple) and xs[0] == "bin" and xs[1] == "Add" and const_value(xs[3]) == 1 and any(z[0] == "call" and (z[1] or "").endswith("Iterator::next") for z in walk_deep(xs[2], self.prov)) and \
                                    isinstance(ys, tuple) and ys[0] == "call" and (ys[1] or "").endswith("::len"):
                                has_last = True
        if has_zero and has_last:
            return True
        # the same test through an iterator adaptor: the FIRST NUL's position (iter().position(|b| *b == 0)) is the last index:
        # `pos + 1 == len` or `pos == len - 1` on a dominating edge, on the Some(pos) arm
        for sb in self.cfg.live_blocks():
            if self.cfg.term(sb)["k"] != "switch":
                continue
            for e in self.cfg.succ[sb]:
                if not self.cfg.edge_dominates(e, bb):
                    continue
                for f in self.ctx.edge_facts(e):
                    if f[0] == "cmp" and f[1] == "Eq":
                        for x, y in ((f[2], f[3]), (f[3], f[2])):
                            pos = _first_nul_position(x, self.prov, self.prog)
                            if pos is None:
                                continue
                            # ... over the very bytes that reach the sink
                            its = [z for z in walk_deep(pos[0], self.prov, limit=80) if z[0] == "call" and (z[1] or "").endswith("::iter") and z[2]]
                            if not any(self.same_source(z[2][0], src) or canon(strip_refs(z[2][0])).replace("*", "") in cs.replace("*", "") or cs.replace("*", "") in canon(strip_refs(z[2][0])).replace("*", "") for z in its):
                                continue
                            ys = strip_casts(y)
                            want_sub = 1 - pos[1]       # pos + 1 == len  <=> pos == len - 1
                            is_len = lambda z: any(w[0] == "call" and (w[1] or "").endswith("::len") for w in walk_deep(z, self.prov, limit=40))  # noqa: E731
                            if want_sub == 0 and is_len(ys) and not (isinstance(ys, tuple) and ys[0] == "bin"):
                                return True
                            if want_sub == 1 and isinstance(ys, tuple) and ys[0] == "bin" and ys[1] == "Sub" and const_value(ys[3]) == 1 and is_len(ys[2]):
                                return True
        return False


def _is_some_ref_nul(e, prov):
    """a constant `Some(&0u8)` (promoted): its memory is one pointer whose pointee is the single byte 0"""
    for z in walk_deep(e, prov, limit=30):
        if z[0] == "const" and len(z) > 5 and z[5] and len(z[5]) == 1 and tuple(z[5][0][1]) == (0,) and "Option<&u8>" in str(z[3]).replace(" ", "").replace("'static", "").replace("&'_", "&"):
            return True
        if z[0] == "const" and len(z) > 5 and z[5] and len(z[5]) == 1 and tuple(z[5][0][1]) == (0,) and "Option" in str(z[3]):
            return True
    return False


def _first_nul_position(e, prov, prog):
    """e is `(iter(..).position(|b| *b == 0) as Some).0` (+ small constant): returns (source expression, added constant) or None"""
    e = strip_casts(e)
    add = 0
    if isinstance(e, tuple) and e[0] == "bin" and e[1] == "Add" and const_value(e[3]) is not None:
        add = const_value(e[3])
        e = strip_casts(e[2])
    n = 0
    while isinstance(e, tuple) and e and e[0] in ("field", "downcast", "deref", "ref", "addr") and n < 8:
        e = strip_casts(e[2] if e[0] in ("ref", "addr") else e[1])
        n += 1
    if not (isinstance(e, tuple) and e[0] == "call" and (e[1] or "").endswith("Iterator::position") and len(e[2]) == 2):
        return None
    clo = [z for z in walk_deep(e[2][1], prov, limit=40) if z[0] == "agg" and z[1] == "closure"]
    if not clo or clo[0][2] not in prog.fns:
        return None
    c2 = prog.ctx(clo[0][2])
    rets = [strip_casts(v) for v in c2.ret_expr().values()]
    is_zero_test = len(rets) == 1 and isinstance(rets[0], tuple) and rets[0][0] == "bin" and rets[0][1] == "Eq" and 0 in (const_value(rets[0][2]), const_value(rets[0][3])) and \
        any(z[0] == "param" and z[1] == 2 for z in walk_deep(rets[0], c2.prov, limit=40))
    if not is_zero_test:
        return None
    src = [z for z in walk_deep(e[2][0], prov, limit=40) if z[0] == "call" and (z[1] or "").endswith(("<impl [T]>::iter", "Vec::<T, A>::iter", "Deref::deref"))]
    return (e[2][0], add)


def strip_refs(e):
    while isinstance(e, tuple) and e[0] in ("ref", "addr", "deref", "cast"):
        e = e[2] if e[0] in ("ref", "addr", "cast") else e[1]
    return e


def mentions_len(e, c):
    return any(z[0] == "call" and (z[1] or "").endswith("::len") or (z[0] == "un" and z[1] == "PtrMetadata") or z[0] == "len" for z in walk_deep(e, c.prov))


def check_scanners(ck, prog, rule="C10.6", names=(("rusl::string::strlen::buf_strlen", True), ("rusl::string::strlen::strlen", False))):
    """the length scanners: shared by C10.6 and C07.4 (argument and environment strings are measured by strlen)"""
    # ---- C10.6 the length scanners the transfer table trusts: the index they return is one at which the byte was compared equal to 0,
    # reached by counting up from 0 one position at a time (so it is the FIRST terminator); buf_strlen fails only at the end of the buffer
    from ..engine import panics as _pn
    for nm, is_buf in names:
        sf = prog.fns.get(nm)
        if not ck.anchor(rule, nm.split("::")[-1], sf):
            continue
        sc = prog.ctx(sf)
        n_ret = 0
        for b in sf["blocks"]:
            if b.get("cleanup") or b["id"] not in sc.cfg.live_blocks():
                continue
            for i, st in enumerate(b["stmts"]):
                if not (st["k"] == "assign" and st["dst"]["l"] == 0 and not st["dst"].get("p")):
                    continue
                rv = strip_casts(sc.prov.rvalue(st["rv"], (b["id"], i)))
                if is_buf and isinstance(rv, tuple) and rv[0] == "agg" and rv[2] == "Err":
                    facts = _pn.dominating_facts(sc, b["id"])
                    at_end = any(f[0] == "cmp" and f[1] in ("Ge", "Eq") and mentions_len(f[3], sc) for f in facts)
                    ck.ob(rule, f"{nm.split('::')[-1]}|not-terminated-only-at-the-end", at_end, fn=nm, site=sc.site(b["id"]), detail="buf_strlen may report a missing terminator only after the whole buffer was scanned")
                    continue
                idx = rv[3][0] if is_buf and isinstance(rv, tuple) and rv[0] == "agg" and rv[2] == "Ok" and rv[3] else (rv if not is_buf else None)
                if idx is None:
                    continue
                n_ret += 1
                idx = strip_casts(idx)
                facts = _pn.dominating_facts(sc, b["id"])
                # the compared value is a load THROUGH the returned index: buf[idx], *s.add(idx), s.add(idx).read()
                at_nul = any(f[0] == "cmp" and f[1] == "Eq" and fold(f[3]) == 0 and
                             any((z[0] == "index" and canon(strip_casts(z[2])) == canon(idx)) or
                                 (z[0] == "call" and (z[1] or "").endswith("::add") and len(z[2]) == 2 and canon(strip_casts(z[2][1])) == canon(idx)) for z in walk_deep(f[2], sc.prov, limit=30)) for f in facts)
                defs = [strip_casts(d) for d in sc.prov.expand(idx)] if isinstance(idx, tuple) and idx[0] == "var" else []
                counts = len(defs) == 2 and any(fold(d) == 0 for d in defs) and any(isinstance(d, tuple) and d[0] == "bin" and d[1] in ("Add", "AddWithOverflow", "AddUnchecked") and fold(d[3]) == 1 and canon(strip_casts(d[2])) == canon(idx) for d in defs)
                ck.ob(rule, f"{nm.split('::')[-1]}|returns-the-index-of-a-byte-compared-equal-to-nul", at_nul, fn=nm, site=sc.site(b["id"]),
                      detail=f"the returned length {show(idx)} must be an index at which the byte was just compared equal to 0 (a word-at-a-time shortcut that only infers a zero byte does not establish it)")
                ck.ob(rule, f"{nm.split('::')[-1]}|scans-every-position-from-zero", counts, fn=nm, site=sc.site(b["id"]),
                      detail=f"the returned index must be a counter started at 0 and increased by exactly 1 (so the terminator found is the first one); definitions: {[show(d) for d in defs]}")
        # the same scan written with a moving pointer: the answer is `cursor - start` (offset_from), the cursor starts at the string's start,
        # moves by one element at a time, and the answer is given only where the byte AT the cursor was just compared equal to 0
        if not is_buf:
            for bb, t in sc.cfg.calls(lambda t: (t.get("callee") or "").endswith(("::offset_from_unsigned", "::offset_from", "::sub_ptr", "::byte_offset_from")) and t["dst"]["l"] == 0 and not t["dst"].get("p")):
                a = sc.args(bb)
                cur, base = strip_casts(a[0]), strip_casts(a[1])
                n_ret += 1
                facts = _pn.dominating_facts(sc, bb)
                at_nul = any(f[0] == "cmp" and f[1] == "Eq" and fold(f[3]) == 0 and
                             any((z[0] == "deref" and canon(strip_casts(z[1])) == canon(cur)) or
                                 (z[0] == "call" and (z[1] or "").endswith("::read") and z[2] and canon(strip_casts(z[2][0])) == canon(cur)) for z in walk_deep(f[2], sc.prov, limit=30)) for f in facts)
                defs = [strip_casts(d) for d in sc.prov.expand(cur)] if isinstance(cur, tuple) and cur[0] == "var" else []
                counts = len(defs) == 2 and any(canon(d) == canon(base) for d in defs) and isinstance(base, tuple) and base[0] == "param" and \
                    any(isinstance(d, tuple) and d[0] == "call" and (d[1] or "").endswith(("::add", "::byte_add", "::offset")) and fold(d[2][1]) == 1 and canon(strip_casts(d[2][0])) == canon(cur) for d in defs)
                ck.ob(rule, f"{nm.split('::')[-1]}|returns-the-index-of-a-byte-compared-equal-to-nul", at_nul, fn=nm, site=sc.site(bb),
                      detail=f"the returned distance {show(cur)} - {show(base)} must end at a byte that was just compared equal to 0")
                ck.ob(rule, f"{nm.split('::')[-1]}|scans-every-position-from-zero", counts, fn=nm, site=sc.site(bb),
                      detail=f"the cursor must start at the string's start and move by exactly one byte; definitions: {[show(d) for d in defs]}")
        ck.floor(rule, f"{nm.split('::')[-1]} success returns", n_ret, 1)


def run_one(ck, prog):
    n_sinks = 0
    for p, fn in sorted(prog.fns.items()):
        if fn["crate"] not in ("rusl", "tiny_std") or fn.get("unsafe"):
            continue
        if fn["kind"] == "Closure" and prog.fns.get(fn.get("parent", ""), {}).get("unsafe"):
            continue
        if fn.get("const") and p.endswith("from_str_checked"):
            # const-context constructor: validated by const_null_term_validate (C10.2), panics = compile error
            continue
        sinks = find_sinks(prog, fn)
        if not sinks:
            continue
        ctx = prog.ctx(fn)
        nt = NT(prog, ctx)
        k = 0
        for (bb, idx, kind, operand, sp) in sinks:
            if bb not in ctx.cfg.live_blocks():
                continue
            n_sinks += 1
            at = (bb, idx if idx != "term" else len(ctx.cfg.block(bb)["stmts"]))
            e = ctx.prov.operand(operand, at)
            ok = False
            how = ""
            # (1) vec typestate
            rl = ctx.prov.root_local(operand) if operand.get("k") in ("copy", "move") and not operand["p"].get("p") else None
            if rl in nt.vecs:
                st = nt.state_at(rl, bb, idx)
                ok = st == "NT"
                how = f"vector state {st}"
            if not ok and nt.nt_expr(e, bb):
                ok, how = True, "NT expression"
            if not ok and nt.scanner_dominates(bb, e):
                ok, how = True, "scanner idiom"
            key = f"{p}|{kind}#{k}"
            k += 1
            ck.ob("C10.1", key, ok, fn=p, site=span_str(sp),
                  detail=f"bytes {show(e)} become a UnixStr/UnixString here but are not known to end with NUL on every path ({how or 'no terminator evidence'}); the kernel would read past the intended string")
    ck.floor("C10.1", "sinks in safe code", n_sinks, {"A": 14, "B": 14, "C": 3}.get(ck.config, 3))

    # ---- C10.2 rejection edges ---------------------------------------------------------------------------------
    for nm in (USTRING + "::try_from_vec", USTRING + "::try_from_bytes", USTR + "::try_from_bytes"):
        fn = prog.fns.get(nm)
        if fn is None:
            if "String" in nm and ck.config == "C":
                continue
            ck.anchor("C10.2", nm, fn)
            continue
        ctx = prog.ctx(fn)
        # on the `ind != len-1` edge under `byte == 0`, an Err is returned
        found = False
        for sb in ctx.cfg.live_blocks():
            if ctx.cfg.term(sb)["k"] != "switch":
                continue
            for e in ctx.cfg.succ[sb]:
                for f in ctx.edge_facts(e):
                    if f[0] == "cmp" and f[1] == "Ne":
                        ys = [strip_casts(f[2]), strip_casts(f[3])]
                        moved = any(isinstance(y, tuple) and y[0] == "bin" and y[1] == "Add" and const_value(y[3]) == 1 for y in ys) and any(isinstance(y, tuple) and y[0] == "call" and (y[1] or "").endswith("::len") for y in ys)
                        if moved or any(isinstance(y, tuple) and y[0] == "bin" and y[1] == "Sub" and const_value(y[3]) == 1 for y in ys) or \
                                any(_first_nul_position(y, ctx.prov, prog) is not None for y in ys):
                            r = ctx.cfg.reachable_from(e.dst)
                            errs = [b for b in r if any(s["k"] == "assign" and s["dst"]["l"] == 0 and s["rv"]["k"] == "agg" and s["rv"].get("variant") == "Err" for s in ctx.cfg.block(b)["stmts"])]
                            oks = [b for b in r if any(s["k"] == "assign" and s["dst"]["l"] == 0 and s["rv"]["k"] == "agg" and s["rv"].get("variant") == "Ok" for s in ctx.cfg.block(b)["stmts"])]
                            if errs and not oks:
                                found = True
        ck.ob("C10.2", f"interior-nul-rejected|{nm}", found, fn=nm, detail="a NUL found before the last position must lead to Err (never to a string with an interior NUL)")
    v = prog.fns.get("rusl::string::unix_str::UnixStr::from_str_checked")
    if ck.anchor("C10.2", "from_str_checked", v):
        ctx = prog.ctx(v)
        val = [bb for bb, t in ctx.cfg.calls(lambda t: (t.get("callee") or "").endswith("const_null_term_validate"))]
        casts = [b["id"] for b in v["blocks"] for s in b["stmts"] if s["k"] == "assign" and s["rv"]["k"] == "cast" and s["rv"]["ck"] == "transmute"]
        ck.ob("C10.2", "const-validator-dominates-transmute", bool(val) and bool(casts) and all(ctx.cfg.dominates(val[0], c) and c != val[0] for c in casts), fn=v["path"],
              detail="from_str_checked must validate (const_null_term_validate) before transmuting")
    cv = [f for p, f in prog.fns.items() if p.endswith("const_null_term_validate")]
    if ck.anchor("C10.2", "const_null_term_validate", cv):
        ctx = prog.ctx(cv[0])
        panics = [bb for bb, t in ctx.cfg.calls(lambda t: "panic" in (t.get("callee") or ""))]
        ck.ob("C10.2", "const-validator-asserts", len(panics) >= 2, fn=cv[0]["path"], detail=f"the const validator must reject both a missing terminator and an interior NUL (assertion sites: {len(panics)})")

    check_scanners(ck, prog)

    # ---- C10.5 unchecked sinks inside private unsafe helpers: the obligation is discharged here, across the call ------------------------
    # `unsafe fn` helpers that are not public can only be reached from this crate's safe API, so their *_unchecked sinks are part of
    # "every UnixStr handed out / to the kernel by safe code is terminated". Two audited idioms:
    #   I1  &buf[..=i] right after `buf[i] = 0`          (nothing else stored into buf before the sink)
    #   I2  from_raw_parts(P, len(B) + 1) with P, B parameters: every call site passes P = <&UnixStr parameter>.as_ptr() and a B whose
    #       length is strlen(P), i.e. the slice ends exactly at that string's own terminator
    n5 = 0
    for p, fn in sorted(prog.fns.items()):
        if fn["crate"] not in ("rusl", "tiny_std") or not fn.get("unsafe") or fn.get("vis") == "Public" or fn.get("is_test"):
            continue
        ctx = None
        for b in fn["blocks"]:
            t = b["term"]
            if t["k"] != "call" or b.get("cleanup") or not (t.get("callee") or "").endswith(("UnixStr::from_bytes_unchecked", "UnixStr::from_str_unchecked")):
                continue
            ctx = ctx or prog.ctx(fn)
            cfg = ctx.cfg
            if b["id"] not in cfg.live_blocks():
                continue
            n5 += 1
            arg = ctx.args(b["id"])[0]
            key = f"{p}|unchecked-sink#{n5}"
            idx_calls = [z for z in walk_deep(arg, ctx.prov, limit=80) if z[0] == "call" and (z[1] or "").endswith("Index::index")]
            raw = [z for z in walk_deep(arg, ctx.prov, limit=80) if z[0] == "call" and (z[1] or "").endswith("slice::raw::from_raw_parts")]
            if idx_calls and any(str(r[1]).endswith("RangeToInclusive") for z in idx_calls for r in walk_deep(z[2][1], ctx.prov, limit=40) if r[0] == "agg"):
                # I1: a store of 0 into the same buffer at the same index dominates the sink, and every other element store dominated by it comes after the sink
                z = idx_calls[0]
                rng = [r for r in walk_deep(z[2][1], ctx.prov, limit=40) if r[0] == "agg"][0]
                iexpr = canon(rng[3][0])
                stores = []
                for b2 in fn["blocks"]:
                    if b2["id"] not in cfg.live_blocks() or b2.get("cleanup"):
                        continue
                    for i2, st in enumerate(b2["stmts"]):
                        if st["k"] == "assign" and st["dst"].get("p") and any(pe["k"] == "index" for pe in st["dst"]["p"]):
                            v = fold(ctx.prov.rvalue(st["rv"], (b2["id"], i2)))
                            stores.append((b2["id"], v))
                nul = [sb for sb, v in stores if v == 0 and cfg.dominates(sb, b["id"])]
                others = [sb for sb, v in stores if v != 0 and nul and cfg.dominates(nul[0], sb) and not cfg.dominates(b["id"], sb)]
                ck.ob("C10.5", key + "|I1-prefix-ends-at-stored-nul", bool(nul) and not others, fn=p, site=ctx.site(b["id"]),
                      detail=f"&buf[..={iexpr}] is turned into a UnixStr: a store of 0 at that index must dominate it and nothing else may be stored into the buffer in between (NUL stores dominating: {len(nul)}, intervening stores: {len(others)})")
            elif raw:
                r = raw[0]
                P, L = strip_casts(r[2][0]), strip_casts(r[2][1])
                shape = isinstance(P, tuple) and P[0] == "param" and isinstance(L, tuple) and L[0] == "bin" and L[1] == "Add" and fold(L[3]) == 1 and \
                    isinstance(strip_casts(L[2]), tuple) and strip_casts(L[2])[0] == "call" and (strip_casts(L[2])[1] or "").endswith("::len") and \
                    any(w[0] == "param" for w in walk_deep(strip_casts(L[2])[2][0], ctx.prov, limit=20))
                ok = shape
                why = f"from_raw_parts({show(P)}, {show(L)})"
                if shape:
                    pk = P[1]
                    bj = [w for w in walk_deep(strip_casts(L[2])[2][0], ctx.prov, limit=20) if w[0] == "param"][0][1]
                    sites = 0
                    for q, g in prog.fns.items():
                        for b3 in g["blocks"]:
                            t3 = b3["term"]
                            if t3["k"] == "call" and t3.get("callee") == p and not b3.get("cleanup"):
                                c3 = prog.ctx(g)
                                if b3["id"] not in c3.cfg.live_blocks():
                                    continue
                                sites += 1
                                a3 = c3.args(b3["id"])
                                ptr_ok = isinstance(strip_casts(a3[pk - 1]), tuple) and strip_casts(a3[pk - 1])[0] == "call" and (strip_casts(a3[pk - 1])[1] or "").endswith("UnixStr::as_ptr")
                                want_len = "strlen(" + canon(strip_casts(a3[pk - 1])) + ")"
                                lens = [canon(w[2][1]) for w in walk_deep(a3[bj - 1], c3.prov, limit=80) if w[0] == "call" and (w[1] or "").endswith("from_raw_parts_mut") and len(w[2]) == 2]
                                vecs = [w for w in walk_deep(a3[bj - 1], c3.prov, limit=80) if w[0] == "call" and (w[1] or "").endswith(("Vec::<T, A>::as_mut_slice", "Vec::<T, A>::as_slice"))]
                                if vecs:
                                    for sb, t4 in c3.cfg.calls(lambda t4: (t4.get("callee") or "").endswith("Vec::<T, A>::set_len")):
                                        if c3.cfg.dominates(sb, b3["id"]) and canon(c3.args(sb)[0]) == canon(vecs[0][2][0]):
                                            lens.append(canon(c3.args(sb)[1]))
                                len_ok = bool(lens) and all(x == want_len for x in lens)
                                ck.ob("C10.5", f"{key}|I2-call-site|{q}#{sites}", ptr_ok and len_ok, fn=q, site=c3.site(b3["id"]),
                                      detail=f"the helper rebuilds the string from (pointer, len(buffer) + 1): the pointer must be <&UnixStr>.as_ptr() ({show(a3[pk - 1])}) and the buffer exactly strlen(pointer) bytes long (lengths found {lens}, required {want_len}); otherwise the last byte of the rebuilt string is not that string's terminator")
                    ok = sites >= 1
                    why += f"; call sites checked: {sites}"
                ck.ob("C10.5", key + "|I2-raw-parts-of-a-terminated-string", ok, fn=p, site=ctx.site(b["id"]), detail=why)
            else:
                ck.ob("C10.5", key + "|audited-idiom", False, fn=p, site=ctx.site(b["id"]),
                      detail=f"`{show(arg)[:160]}` is handed to {t['callee'].split('::')[-1]} inside a private unsafe helper and matches neither audited idiom (prefix ending at a NUL just stored; raw parts of a UnixStr up to its own terminator): nothing establishes that its last byte is NUL")
    ck.floor("C10.5", "unchecked sinks in private unsafe helpers", n5, 2 if ck.config != "C" else 0)

    # ---- C10.3 privacy ----------------------------------------------------------------------------------------------
    for adt in (USTR, USTRING):
        a = prog.adts.get(adt)
        if a is None:
            continue
        for va in a["variants"]:
            for f in va["fields"]:
                ck.ob("C10.3", f"field-private|{adt.split('::')[-1]}.{f['name']}", "Public" not in f["vis"], detail=f"the byte field must not be public ({f['vis']})")


def find_sinks(prog, fn):
    """[(bb, idx|'term', kind, operand, span)]"""
    out = []
    for b in fn["blocks"]:
        if b.get("cleanup"):
            continue
        for i, s in enumerate(b["stmts"]):
            if s["k"] != "assign":
                continue
            rv = s["rv"]
            if rv["k"] == "agg" and rv.get("adt") == USTRING and rv["ops"]:
                out.append((b["id"], i, "UnixString(..)", rv["ops"][0], s["sp"]))
            if rv["k"] == "cast":
                ty = rv["ty"]
                if rv["ck"] == "transmute" and (ty == USTRING or ty.endswith("&" + USTR) or ty == "&" + USTR or USTR in ty and ty.startswith("&")):
                    out.append((b["id"], i, "transmute", rv["a"], s["sp"]))
                elif ty in ("*const " + USTR, "*mut " + USTR) and rv["ck"].startswith("PtrToPtr"):
                    out.append((b["id"], i, "ptr-cast", rv["a"], s["sp"]))
        t = b["term"]
        if t["k"] == "call" and (t.get("callee") or "").endswith(("UnixStr::from_bytes_unchecked", "UnixStr::from_str_unchecked")) and t["args"]:
            out.append((b["id"], "term", "unchecked-ctor", t["args"][0], t["sp"]))
        if t["k"] == "call" and (t.get("callee") or "") == "core::intrinsics::transmute" and t["args"]:
            dty = fn["locals"][t["dst"]["l"]]["ty"] if not t["dst"].get("p") else ""
            if dty == USTRING or dty == "&" + USTR:
                out.append((b["id"], "term", "transmute", t["args"][0], t["sp"]))
    return out
