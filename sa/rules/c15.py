"""C15 — Read/Write helpers: EINTR-only retry, length bookkeeping, UTF-8 guard, progress by exactly n."""
from ..engine.prov import const_value, strip_casts, walk, walk_deep, show
from ..engine.dtable import canon
from ..engine.fold import fold
from ..engine import panics
from .c12 import mentions

CONFIGS_QUICK = ["A", "B", "C"]
CONFIGS_THOROUGH = ["A", "B", "C", "R", "X"]

EXPLANATION = (
    "Decided (static, MIR): C15.1 in default_read_to_end (main loop and probe loop), default_read_exact and Write::write_all the Err edge of each reader/writer call has a branch on matches_errno(EINTR) whose true edge leads back to the call "
    "(the retry exists), no path repeats the call after an error without passing that true edge, and the other edge returns the error; "
    "C15.2 length bookkeeping in linear form: the unsafe set_len argument is filled_len + old len of the same vector, the carried `initialized` is initialized_len - filled_len, every Ok returns buf.len() - start_len, the probe appends exactly probe[..n] with n the read's result; "
    "C15.3 in append_to_string the guard's length is advanced only on the from_utf8(..).is_err() == false edge, the checked range starts at the old length, and the guard's Drop sets the vector's length to it on every path (invalid data is cut back); "
    "C15.4 write_all and read_exact re-slice with [n..] where n is exactly the Ok payload of the call just made; Ok(0) in write_all returns Err; the only Ok(()) of either is dominated by buf.is_empty(); "
    "C15.5 write_fmt returns the adapter's stored error when one was stored. "
    "C15.2 also: read_to_end reports success only after a read of zero bytes; C15.3 also: after valid data append_to_string returns the reader's own count; C15.5 also: every fmt::Write method of the adapter delivers through write_all and stores the writer's error. "
    "C15.3 also: read_to_string hands the caller's own reader to read_to_end (no adapter that looks at the chunks). "
    "C15.4 also: read_exact calls the reader only while the buffer is not yet full. C15.2 also: the side read into the probe array is made only with the vector full; C15.6 try_print (behind print!/eprint!/dbg!) has no reachable panic and re-slices the unwritten remainder as bytes, never as &str. NOT decided: byte-exact delivery for every response script (a universally quantified run-time statement).")
ASSUMPTIONS = ["ReadBuf keeps filled <= initialized <= capacity (its own assertions)", "Errno::EINTR == 4"]

IO = "tiny_std::io::"
LOOPS = [
    (IO + "default_read_to_end", lambda t: (t.get("callee") or "").endswith("io::default_read_buf"), "main"),
    (IO + "default_read_to_end", lambda t: (t.get("callee") or "").endswith("io::Read::read"), "probe"),
    (IO + "default_read_exact", lambda t: (t.get("callee") or "").endswith("io::Read::read"), "read_exact"),
    (IO + "Write::write_all", lambda t: (t.get("callee") or "").endswith("io::Write::write"), "write_all"),
]


def run(ck, progs, tier):
    for cfgname, prog in progs.items():
        ck.set_config(prog)
        run_one(ck, prog)
        check_print_loop(ck, prog)


# panic sites of try_print that hold by a loop invariant the discharge rules do not derive (read, one line of reason each)
PRINT_REVIEWED = {
    r"call:index\(\*as_bytes\(.*\),RangeFrom::RangeFrom\(var:_\)\)": "flushed is 0 on entry and the loop returns as soon as flushed >= len, so flushed < len at every slice",
    r"overflow_add\(var:_,.*write\(p1,.*": "flushed < len <= isize::MAX and a write count is at most isize::MAX: the sum fits in usize",
}


def check_print_loop(ck, prog):
    """C15.6 the write loop behind print!/eprint!/dbg! (try_print) has no reachable panic: a short write may end inside a multi-byte
    character, so the remainder is re-sliced as BYTES (a `&str` re-slice at the kernel's count panics on a non-boundary) - the helper
    must deliver the rest or return the error, not unwind."""
    from ..engine.cfg import span_str
    fn = prog.fns.get("tiny_std::unix::print::try_print")
    if fn is None:
        if ck.config == "C":
            return
        ck.anchor("C15.6", "try_print", fn)
        return
    ctx = prog.ctx(fn)
    n = 0
    import re as _re
    blank = lambda k: _re.sub(r"var:[A-Za-z_0-9]+", "var:_", k)  # noqa: E731
    for st in panics.sites(ctx):
        n += 1
        ok, why = panics.discharge(ctx, st)
        rk = next((k_ for k_ in PRINT_REVIEWED if _re.fullmatch(k_, blank(st["key"]))), None)
        if not ok and rk is not None:
            ok, why = True, "reviewed: " + PRINT_REVIEWED[rk]
        ck.ob("C15.6", f"try_print|{st['key']}", ok, fn=fn["path"], site=span_str(st["sp"]), detail=("reachable panic: " if not ok else "") + why)
    # string slicing by a run-time offset is a panic site of its own kind (char boundary), whatever the bounds
    strs = [(bb, t.get("callee")) for bb, t in ctx.cfg.calls(lambda t: (t.get("resolved") or t.get("callee") or "").endswith(("for str>::index", "for str>::index_mut", "str::<impl str>::split_at", "str::<impl str>::split_at_mut")))]
    ck.ob("C15.6", "try_print|remainder-resliced-as-bytes", not strs, fn=fn["path"], site=ctx.site(strs[0][0]) if strs else None,
          detail="the unwritten remainder is taken by slicing a `str` at the count the kernel returned: a short write that ends inside a multi-byte character panics (slice the bytes instead)")
    ck.floor("C15.6", "potential panic sites in try_print", n, 1)


def err_edges_of_call(ctx, bb):
    out = []
    for sb in ctx.cfg.live_blocks():
        if ctx.cfg.term(sb)["k"] != "switch":
            continue
        for e in ctx.cfg.succ[sb]:
            for f in ctx.edge_facts(e):
                if f[0] == "variant" and f[2] == "Err" and isinstance(strip_casts(f[1]), tuple) and strip_casts(f[1])[0] == "call" and strip_casts(f[1])[3] == bb:
                    out.append(e)
    return out


def eintr_edges(ctx, val, of_call=None):
    out = []
    for sb in ctx.cfg.live_blocks():
        if ctx.cfg.term(sb)["k"] != "switch":
            continue
        for e in ctx.cfg.succ[sb]:
            for f in ctx.edge_facts(e):
                if f[0] == "truth" and f[2] is val and isinstance(f[1], tuple) and f[1][0] == "call" and (f[1][1] or "").endswith("Error::matches_errno"):
                    a = f[1][2]
                    if len(a) == 2 and (fold(a[1]) == 4 or mentions(a[1], ctx.prov, lambda z: z[0] == "const" and z[2] and z[2].endswith("EINTR"))):
                        if of_call is None or mentions(a[0], ctx.prov, lambda z: z[0] == "call" and z[3] == of_call):
                            out.append(e)
    return out


def run_one(ck, prog):
    n_loops = 0
    for fname, pred, label in LOOPS:
        fn = prog.fns.get(fname)
        if fn is None:
            if ck.config == "C" and "read_to_end" in fname:
                continue
            ck.anchor("C15.1", fname, fn)
            continue
        ctx = prog.ctx(fn)
        cfg = ctx.cfg
        calls = [bb for bb, t in cfg.calls(pred)]
        if fname.endswith("default_read_to_end"):
            # the one-call helper default_read_buf may be written out in place: the main loop's read is then the reader call that fills
            # the ReadBuf's unfilled part, the probe's the one that fills the stack array
            into_readbuf = lambda bb: mentions(ctx.args(bb)[1], ctx.prov, lambda z: z[0] == "call" and (z[1] or "").endswith(("initialize_unfilled", "initialize_unfilled_to")))  # noqa: E731
            reads = [bb for bb, t in cfg.calls(lambda t: (t.get("callee") or "").endswith("io::Read::read"))]
            if label == "main" and not calls:
                calls = [bb for bb in reads if into_readbuf(bb)]
            if label == "probe":
                calls = [bb for bb in reads if not into_readbuf(bb)]
        ck.ob("C15.1", f"{label}|anchor|call", len(calls) == 1, fn=fname, detail=f"reader/writer call sites for the {label} loop: {len(calls)}")
        if len(calls) != 1:
            continue
        cb = calls[0]
        n_loops += 1
        errs = err_edges_of_call(ctx, cb)
        tr, fa = eintr_edges(ctx, True, cb), eintr_edges(ctx, False, cb)
        ck.ob("C15.1", f"{label}|in-loop", cfg.in_cycle(cb), fn=fname, site=ctx.site(cb), detail="the call must sit in a retry loop")
        ck.ob("C15.1", f"{label}|err-edge", bool(errs), fn=fname, detail="no Err edge found for the call's result")
        retry = [e for e in tr if any(e.src in cfg.reachable_from(x.dst) for x in errs) and cb in cfg.reachable_from(e.dst)]
        ck.ob("C15.1", f"{label}|eintr-retries", bool(retry), fn=fname, site=ctx.site(cb), detail="an interrupted call (EINTR) must be retried: no matches_errno(EINTR) == true edge leads back to the call")
        # ... and ONLY retried: from the EINTR edge no return is reachable without issuing the call again (falling through to the
        # "nothing was transferred -> end of stream" test would turn an interruption into a silent, short Ok)
        ends = []
        # the loop guard(s) dominating the call are re-evaluated on state the EINTR round did not change: their exit edges are not
        # counted (`while !buf.is_empty()` was true before the interrupted call and still is)
        guard_exits = set()
        for sb in cfg.live_blocks():
            if cfg.term(sb)["k"] == "switch" and cfg.dominates(sb, cb) and cfg.in_cycle(sb):
                for e2 in cfg.succ[sb]:
                    if cb not in cfg.reachable_from(e2.dst, avoid={sb}):
                        guard_exits.add((e2.src, e2.dst))
        for e in retry:
            r0 = cfg.reachable_from(e.dst, avoid={cb}, avoid_edges=guard_exits)
            ends += [rb for rb in cfg.return_blocks() if rb in r0]
        ck.ob("C15.1", f"{label}|eintr-never-ends-the-transfer", bool(retry) and not ends, fn=fname, site=ctx.site(cb),
              detail="after EINTR the function can return without repeating the call: an interrupted read looks like end-of-stream (Ok with only the bytes so far), an interrupted write like completion")
        cut = {(e.src, e.dst) for e in tr}
        from ..engine import pathsens
        for x in errs:
            r = pathsens.reachable(ctx, x.dst, avoid_edges=cut, via_edge=(x.src, x.dst))
            ck.ob("C15.1", f"{label}|retry-only-on-eintr", cb not in r, fn=fname, site=ctx.site(cb), detail="after an error other than EINTR the call is repeated (the error is swallowed)")
            ck.ob("C15.1", f"{label}|other-errors-returned", any(rb in r for rb in cfg.return_blocks()), fn=fname, detail="errors other than EINTR must be returned")
        # the returned error is the call's error
        for e in fa:
            if any(e.src in cfg.reachable_from(x.dst) for x in errs):
                r = cfg.reachable_from(e.dst, avoid={cb})
                same = False
                for b in r:
                    for i, s in enumerate(cfg.block(b)["stmts"]):
                        if s["k"] == "assign" and s["dst"]["l"] == 0 and s["rv"]["k"] == "agg" and s["rv"].get("variant") == "Err":
                            ev = ctx.prov.operand(s["rv"]["ops"][0], (b, i))
                            if mentions(ev, ctx.prov, lambda z: z[0] == "call" and z[3] == cb):
                                same = True
                    # ... or handed on whole: `other => return other` followed by `?` (from_residual of the call's own result)
                    tb = cfg.term(b)
                    if tb["k"] == "call" and tb["dst"]["l"] == 0 and (tb.get("callee") or "").endswith("FromResidual::from_residual") and \
                            mentions(ctx.args(b)[0], ctx.prov, lambda z: z[0] == "call" and z[3] == cb):
                        same = True
                ck.ob("C15.1", f"{label}|same-error-surfaced", same, fn=fname, detail="the error returned must be the reader's/writer's own error")
    ck.floor("C15.1", "retry loops", n_loops, 4 if ck.config != "C" else 2)

    # ---- C15.2 length bookkeeping -----------------------------------------------------------------------------------
    fn = prog.fns.get(IO + "default_read_to_end")
    if fn is not None:
        ctx = prog.ctx(fn)
        cfg = ctx.cfg
        sl = [bb for bb, t in cfg.calls(lambda t: (t.get("callee") or "").endswith("Vec::<T, A>::set_len"))]
        ck.ob("C15.2", "one-set_len", len(sl) == 1, fn=fn["path"], detail=f"set_len sites: {len(sl)}")
        for bb in sl:
            a = ctx.args(bb)
            n = strip_casts(a[1])
            ok = isinstance(n, tuple) and n[0] == "bin" and n[1] == "Add"
            if ok:
                sides = [n[2], n[3]]
                has_filled = any(mentions(x, ctx.prov, lambda z: z[0] == "call" and (z[1] or "").endswith("ReadBuf::<'a>::filled_len")) for x in sides)
                has_len = any(mentions(x, ctx.prov, lambda z: z[0] == "call" and (z[1] or "").endswith("Vec::<T, A>::len")) for x in sides)
                no_other = not any(mentions(x, ctx.prov, lambda z: z[0] == "bin" and z is not n) for x in sides)
                ok = has_filled and has_len and no_other
            ck.ob("C15.2", "set_len=len+filled", ok, fn=fn["path"], site=ctx.site(bb), detail=f"the new length must be buf.len() + read_buf.filled_len(); found {show(a[1])}")
            vec_ok = mentions(a[0], ctx.prov, lambda z: z[0] == "param" and z[1] == 2)
            rb = [b2 for b2, t in cfg.calls(lambda t: (t.get("callee") or "").endswith("spare_capacity_mut"))]
            ck.ob("C15.2", "read-buf-over-same-vector", vec_ok and len(rb) == 1 and mentions(ctx.args(rb[0])[0], ctx.prov, lambda z: z[0] == "param" and z[1] == 2), fn=fn["path"], detail="the ReadBuf must be built over the spare capacity of the vector whose length is then set")
        # initialized = initialized_len - filled_len
        init_ok = False
        for b in fn["blocks"]:
            for i, s in enumerate(b["stmts"]):
                if s["k"] == "assign" and not s["dst"].get("p"):
                    e = ctx.prov.rvalue(s["rv"], (b["id"], i))
                    if isinstance(e, tuple) and e[0] == "bin" and e[1] in ("Sub", "SubWithOverflow") and mentions(e[2], ctx.prov, lambda z: z[0] == "call" and (z[1] or "").endswith("initialized_len")) and \
                            mentions(e[3], ctx.prov, lambda z: z[0] == "call" and (z[1] or "").endswith("filled_len")):
                        init_ok = True
        ck.ob("C15.2", "initialized=initialized_len-filled_len", init_ok, fn=fn["path"], detail="the carried `initialized` count must be initialized_len() - filled_len()")
        # every Ok returns buf.len() - start_len
        n_ok = 0
        for b in fn["blocks"]:
            if b["id"] not in cfg.live_blocks() or b.get("cleanup"):
                continue
            for i, s in enumerate(b["stmts"]):
                if s["k"] == "assign" and s["dst"]["l"] == 0 and s["rv"]["k"] == "agg" and s["rv"].get("variant") == "Ok":
                    n_ok += 1
                    e = strip_casts(ctx.prov.operand(s["rv"]["ops"][0], (b["id"], i)))
                    ok = isinstance(e, tuple) and e[0] == "bin" and e[1] == "Sub" and mentions(e[2], ctx.prov, lambda z: z[0] == "call" and (z[1] or "").endswith("Vec::<T, A>::len")) and \
                        isinstance(strip_casts(e[3]), tuple) and strip_casts(e[3])[0] == "call" and (strip_casts(e[3])[1] or "").endswith("Vec::<T, A>::len") and cfg.dominates(strip_casts(e[3])[3], 1) or \
                        (isinstance(e, tuple) and e[0] == "bin" and e[1] == "Sub" and strip_casts(e[3])[0] == "call" and strip_casts(e[3])[3] == 0)
                    ck.ob("C15.2", f"ok-returns-appended-count|{n_ok}", bool(ok), fn=fn["path"], detail=f"Ok must carry buf.len() - start_len (start_len taken on entry); found {show(e)}")
        ck.floor("C15.2", "Ok returns", n_ok, 2)
        # the end of the stream is a read that delivered nothing - a short read is not the end
        def is_count(x):
            return mentions(x, ctx.prov, lambda z: z[0] == "call" and (z[1] or "").endswith(("ReadBuf::<'a>::filled_len", "io::Read::read")))
        zero_edges = set()
        for sb in cfg.live_blocks():
            if cfg.term(sb)["k"] != "switch":
                continue
            for e in cfg.succ[sb]:
                for f in ctx.edge_facts(e):
                    if f[0] != "cmp":
                        continue
                    l, r = fold(f[2]), fold(f[3])
                    if (f[1] == "Eq" and ((r == 0 and is_count(f[2])) or (l == 0 and is_count(f[3])))) or (f[1] == "Lt" and r == 1 and is_count(f[2])) or (f[1] == "Le" and r == 0 and is_count(f[2])):
                        zero_edges.add((e.src, e.dst))
        ok_blocks = [b["id"] for b in fn["blocks"] if b["id"] in cfg.live_blocks() and not b.get("cleanup") and
                     any(s["k"] == "assign" and s["dst"]["l"] == 0 and not s["dst"].get("p") and s["rv"]["k"] == "agg" and s["rv"].get("variant") == "Ok" for s in b["stmts"])]
        without = cfg.reachable_from(0, avoid_edges=zero_edges)
        ck.ob("C15.2", "ok-only-after-a-read-of-zero", bool(zero_edges) and bool(ok_blocks) and not any(b in without for b in ok_blocks), fn=fn["path"],
              detail="read_to_end may report success only after a read delivered 0 bytes (filled_len() == 0 or the probe's Ok(0)); a read that merely left room is not the end of the data")
        # the side read into the probe array happens only with the vector FULL (len == capacity): the `initialized` count carried into the
        # next round describes the spare capacity as the last ReadBuf left it; a probe that lands in place while room is left shrinks the
        # spare region under that count (the next assume_init then exceeds the slice: a panic instead of data or an error)
        probes = [bb for bb, t in cfg.calls(lambda t: (t.get("callee") or "").endswith("Read::read"))
                  if not mentions(ctx.args(bb)[1], ctx.prov, lambda z: z[0] == "param" and z[1] == 2)]
        for pb in probes:
            fs = panics.dominating_facts(ctx, pb)
            full = any(f[0] == "cmp" and f[1] == "Eq" and {True} == {("len(" in show(x) or "capacity(" in show(x)) for x in (f[2], f[3])} and
                       ("len(" in show(f[2])) != ("len(" in show(f[3])) for f in fs)
            ck.ob("C15.2", "probe-read-only-on-a-full-buffer", full, fn=fn["path"], site=ctx.site(pb),
                  detail="the read into the probe array is made although `buf.len() == buf.capacity()` was not established: the carried `initialized` count no longer describes the spare capacity afterwards")
        # the probe appends exactly probe[..n]
        ext = [bb for bb, t in cfg.calls(lambda t: (t.get("callee") or "").endswith("extend_from_slice"))]
        for bb in ext:
            a = ctx.args(bb)
            ok = False
            for x in walk_deep(a[1], ctx.prov):
                if x[0] == "agg" and str(x[1]).endswith("RangeTo") and x[3]:
                    en = strip_casts(x[3][0])
                    ok = isinstance(en, tuple) and en[0] == "field" and mentions(en, ctx.prov, lambda z: z[0] == "call" and (z[1] or "").endswith("io::Read::read"))
            ck.ob("C15.2", "probe-appends-exactly-n", ok, fn=fn["path"], site=ctx.site(bb), detail="the probe bytes appended must be probe[..n] with n the read's result")

    # ---- C15.3 UTF-8 guard -------------------------------------------------------------------------------------------------
    ap = prog.fns.get(IO + "append_to_string")
    if ap is not None:
        ctx = prog.ctx(ap)
        cfg = ctx.cfg
        adv = []
        for b in ap["blocks"]:
            if b["id"] not in cfg.live_blocks() or b.get("cleanup"):
                continue
            for i, s in enumerate(b["stmts"]):
                if s["k"] == "assign" and s["dst"].get("p") and any(pe["k"] == "field" and pe.get("n") == "len" and (pe.get("adt") or "").endswith("Guard") for pe in s["dst"]["p"]):
                    adv.append(b["id"])
        ck.ob("C15.3", "guard-length-advanced-once", len(adv) == 1, fn=ap["path"], detail=f"assignments to the guard's length after construction: {len(adv)}")
        utf = [bb for bb, t in cfg.calls(lambda t: (t.get("callee") or "").endswith("str::converts::from_utf8"))]
        ck.ob("C15.3", "one-utf8-check", len(utf) == 1, fn=ap["path"], detail=f"from_utf8 sites {len(utf)}")
        if adv and utf:
            facts = panics.dominating_facts(ctx, adv[0])
            valid = any((f[0] == "truth" and f[2] is False and isinstance(f[1], tuple) and f[1][0] == "call" and (f[1][1] or "").endswith("::is_err") and mentions(f[1], ctx.prov, lambda z: z[0] == "call" and z[3] == utf[0])) or
                        (f[0] == "variant" and f[2] == "Ok" and mentions(f[1], ctx.prov, lambda z: z[0] == "call" and z[3] == utf[0])) for f in facts)
            ck.ob("C15.3", "length-advanced-only-if-valid-utf8", valid, fn=ap["path"], detail="the guard's length may only be advanced after from_utf8 succeeded; otherwise invalid bytes stay in the String")
            a = ctx.args(utf[0])
            starts = False
            for x in walk_deep(a[0], ctx.prov):
                if x[0] == "agg" and str(x[1]).endswith("RangeFrom") and x[3]:
                    st = x[3][0]
                    if mentions(st, ctx.prov, lambda z: z[0] == "field" and z[2] == "len"):
                        starts = True
                    # `g.len` is read back from the guard, which was built from buf.len() taken BEFORE the reader ran
                    lens = [z for z in walk_deep(st, ctx.prov) if z[0] == "call" and (z[1] or "").endswith("::len")]
                    fcall = [bb for bb, t in cfg.calls(lambda t: (t.get("callee") or "").endswith("FnOnce::call_once"))]
                    if lens and fcall and all(cfg.dominates(z[3], fcall[0]) and z[3] != fcall[0] for z in lens):
                        starts = True
            ck.ob("C15.3", "checked-range-starts-at-old-length", starts, fn=ap["path"], detail="only the appended part [old_len..] is validated (and must be)")
        # valid data: the count returned is the reader's own count (the bytes it appended), unchanged; or the difference of the lengths
        fcall = [bb for bb, t in cfg.calls(lambda t: (t.get("callee") or "").endswith("FnOnce::call_once"))]
        if adv and len(fcall) == 1:
            after = cfg.reachable_from(adv[0])
            defs = []
            for b in ap["blocks"]:
                if b["id"] not in after or b.get("cleanup"):
                    continue
                for i, s2 in enumerate(b["stmts"]):
                    if s2["k"] == "assign" and s2["dst"]["l"] == 0 and not s2["dst"].get("p"):
                        defs.append(ctx.prov.rvalue(s2["rv"], (b["id"], i)))
                t = b["term"]
                if t["k"] == "call" and t.get("dst") and t["dst"]["l"] == 0 and not t["dst"].get("p"):
                    defs.append(("call", t.get("callee"), tuple(ctx.args(b["id"])), b["id"]))

            def own_count(e):
                e = strip_casts(e)
                if isinstance(e, tuple) and e[0] == "call" and e[3] == fcall[0]:
                    return True
                if isinstance(e, tuple) and e[0] == "agg" and e[2] == "Ok" and e[3]:
                    d = strip_casts(e[3][0])
                    return isinstance(d, tuple) and d[0] == "bin" and d[1] == "Sub" and mentions(d[2], ctx.prov, lambda z: z[0] == "call" and (z[1] or "").endswith("::len")) and \
                        (mentions(d[3], ctx.prov, lambda z: z[0] == "field" and z[2] == "len") or any(z[0] == "call" and (z[1] or "").endswith("::len") and cfg.dominates(z[3], fcall[0]) and z[3] != fcall[0] for z in walk_deep(d[3], ctx.prov)))
                return False
            ck.ob("C15.3", "valid-data-returns-the-readers-count", bool(defs) and all(own_count(d) for d in defs), fn=ap["path"],
                  detail=f"after valid data the result must be the reader closure's own result (the appended count); found {[show(d)[:80] for d in defs]}")
        gd = [f for p, f in prog.fns.items() if "append_to_string::Guard" in p and p.endswith("Drop>::drop")]
        if ck.anchor("C15.3", "Guard::drop", gd):
            c2 = prog.ctx(gd[0])
            sl = [bb for bb, t in c2.cfg.calls(lambda t: (t.get("callee") or "").endswith("set_len"))]
            ok = len(sl) == 1 and all(c2.cfg.dominates(sl[0], rb) for rb in c2.cfg.return_blocks()) and mentions(c2.args(sl[0])[1], c2.prov, lambda z: z[0] == "field" and z[2] == "len")
            ck.ob("C15.3", "guard-drop-truncates", ok, fn=gd[0]["path"], detail="the guard's Drop must set the vector's length to the guarded length on every path")
    elif ck.config != "C":
        ck.anchor("C15.3", "append_to_string", None)

    # read_to_string is read_to_end on the caller's own reader plus the final validation: the closure handed to append_to_string calls
    # default_read_to_end on the captured reader itself (an adapter in between that looks at the chunks - a per-chunk UTF-8 check, say -
    # sees characters cut at chunk boundaries and changes what is delivered)
    rts = prog.fns.get(IO + "default_read_to_string")
    if rts is not None:
        c9 = prog.ctx(rts)
        ats = [bb for bb, t in c9.cfg.calls(lambda t: (t.get("callee") or "").endswith("io::append_to_string"))]
        ok9 = False
        why9 = "append_to_string call not found"
        if len(ats) == 1:
            a9 = c9.args(ats[0])
            clo = next((z for z in walk_deep(a9[1], c9.prov, limit=40) if z[0] == "agg" and isinstance(z[2], str) and z[2] in prog.fns), None) if len(a9) > 1 else None
            why9 = "the second argument is not a closure of this function"
            if clo is not None:
                caps = clo[3] or ()
                cc9 = prog.ctx(prog.fns[clo[2]])
                rte = [bb for bb, t in cc9.cfg.calls(lambda t: (t.get("callee") or "").endswith("io::default_read_to_end"))]
                why9 = f"default_read_to_end calls in the closure: {len(rte)}"
                if len(rte) == 1 and all(cc9.cfg.dominates(rte[0], rb) for rb in cc9.cfg.return_blocks()):
                    r0 = cc9.args(rte[0])[0]
                    capf = next((z for z in walk_deep(r0, cc9.prov, limit=30) if z[0] == "field" and isinstance(strip_casts(z[1]), tuple) and strip_casts(z[1])[0] in ("param", "deref")), None)
                    k9 = int(capf[2]) if capf is not None and str(capf[2]).isdigit() else None
                    src = caps[k9] if k9 is not None and k9 < len(caps) else None
                    s9 = strip_casts(src) if src is not None else None
                    while isinstance(s9, tuple) and s9 and s9[0] in ("ref", "addr", "deref"):
                        s9 = strip_casts(s9[2] if s9[0] != "deref" else s9[1])
                    ok9 = isinstance(s9, tuple) and s9[0] == "param" and s9[1] == 1
                    why9 = f"the reader handed to default_read_to_end is {show(src) if src is not None else show(r0)}, not the caller's reader"
        ck.ob("C15.3", "read_to_string-reads-the-callers-reader-itself", ok9, fn=rts["path"], detail=why9)
    elif ck.config != "C":
        ck.anchor("C15.3", "default_read_to_string", None)

    # ---- C15.4 progress by exactly n -----------------------------------------------------------------------------------------
    for fname, callsuf, label in ((IO + "Write::write_all", "io::Write::write", "write_all"), (IO + "default_read_exact", "io::Read::read", "read_exact")):
        fn = prog.fns.get(fname)
        if fn is None:
            continue
        ctx = prog.ctx(fn)
        cfg = ctx.cfg
        calls = [bb for bb, t in cfg.calls(lambda t: (t.get("callee") or "").endswith(callsuf))]
        idx = [bb for bb, t in cfg.calls(lambda t: (t.get("callee") or "").endswith(("Index::index", "IndexMut::index_mut")))]
        ok = False
        for bb in idx:
            a = ctx.args(bb)
            rng = strip_casts(a[1])
            if isinstance(rng, tuple) and rng[0] == "agg" and str(rng[1]).endswith("RangeFrom") and rng[3]:
                st = strip_casts(rng[3][0])
                if isinstance(st, tuple) and st[0] == "field" and calls and mentions(st, ctx.prov, lambda z: z[0] == "call" and z[3] == calls[0]) and not mentions(st, ctx.prov, lambda z: z[0] == "bin"):
                    ok = True
        # the same progress kept as an offset: the call gets buf[done..] of the caller's buffer, `done` starts at 0 and its only update
        # is `done += n` with n exactly the count the call just reported
        offset_var = None
        if not (ok and len(idx) == 1) and calls:
            barg = ctx.args(calls[0])[1] if len(ctx.args(calls[0])) > 1 else None
            for x in (walk_deep(barg, ctx.prov, limit=120) if barg is not None else ()):
                if x[0] == "call" and (x[1] or "").endswith(("Index::index", "IndexMut::index_mut")) and len(x[2]) == 2 and mentions(x[2][0], ctx.prov, lambda z: z[0] == "param" and z[1] == 2):
                    rng = strip_casts(x[2][1])
                    if isinstance(rng, tuple) and rng[0] == "agg" and str(rng[1]).endswith("RangeFrom") and rng[3]:
                        w = strip_casts(rng[3][0])
                        if isinstance(w, tuple) and w[0] == "var":
                            defs = [strip_casts(d) for d in ctx.prov.expand(w)]
                            good = bool(defs)
                            for d in defs:
                                if fold(d) == 0:
                                    continue
                                if isinstance(d, tuple) and d[0] == "field" and isinstance(d[1], tuple) and d[1][0] == "bin":
                                    d = d[1]
                                if isinstance(d, tuple) and d[0] == "bin" and d[1] in ("Add", "AddWithOverflow") and isinstance(strip_casts(d[2]), tuple) and strip_casts(d[2])[0] == "var" and strip_casts(d[2])[1] == w[1]:
                                    n = strip_casts(d[3])
                                    if isinstance(n, tuple) and n[0] == "field" and isinstance(n[1], tuple) and n[1][0] == "downcast" and isinstance(n[1][1], tuple) and n[1][1][0] == "call" and n[1][1][3] == calls[0]:
                                        continue
                                good = False
                            if good and any(fold(d) == 0 for d in defs) and len(defs) >= 2:
                                offset_var = w
        if offset_var is not None:
            ok, idx = True, [0]
        ck.ob("C15.4", f"{label}|advance-by-exactly-n", ok and len(idx) == 1, fn=fname, detail="the buffer must be re-sliced with [n..] (or an offset advanced by n), n being exactly the count the call just reported")
        # the reader / writer is asked only while something is still missing: the call is dominated by `!buf.is_empty()` (or offset != len) -
        # an extra zero-length call after the last byte consumes a response that belongs to the caller's next operation
        for cb_ in calls:
            fs_ = panics.dominating_facts(ctx, cb_)
            wanted = any(f[0] == "truth" and f[2] is False and isinstance(f[1], tuple) and f[1][0] == "call" and (f[1][1] or "").endswith("::is_empty") for f in fs_) or \
                any(f[0] == "cmp" and f[1] in ("Ne", "Lt", "Gt") and offset_var is not None and any(isinstance(strip_casts(x), tuple) and strip_casts(x)[0] == "var" and strip_casts(x)[1] == offset_var[1] for x in (f[2], f[3])) for f in fs_)
            ck.ob("C15.4", f"{label}|called-only-while-something-is-missing", wanted, fn=fname, site=ctx.site(cb_), detail="the transfer call can be made with nothing left to transfer (an empty buffer): one call too many")
        # Ok(()) only when the buffer is empty
        oks = [b["id"] for b in fn["blocks"] if b["id"] in cfg.live_blocks() and not b.get("cleanup") and any(s["k"] == "assign" and s["dst"]["l"] == 0 and s["rv"]["k"] == "agg" and s["rv"].get("variant") == "Ok" for s in b["stmts"])]
        for ob in oks:
            facts = panics.dominating_facts(ctx, ob)
            emp = any(f[0] == "truth" and isinstance(f[1], tuple) and f[1][0] == "call" and (f[1][1] or "").endswith("::is_empty") and (f[2] is True) for f in facts)
            if not emp and offset_var is not None:
                # offset form: done == buf.len()
                def is_off(z):
                    z = strip_casts(z)
                    return isinstance(z, tuple) and z[0] == "var" and z[1] == offset_var[1]

                def is_total(z):
                    return mentions(z, ctx.prov, lambda y: (y[0] == "call" and (y[1] or "").endswith("<impl [T]>::len")) or y[0] == "len") and mentions(z, ctx.prov, lambda y: y[0] == "param" and y[1] == 2) and not mentions(z, ctx.prov, lambda y: y[0] == "bin")
                emp = any(f[0] == "cmp" and f[1] == "Eq" and ((is_off(f[2]) and is_total(f[3])) or (is_off(f[3]) and is_total(f[2]))) for f in facts)
            ck.ob("C15.4", f"{label}|ok-only-when-done", emp, fn=fname, detail="Ok(()) must be dominated by buf.is_empty() == true (nothing left to transfer)")
        ck.ob("C15.4", f"{label}|anchor|ok", len(oks) == 1, fn=fname, detail=f"Ok returns: {len(oks)}")
        if label == "write_all" and calls:
            # Ok(0) -> Err
            z = False
            for sb in cfg.live_blocks():
                if cfg.term(sb)["k"] != "switch":
                    continue
                for e in cfg.succ[sb]:
                    for f in ctx.edge_facts(e):
                        if f[0] == "cmp" and f[1] == "Eq" and 0 in (fold(f[2]), fold(f[3])) and any(mentions(x, ctx.prov, lambda w: w[0] == "call" and w[3] == calls[0]) for x in (f[2], f[3])):
                            r = cfg.reachable_from(e.dst, avoid={calls[0]})
                            errs = [b for b in r if any(s["k"] == "assign" and s["dst"]["l"] == 0 and s["rv"]["k"] == "agg" and s["rv"].get("variant") == "Err" for s in cfg.block(b)["stmts"])]
                            if errs and calls[0] not in cfg.reachable_from(e.dst):
                                z = True
            ck.ob("C15.4", "write_all|zero-write-is-error", z, fn=fname, detail="a writer that accepts 0 bytes must produce an error (not spin forever, not report success)")

    # ---- C15.6 single-shot transfers happen only inside the retry loops --------------------------------------------------------------------
    # A bare `write` may be short and a bare `read` may be interrupted: the provided helpers may reach the user's reader/writer
    # only through the loops checked above (write_all; default_read_exact / default_read_to_end).
    allowed = {IO + "Write::write": {IO + "Write::write_all"},
               IO + "Read::read": {IO + "default_read_exact", IO + "default_read_to_end"}}
    n_sites = 0
    for p2, f2 in prog.fns.items():
        if not p2.startswith(IO):
            continue
        for b in f2["blocks"]:
            t = b["term"]
            if t["k"] != "call" or b.get("cleanup"):
                continue
            callee = t.get("callee") or ""
            if callee in allowed:
                n_sites += 1
                host = p2.split("::{closure")[0]
                from ..engine.cfg import span_str
                ck.ob("C15.6", f"single-shot-only-in-retry-loop|{p2.replace(IO, '')}|{callee.split('::')[-1]}", host in allowed[callee], fn=p2, site=span_str(t.get("sp")),
                      detail=f"`{callee.split('::')[-2]}::{callee.split('::')[-1]}` is called directly from {p2.replace(IO, '')}: a short write loses the rest of the data (an interrupted call is surfaced) - deliver through write_all / the read loops")
    ck.floor("C15.6", "single-shot call sites in the io helpers", n_sites, 2 if ck.config == "C" else 3)

    # ---- C15.5 write_fmt surfaces the stored error -----------------------------------------------------------------------------------
    wf = prog.fns.get(IO + "Write::write_fmt")
    if ck.anchor("C15.5", "write_fmt", wf):
        ctx = prog.ctx(wf)
        cfg = ctx.cfg
        fw = [bb for bb, t in cfg.calls(lambda t: (t.get("callee") or "") == "core::fmt::write")]
        ck.ob("C15.5", "anchor|fmt::write", len(fw) == 1, fn=wf["path"], detail=f"fmt::write sites {len(fw)}")
        if fw:
            errs = err_edges_of_call(ctx, fw[0])
            ok = False
            for e in errs:
                r = cfg.reachable_from(e.dst)
                for b in r:
                    for i, s in enumerate(cfg.block(b)["stmts"]):
                        if s["k"] == "assign" and s["dst"]["l"] == 0:
                            ev = ctx.prov.rvalue(s["rv"], (b, i))
                            if mentions(ev, ctx.prov, lambda z: (z[0] == "field" and z[2] == "error") or (z[0] == "place" and z[2] == "output")):
                                ok = True
            ck.ob("C15.5", "stored-error-returned", ok, fn=wf["path"], detail="when formatting fails the adapter's stored I/O error must be returned")
        # whichever fmt::Write method of the adapter reaches the writer does so through write_all and keeps the writer's error
        n_ad = 0
        for p2, f2 in prog.fns.items():
            if "write_fmt::Adapter" not in p2 or "core::fmt::Write" not in p2:
                continue
            c3 = prog.ctx(f2)
            for bb, t in c3.cfg.calls(lambda t: "io::Write::" in (t.get("callee") or "")):
                n_ad += 1
                meth = t["callee"].split("::")[-1]
                ck.ob("C15.5", f"adapter|{p2.split('::')[-1]}|delivers-through-write_all", meth == "write_all", fn=p2, site=c3.site(bb), detail=f"the adapter calls Write::{meth}; a short write would lose the rest of the text")
                errs = err_edges_of_call(c3, bb)
                keeps = {b["id"] for b in f2["blocks"] if any(s["k"] == "assign" and s["dst"].get("p") and any(pe["k"] == "field" and pe.get("n") == "error" for pe in s["dst"]["p"]) for s in b["stmts"])}
                lost = [e for e in errs if set(c3.cfg.return_blocks()) & c3.cfg.reachable_from(e.dst, avoid=keeps)]
                kept_by_closure = False
                if not errs:
                    # `write_all(..).map_err(|e| { self.error = Err(e); fmt::Error })`: the closure runs exactly on the error and stores it
                    for mb, mt in c3.cfg.calls(lambda t: (t.get("callee") or "").endswith("Result::<T, E>::map_err")):
                        ma = c3.args(mb)
                        if len(ma) == 2 and isinstance(strip_casts(ma[0]), tuple) and strip_casts(ma[0])[0] == "call" and strip_casts(ma[0])[3] == bb:
                            clo = strip_casts(ma[1])
                            cpath = clo[2] if isinstance(clo, tuple) and clo[0] == "agg" and isinstance(clo[2], str) else None
                            cf = prog.fns.get(cpath) if cpath else None
                            if cf is not None:
                                # the closure captures `&mut self.error` and stores Err(e) through it on its only path
                                caps_error = any(mentions(op, c3.prov, lambda z: z[0] == "field" and z[2] == "error") for op in (clo[3] or ()))
                                cc0 = prog.ctx(cf)
                                def _is_err_store(cx, b, i2, s2):
                                    if s2["k"] != "assign" or not s2["dst"].get("p") or s2["dst"]["p"][0]["k"] != "deref":
                                        return False
                                    v2 = strip_casts(cx.prov.rvalue(s2["rv"], (b["id"], i2)))
                                    return isinstance(v2, tuple) and v2[0] == "agg" and v2[2] == "Err"
                                through_capture = [b["id"] for b in cf["blocks"] if not b.get("cleanup") for i2, s2 in enumerate(b["stmts"]) if _is_err_store(cc0, b, i2, s2)]
                                if caps_error and through_capture and all(any(cc0.cfg.dominates(sb, rb) for sb in through_capture) for rb in cc0.cfg.return_blocks()):
                                    kept_by_closure = True
                                st_all = [1 for b in cf["blocks"] if not b.get("cleanup") for s2 in b["stmts"] if s2["k"] == "assign" and s2["dst"].get("p") and any(pe["k"] == "field" and pe.get("n") == "error" for pe in s2["dst"]["p"])]
                                cc = prog.ctx(cf)
                                on_all = all(any(cc.cfg.dominates(b["id"], rb) for b in cf["blocks"] if any(s2["k"] == "assign" and s2["dst"].get("p") and any(pe["k"] == "field" and pe.get("n") == "error" for pe in s2["dst"]["p"]) for s2 in b["stmts"])) for rb in cc.cfg.return_blocks())
                                kept_by_closure = kept_by_closure or (bool(st_all) and on_all)
                ck.ob("C15.5", f"adapter|{p2.split('::')[-1]}|writer-error-kept", (bool(errs) and not lost) or kept_by_closure, fn=p2, site=c3.site(bb),
                      detail="when the writer fails the adapter must store that error (self.error = Err(e)) before reporting fmt::Error; otherwise write_fmt answers with a generic formatter error")
        ck.floor("C15.5", "adapter calls of the writer", n_ad, 1)
        ad = [f for p, f in prog.fns.items() if "write_fmt::Adapter" in p and p.endswith("write_str")]
        if ck.anchor("C15.5", "Adapter::write_str", ad):
            c2 = prog.ctx(ad[0])
            wa = [bb for bb, t in c2.cfg.calls(lambda t: (t.get("callee") or "").endswith("Write::write_all"))]
            stores = [1 for f3 in [ad[0]] + [f4 for p4, f4 in prog.fns.items() if p4.startswith(ad[0]["path"] + "::{closure")] for b in f3["blocks"] for s in b["stmts"] if s["k"] == "assign" and s["dst"].get("p") and any(pe["k"] == "field" and pe.get("n") == "error" for pe in s["dst"]["p"])]
            if not stores:
                for p4, f4 in prog.fns.items():
                    if p4.startswith(ad[0]["path"] + "::{closure"):
                        c4 = prog.ctx(f4)
                        for b in f4["blocks"]:
                            for i4, s4 in enumerate(b["stmts"]):
                                if s4["k"] == "assign" and s4["dst"].get("p") and s4["dst"]["p"][0]["k"] == "deref":
                                    v4 = strip_casts(c4.prov.rvalue(s4["rv"], (b["id"], i4)))
                                    if isinstance(v4, tuple) and v4[0] == "agg" and v4[2] == "Err":
                                        stores.append(1)
            ck.ob("C15.5", "adapter-uses-write_all-and-stores-error", len(wa) == 1 and len(stores) >= 1, fn=ad[0]["path"], detail="the adapter must deliver with write_all and keep the error")
