//! Shape corpus for C20 (owned by /verif, never added to the repository): further members of the family the property
//! quantifies over - the help letter declared as an option, documented and undocumented tags in every order, every
//! field kind in one struct, nested and optional subcommands.  The checker copies this file into a scratch copy of the
//! tree under analysis as tiny-cli/tests/verif_shapes.rs and analyses the MIR of the parsers the derive generates for
//! it; nothing here is ever executed.
#![allow(dead_code)]
#![allow(clippy::all)]
use tiny_cli::{ArgParse, Subcommand};
use tiny_std::{UnixStr, UnixString};

/// The help letter is a declared option of this grammar
#[derive(ArgParse, Debug, Eq, PartialEq)]
#[cli(help_path = "connect")]
pub struct ShortHIsDeclared {
    /// Host to connect to
    #[cli(short = "h", long = "host")]
    host: &'static str,
    /// Port to connect to
    #[cli(short = "p", long = "port")]
    port: Option<u16>,
    #[cli(short = "v")]
    verbose: bool,
}

/// Names that merely start like the help names
#[derive(ArgParse, Debug, Eq, PartialEq)]
#[cli(help_path = "near-help")]
pub struct NearHelpNames {
    #[cli(short = "H", long = "helper")]
    helper: Option<i64>,
    #[cli(long = "he")]
    he: bool,
}

/// Every field kind in one grammar
#[derive(ArgParse, Debug, Eq, PartialEq)]
#[cli(help_path = "all-kinds")]
pub struct AllKinds {
    /// required, long only
    #[cli(long = "req")]
    req: u8,
    /// optional, both aliases
    #[cli(short = "o", long = "opt")]
    opt: Option<i64>,
    /// repeated
    #[cli(short = "r", long = "rep")]
    rep: Vec<u32>,
    #[cli(short = "q")]
    quiet: bool,
    #[cli(long = "name")]
    name: UnixString,
    #[cli(long = "borrowed")]
    borrowed: Option<&'static UnixStr>,
    #[cli(subcommand)]
    action: Option<Action>,
}

/// Options of every kind followed by positionals
#[derive(ArgParse, Debug, Eq, PartialEq)]
#[cli(help_path = "positionals")]
pub struct OptionsAndPositionals {
    #[cli(short = "r", long = "rep")]
    rep: Vec<u32>,
    #[cli(short = "o", long = "opt")]
    opt: Option<UnixString>,
    #[cli(short = "q")]
    quiet: bool,
    /// first positional
    first: i32,
    second: &'static UnixStr,
    third: Option<&'static str>,
}

/// Tags with and without documentation, unit and tuple, in every neighbouring order
#[derive(Subcommand, Debug, Eq, PartialEq)]
pub enum Action {
    /// Start the service
    Start,
    /// Stop the service
    Stop,
    Status,
    /// Reload the service configuration
    Reload(ReloadArgs),
    Version,
    Inner(InnerArgs),
    /// last one documented
    Last,
}

#[derive(ArgParse, Debug, Eq, PartialEq)]
#[cli(help_path = "all-kinds, reload")]
pub struct ReloadArgs {
    #[cli(short = "f", long = "force")]
    force: bool,
    file: Option<&'static UnixStr>,
}

/// A subcommand that has a required subcommand of its own
#[derive(ArgParse, Debug, Eq, PartialEq)]
#[cli(help_path = "all-kinds, inner")]
pub struct InnerArgs {
    #[cli(short = "h")]
    height: Option<u32>,
    #[cli(subcommand)]
    leaf: Leaf,
}

#[derive(Subcommand, Debug, Eq, PartialEq)]
pub enum Leaf {
    Alpha,
    /// documented directly after an undocumented unit tag
    BetaGamma,
    /// a tuple tag after a documented unit tag
    Delta(ShortHIsDeclared),
}

/// Only unit tags, each documented
#[derive(Subcommand, Debug, Eq, PartialEq)]
pub enum UnitOnly {
    /// one
    One,
    /// two
    Two,
    /// three
    Three,
}

#[derive(ArgParse, Debug, Eq, PartialEq)]
#[cli(help_path = "unit-only")]
pub struct UnitOnlyHolder {
    #[cli(subcommand)]
    which: UnitOnly,
}

/// A long name of a single character (the dashes belong to the kind of the name, not to its length)
#[derive(ArgParse, Debug, Eq, PartialEq)]
#[cli(help_path = "one-char-long")]
pub struct OneCharLong {
    /// long only, one character
    #[cli(long = "x")]
    x: Option<i64>,
    /// a short alias beside a long name of one character
    #[cli(short = "y", long = "z")]
    y: bool,
}

/// The subcommand member declared FIRST, options after it (the order of declaration is not part of the grammar)
#[derive(ArgParse, Debug, Eq, PartialEq)]
#[cli(help_path = "subcommand-first")]
pub struct SubcommandFirst {
    #[cli(subcommand)]
    which: Option<UnitOnly>,
    /// declared behind the subcommand member
    #[cli(short = "j", long = "jobs")]
    jobs: Option<u32>,
    #[cli(short = "v", long = "verbose")]
    verbose: bool,
}

/// ... and in the middle
#[derive(ArgParse, Debug, Eq, PartialEq)]
#[cli(help_path = "subcommand-middle")]
pub struct SubcommandMiddle {
    #[cli(short = "k", long = "keep")]
    keep: bool,
    #[cli(subcommand)]
    which: UnitOnly,
    #[cli(long = "limit")]
    limit: Option<i32>,
}
