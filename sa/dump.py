#!/usr/bin/env python3
"""Debug helper: dump MIR facts of functions matching a substring. usage: dump.py CONFIG substr [--expr]"""
import sys, os, pickle
sys.path.insert(0, os.path.dirname(os.path.dirname(os.path.abspath(__file__))))
from sa.engine import facts
from sa.engine.cfg import Cfg, span_str
from sa.engine.prov import Prov, show

def op_s(o):
    if o is None: return "None"
    k=o['k']
    if k=='const':
        if 'fn' in o: return f"fn:{o['fn']}"
        if 'bytes' in o: return f"bytes{bytes(o['bytes'])[:30]!r}"
        return f"const {o.get('value')}{'('+o['path']+')' if o.get('path') else ''}:{o.get('ty')}"
    return ('mv ' if k=='move' else '')+pl_s(o['p']) if k in('copy','move') else str(o)
def pl_s(p):
    s=f"_{p['l']}"
    for e in p.get('p',[]):
        k=e['k']
        if k=='deref': s=f"(*{s})"
        elif k=='field': s+=f".{e.get('n',e['i'])}"
        elif k=='downcast': s=f"({s} as {e['v']})"
        elif k=='index': s+=f"[_{e['l']}]"
        else: s+=f".<{k}:{ {x:y for x,y in e.items() if x!='k'} }>"
    return s
def rv_s(r):
    k=r['k']
    if k=='use': return op_s(r['a'])
    if k=='binop': return f"{r['op']}({op_s(r['a'])}, {op_s(r['b'])})"
    if k=='unop': return f"{r['op']}({op_s(r['a'])})"
    if k=='cast': return f"{op_s(r['a'])} as {r['ty']} [{r['ck']}]"
    if k=='ref': return f"&{'mut ' if r['m'] else ''}{pl_s(r['p'])}"
    if k=='rawptr': return f"&raw {r['m']} {pl_s(r['p'])}"
    if k=='discr': return f"discr({pl_s(r['p'])})"
    if k=='agg': return f"{r.get('adt') or r.get('closure') or r['ak']}::{r.get('variant','')}({', '.join(op_s(o) for o in r['ops'])})"
    return str(r)
def dump(fn):
    print(f"== {fn['path']}  [{fn.get('vis')}] {fn.get('sig','')} @{span_str(fn['span'])} inline={fn.get('inline')}")
    if '--locals' in sys.argv: print("   locals:", ", ".join(f"_{l['id']}:{l['ty']}" for l in fn['locals']))
    print("   names:", [(e['n'],pl_s(e['p'])) for e in fn['names']])
    for b in fn['blocks']:
        print(f" bb{b['id']}{' (cleanup)' if b.get('cleanup') else ''}:")
        for s in b['stmts']:
            if s['k']=='assign': print(f"    {pl_s(s['dst'])} = {rv_s(s['rv'])}    // {s['sp']['l']}{' '+s['sp'].get('m','') if s['sp'].get('m') else ''}")
            else: print("    ",{k:v for k,v in s.items() if k!='sp'})
        t=b['term']; k=t['k']
        if k=='call': print(f"    {pl_s(t['dst'])} = CALL {t.get('callee')}{' => '+t['resolved'] if t.get('resolved') else ''}({', '.join(op_s(a) for a in t['args'])}) -> bb{t['t']} unwind {t.get('unwind')}  // {t['sp']['l']} {t['sp'].get('m','')}")
        elif k=='switch': print(f"    SWITCH {op_s(t['discr'])} {t['targets']} otherwise {t['otherwise']}")
        elif k=='drop': print(f"    DROP {pl_s(t['p'])}:{t['ty']} -> bb{t['t']}")
        elif k=='assert': print(f"    ASSERT {op_s(t['cond'])}=={t['expected']} [{t['msg']}] {[op_s(o) for o in t['ops']]} -> bb{t['t']}")
        elif k=='asm': print(f"    ASM {t['template']!r} {t['options']} ops={[(o['dir'],o.get('reg'),op_s(o.get('value')) if o.get('value') else pl_s(o['place']) if o.get('place') else '') for o in t['operands']]} -> {t['targets']}")
        else: print(f"    {k.upper()} {t.get('t','')}")
if __name__=='__main__':
    cfgname=sys.argv[1]; sub=sys.argv[2]
    cache=f"/tmp/verif-dump-{cfgname}.pkl"
    if os.path.exists(cache) and '--fresh' not in sys.argv:
        P=pickle.load(open(cache,'rb'))
    else:
        P=facts.extract_many([cfgname])[cfgname]; pickle.dump(P,open(cache,'wb'))
    for p,fn in P.fns.items():
        if sub in p:
            dump(fn)
            if '--expr' in sys.argv:
                c=Cfg(fn); pv=Prov(fn,c)
                for bb,t in c.calls():
                    at=(bb,len(c.block(bb)['stmts']))
                    print(f"   bb{bb} {t.get('callee')}: ", [show(pv.operand(a,at)) for a in t['args']])
