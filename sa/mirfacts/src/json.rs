// Minimal JSON value + writer (no external crates available to a rustc_private driver).
pub enum J {
    Null,
    Bool(bool),
    Num(i128),
    Str(String),
    Arr(Vec<J>),
    Obj(Vec<(String, J)>),
}

impl J {
    pub fn obj() -> J {
        J::Obj(Vec::new())
    }
    pub fn s(s: &str) -> J {
        J::Str(s.to_string())
    }
    pub fn n(n: i128) -> J {
        J::Num(n)
    }
    pub fn b(b: bool) -> J {
        J::Bool(b)
    }
    pub fn set(&mut self, k: &str, v: J) {
        if let J::Obj(items) = self {
            items.push((k.to_string(), v));
        }
    }
    pub fn write(&self, out: &mut String) {
        match self {
            J::Null => out.push_str("null"),
            J::Bool(true) => out.push_str("true"),
            J::Bool(false) => out.push_str("false"),
            J::Num(n) => {
                // Python's json reads arbitrary-size ints
                out.push_str(&n.to_string());
            }
            J::Str(s) => write_str(s, out),
            J::Arr(v) => {
                out.push('[');
                for (i, x) in v.iter().enumerate() {
                    if i > 0 {
                        out.push(',');
                    }
                    x.write(out);
                }
                out.push(']');
            }
            J::Obj(items) => {
                out.push('{');
                for (i, (k, v)) in items.iter().enumerate() {
                    if i > 0 {
                        out.push(',');
                    }
                    write_str(k, out);
                    out.push(':');
                    v.write(out);
                }
                out.push('}');
            }
        }
    }
}

fn write_str(s: &str, out: &mut String) {
    out.push('"');
    for c in s.chars() {
        match c {
            '"' => out.push_str("\\\""),
            '\\' => out.push_str("\\\\"),
            '\n' => out.push_str("\\n"),
            '\r' => out.push_str("\\r"),
            '\t' => out.push_str("\\t"),
            c if (c as u32) < 0x20 => {
                out.push_str(&format!("\\u{:04x}", c as u32));
            }
            c => out.push(c),
        }
    }
    out.push('"');
}
