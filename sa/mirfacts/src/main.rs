// mirfacts: rustc_private driver that serialises the type-checked program
// (MIR at mir-opt-level 0, drops elaborated) plus crate-level facts to JSON.
// It contains no rule logic.  Output: $MIRFACTS_OUT/<crate>-<pid>.json,
// written once per rustc process.  Any construct the serialiser does not
// know is emitted as {"k":"unknown",...} so that rules fail closed on it.
#![feature(rustc_private)]

extern crate rustc_abi;
extern crate rustc_ast;
extern crate rustc_driver;
extern crate rustc_hir;
extern crate rustc_interface;
extern crate rustc_middle;
extern crate rustc_span;

use rustc_driver::Compilation;
use rustc_hir::def::DefKind;
use rustc_hir::def_id::{DefId, LocalDefId};
use rustc_interface::interface::Compiler;
use rustc_middle::mir::{
    AggregateKind, BasicBlockData, Body, CastKind, Const, ConstValue, Operand, Place, PlaceElem,
    Rvalue, StatementKind, TerminatorKind,
};
use rustc_middle::ty::{self, Ty, TyCtxt, TypeVisitableExt};
use rustc_span::Span;
use std::fmt::Write as _;

macro_rules! pp {
    ($e:expr) => {
        ty::print::with_resolve_crate_name!(ty::print::with_no_visible_paths!(ty::print::with_no_trimmed_paths!($e)))
    };
}

mod json;
use json::J;

struct Cb;

impl rustc_driver::Callbacks for Cb {
    fn after_analysis<'tcx>(&mut self, _c: &Compiler, tcx: TyCtxt<'tcx>) -> Compilation {
        let out_dir = match std::env::var("MIRFACTS_OUT") {
            Ok(d) => d,
            Err(_) => return Compilation::Continue,
        };
        let krate = tcx.crate_name(rustc_hir::def_id::LOCAL_CRATE).to_string();
        let only = std::env::var("MIRFACTS_CRATES").unwrap_or_default();
        if !only.is_empty() && !only.split(',').any(|c| c == krate) {
            return Compilation::Continue;
        }
        let facts = collect(tcx, &krate);
        let path = format!("{}/{}-{}.json", out_dir, krate, std::process::id());
        let mut s = String::new();
        facts.write(&mut s);
        std::fs::write(&path, s).expect("mirfacts: cannot write facts file");
        Compilation::Continue
    }
}

fn main() {
    let mut args: Vec<String> = std::env::args().collect();
    // RUSTC_WORKSPACE_WRAPPER: argv[1] is the real rustc path.
    if args.len() > 1 && (args[1].ends_with("rustc") || args[1].contains("/rustc")) {
        args.remove(1);
    }
    let mut cb = Cb;
    rustc_driver::run_compiler(&args, &mut cb);
}

fn span_j<'tcx>(tcx: TyCtxt<'tcx>, sp: Span) -> J {
    let sm = tcx.sess.source_map();
    let mut root = sp;
    let mut mac: Option<String> = None;
    if sp.from_expansion() {
        let ed = sp.ctxt().outer_expn_data();
        mac = Some(format!("{}", ed.kind.descr()));
        root = sp.source_callsite();
        let mut n = 0;
        while root.from_expansion() && n < 32 {
            root = root.source_callsite();
            n += 1;
        }
    }
    let lo = sm.lookup_char_pos(root.lo());
    let file = match &lo.file.name {
        rustc_span::FileName::Real(r) => match r.local_path() {
            Some(p) => p.display().to_string(),
            None => format!("{:?}", r),
        },
        o => format!("{:?}", o),
    };
    let mut o = J::obj();
    o.set("f", J::s(&file));
    o.set("l", J::n(lo.line as i128));
    if let Some(m) = mac {
        o.set("m", J::s(&m));
        // also the innermost line (inside the macro definition)
        let ilo = sm.lookup_char_pos(sp.lo());
        o.set("il", J::n(ilo.line as i128));
    }
    o
}

fn ty_s<'tcx>(t: Ty<'tcx>) -> String {
    pp!(format!("{}", t))
}

fn path_s<'tcx>(tcx: TyCtxt<'tcx>, d: DefId) -> String {
    pp!(tcx.def_path_str(d))
}

fn collect<'tcx>(tcx: TyCtxt<'tcx>, krate: &str) -> J {
    let mut root = J::obj();
    root.set("crate", J::s(krate));
    root.set(
        "config",
        J::s(&std::env::var("MIRFACTS_CONFIG").unwrap_or_default()),
    );
    root.set("target", J::s(&tcx.sess.target.llvm_target.to_string()));
    root.set("is_test", J::b(tcx.sess.is_test_crate()));
    root.set(
        "debug_assertions",
        J::b(tcx.sess.opts.debug_assertions),
    );
    // cfg features
    let mut feats = Vec::new();
    for (name, val) in tcx.sess.config.iter() {
        if name.as_str() == "feature" {
            if let Some(v) = val {
                feats.push(J::s(v.as_str()));
            }
        }
    }
    root.set("features", J::Arr(feats));

    // crate attributes
    let mut cattrs = Vec::new();
    for a in tcx.hir_krate_attrs() {
        let d = format!("{:?}", a);
        if d.contains("DocComment") {
            continue;
        }
        let short: String = d.chars().take(160).collect();
        cattrs.push(J::s(&short));
    }
    root.set("crate_attrs_dbg", J::Arr(cattrs));
    let mut names = Vec::new();
    {
        use rustc_span::sym;
        let attrs = tcx.hir_krate_attrs();
        let _ = attrs;
        let _ = sym::no_std;
    }
    // Simple textual detection is done in Python over crate_attrs_dbg.
    root.set("crate_attrs", J::Arr(std::mem::take(&mut names)));

    // items: global_asm, consts, statics, adts, impls
    let mut gasm = Vec::new();
    let mut consts = J::obj();
    let mut statics = J::obj();
    let mut adts = J::obj();
    let mut impls = Vec::new();
    for id in tcx.hir_free_items() {
        let item = tcx.hir_item(id);
        let did: DefId = item.owner_id.to_def_id();
        match &item.kind {
            rustc_hir::ItemKind::GlobalAsm { asm, .. } => {
                let mut t = String::new();
                for p in asm.template.iter() {
                    match p {
                        rustc_ast::InlineAsmTemplatePiece::String(s) => t.push_str(s),
                        rustc_ast::InlineAsmTemplatePiece::Placeholder { operand_idx, .. } => {
                            let _ = write!(t, "{{{}}}", operand_idx);
                        }
                    }
                }
                let mut o = J::obj();
                o.set("span", span_j(tcx, item.span));
                o.set("template", J::s(&t));
                gasm.push(o);
            }
            rustc_hir::ItemKind::Static(..) => {
                let mut o = J::obj();
                let ty = tcx.type_of(did).instantiate_identity().skip_norm_wip();
                o.set("ty", J::s(&ty_s(ty)));
                o.set("mutable", J::b(tcx.is_mutable_static(did)));
                o.set("vis", J::s(&vis_s(tcx, did)));
                o.set("span", span_j(tcx, item.span));
                statics.set(&path_s(tcx, did), o);
            }
            rustc_hir::ItemKind::Struct(..)
            | rustc_hir::ItemKind::Enum(..)
            | rustc_hir::ItemKind::Union(..) => {
                let adt = tcx.adt_def(did);
                let mut o = J::obj();
                o.set("kind", J::s(&format!("{:?}", adt.adt_kind())));
                o.set("vis", J::s(&vis_s(tcx, did)));
                o.set("repr", J::s(&format!("{:?}", adt.repr())));
                let mut vs = Vec::new();
                let discrs: Vec<u128> = if adt.is_enum() { adt.discriminants(tcx).map(|(_, d)| d.val).collect() } else { Vec::new() };
                for (vi, v) in adt.variants().iter().enumerate() {
                    let mut vo = J::obj();
                    vo.set("name", J::s(v.name.as_str()));
                    if let Some(d) = discrs.get(vi) {
                        vo.set("discr", J::n(*d as i128));
                    }
                    let mut fs = Vec::new();
                    for f in v.fields.iter() {
                        let mut fo = J::obj();
                        fo.set("name", J::s(f.name.as_str()));
                        let fty = tcx.type_of(f.did).instantiate_identity().skip_norm_wip();
                        fo.set("ty", J::s(&ty_s(fty)));
                        fo.set("vis", J::s(&format!("{:?}", f.vis)));
                        fs.push(fo);
                    }
                    vo.set("fields", J::Arr(fs));
                    vs.push(vo);
                }
                o.set("variants", J::Arr(vs));
                o.set("span", span_j(tcx, item.span));
                adts.set(&path_s(tcx, did), o);
            }
            rustc_hir::ItemKind::Impl(imp) => {
                let mut o = J::obj();
                let self_ty = tcx.type_of(did).instantiate_identity().skip_norm_wip();
                o.set("self", J::s(&ty_s(self_ty)));
                if imp.of_trait.is_some() {
                    let tr = tcx.impl_trait_ref(did).instantiate_identity().skip_norm_wip();
                    o.set("trait", J::s(&path_s(tcx, tr.def_id)));
                    o.set("trait_ref", J::s(&pp!(format!("{}", tr))));
                    o.set(
                        "polarity",
                        J::s(&format!("{:?}", tcx.impl_polarity(did))),
                    );
                } else {
                    o.set("trait", J::Null);
                }
                let preds = tcx.predicates_of(did);
                let mut ps = Vec::new();
                for (p, _) in preds.predicates.iter() {
                    ps.push(J::s(&pp!(format!("{}", p))));
                }
                o.set("where", J::Arr(ps));
                o.set("span", span_j(tcx, item.span));
                impls.push(o);
            }
            _ => {}
        }
    }
    root.set("global_asm", J::Arr(gasm));

    // consts (free + associated) with evaluated scalar values
    for ldid in tcx.hir_crate_items(()).definitions() {
        let did = ldid.to_def_id();
        let dk = tcx.def_kind(did);
        if matches!(dk, DefKind::Const { .. } | DefKind::AssocConst { .. }) {
            let generics = tcx.generics_of(did);
            if generics.count() != 0 || generics.parent_count != 0 {
                // associated consts of generic impls: skip unless parent has no params
                if tcx.generics_of(did).own_params.len() + generics.parent_count != 0 {
                    continue;
                }
            }
            let ty = tcx.type_of(did).instantiate_identity().skip_norm_wip();
            let mut o = J::obj();
            o.set("ty", J::s(&ty_s(ty)));
            if let Ok(v) = tcx.const_eval_poly(did) {
                o.set("value", constvalue_j(tcx, v, ty));
                if let ConstValue::Indirect { alloc_id, offset } = v {
                    if let Some(b) = alloc_bytes_n(tcx, alloc_id, offset.bytes(), 512) {
                        o.set("mem", b);
                    }
                }
            }
            consts.set(&path_s(tcx, did), o);
        }
    }
    root.set("consts", consts);
    root.set("statics", statics);
    root.set("adts", adts);
    root.set("impls", J::Arr(impls));

    // function bodies
    let mut fns = Vec::new();
    for ldid in tcx.hir_body_owners() {
        let did = ldid.to_def_id();
        let dk = tcx.def_kind(did);
        match dk {
            DefKind::Fn | DefKind::AssocFn | DefKind::Closure => {}
            _ => continue,
        }
        fns.push(fn_j(tcx, ldid, dk));
    }
    root.set("fns", J::Arr(fns));
    root
}

fn vis_s<'tcx>(tcx: TyCtxt<'tcx>, did: DefId) -> String {
    format!("{:?}", tcx.visibility(did))
}

fn constvalue_j<'tcx>(tcx: TyCtxt<'tcx>, v: ConstValue, ty: Ty<'tcx>) -> J {
    match v {
        ConstValue::Scalar(s) => scalar_j(s, ty),
        ConstValue::ZeroSized => J::s("zst"),
        ConstValue::Slice { .. } => {
            if let Some(bytes) = v.try_get_slice_bytes_for_diagnostics(tcx) {
                let mut o = J::obj();
                o.set("bytes", J::Arr(bytes.iter().map(|b| J::n(*b as i128)).collect()));
                o
            } else {
                J::s("slice")
            }
        }
        ConstValue::Indirect { .. } => J::s("indirect"),
    }
}

fn scalar_j<'tcx>(s: rustc_middle::mir::interpret::Scalar, ty: Ty<'tcx>) -> J {
    match s.try_to_scalar_int() {
        Ok(si) => {
            let size = si.size();
            let bits = si.to_bits(size);
            let signed = matches!(ty.kind(), ty::Int(_));
            if signed {
                let v = size.sign_extend(bits) as i128;
                J::n(v)
            } else if bits <= i128::MAX as u128 {
                J::n(bits as i128)
            } else {
                J::s(&format!("{}", bits))
            }
        }
        Err(_) => J::s("ptr"),
    }
}

fn fn_j<'tcx>(tcx: TyCtxt<'tcx>, ldid: LocalDefId, dk: DefKind) -> J {
    let did = ldid.to_def_id();
    let mut o = J::obj();
    o.set("path", J::s(&path_s(tcx, did)));
    o.set("kind", J::s(&format!("{:?}", dk)));
    if matches!(dk, DefKind::Fn | DefKind::AssocFn) {
        o.set("vis", J::s(&vis_s(tcx, did)));
        let sig = tcx.fn_sig(did).instantiate_identity().skip_norm_wip();
        o.set("unsafe", J::b(sig.safety().is_unsafe()));
        o.set("abi", J::s(&format!("{:?}", sig.abi())));
        o.set("sig", J::s(&pp!(format!("{}", sig))));
        o.set("const", J::b(tcx.is_const_fn(did)));
        if let Some(imp) = tcx.impl_of_assoc(did) {
            let st = tcx.type_of(imp).instantiate_identity().skip_norm_wip();
            o.set("impl_self", J::s(&ty_s(st)));
            if let Some(tr) = tcx.impl_opt_trait_ref(imp) {
                let tr = tr.instantiate_identity().skip_norm_wip();
                o.set("impl_trait", J::s(&path_s(tcx, tr.def_id)));
            }
        }
    } else {
        o.set("parent", J::s(&path_s(tcx, tcx.typeck_root_def_id(did))));
    }
    let cattrs = tcx.codegen_fn_attrs(did);
    o.set("inline", J::s(&format!("{:?}", cattrs.inline)));
    o.set("cg_flags", J::s(&format!("{:?}", cattrs.flags)));
    if let Some(n) = cattrs.symbol_name {
        o.set("export_name", J::s(n.as_str()));
    }
    o.set("span", span_j(tcx, tcx.def_span(did)));
    o.set("generics", J::n(tcx.generics_of(did).count() as i128));

    let body: &Body<'tcx> = tcx.optimized_mir(did);
    o.set("argc", J::n(body.arg_count as i128));
    let mut locals = Vec::new();
    for (l, decl) in body.local_decls.iter_enumerated() {
        let mut lo = J::obj();
        lo.set("id", J::n(l.as_usize() as i128));
        lo.set("ty", J::s(&ty_s(decl.ty)));
        if let Some(tk) = tykind_tag(decl.ty) {
            lo.set("tk", J::s(tk));
        }
        locals.push(lo);
    }
    // user names (a list: shadowed bindings share a name)
    let mut names = Vec::new();
    for vdi in body.var_debug_info.iter() {
        if let rustc_middle::mir::VarDebugInfoContents::Place(p) = &vdi.value {
            let mut e = J::obj();
            e.set("n", J::s(vdi.name.as_str()));
            e.set("p", place_j(tcx, body, p));
            if let Some(ai) = vdi.argument_index {
                e.set("arg", J::n(ai as i128));
            }
            names.push(e);
        }
    }
    o.set("locals", J::Arr(locals));
    o.set("names", J::Arr(names));

    let mut blocks = Vec::new();
    for (bb, data) in body.basic_blocks.iter_enumerated() {
        blocks.push(block_j(tcx, body, did, bb.as_usize(), data));
    }
    o.set("blocks", J::Arr(blocks));
    o
}

fn tykind_tag<'tcx>(t: Ty<'tcx>) -> Option<&'static str> {
    Some(match t.kind() {
        ty::RawPtr(..) => "rawptr",
        ty::Ref(..) => "ref",
        ty::FnPtr(..) => "fnptr",
        ty::FnDef(..) => "fndef",
        ty::Dynamic(..) => "dyn",
        ty::Closure(..) => "closure",
        ty::Adt(..) => "adt",
        ty::Int(_) => "int",
        ty::Uint(_) => "uint",
        ty::Bool => "bool",
        ty::Tuple(_) => "tuple",
        ty::Array(..) => "array",
        ty::Slice(_) => "slice",
        ty::Param(_) => "param",
        ty::Never => "never",
        _ => return None,
    })
}

fn place_j<'tcx>(tcx: TyCtxt<'tcx>, body: &Body<'tcx>, p: &Place<'tcx>) -> J {
    let mut o = J::obj();
    o.set("l", J::n(p.local.as_usize() as i128));
    if !p.projection.is_empty() {
        let mut pj = Vec::new();
        let mut pty = rustc_middle::mir::PlaceTy::from_ty(body.local_decls[p.local].ty);
        for elem in p.projection.iter() {
            let mut e = J::obj();
            match elem {
                PlaceElem::Deref => {
                    e.set("k", J::s("deref"));
                }
                PlaceElem::Field(f, fty) => {
                    e.set("k", J::s("field"));
                    e.set("i", J::n(f.as_usize() as i128));
                    e.set("ty", J::s(&ty_s(fty)));
                    // field name + owner adt
                    if let ty::Adt(adt, _) = pty.ty.kind() {
                        let vidx = pty.variant_index.unwrap_or(rustc_abi::FIRST_VARIANT);
                        if vidx.as_usize() < adt.variants().len() {
                            let v = adt.variant(vidx);
                            if f.as_usize() < v.fields.len() {
                                e.set("n", J::s(v.fields[f].name.as_str()));
                            }
                        }
                        e.set("adt", J::s(&path_s(tcx, adt.did())));
                    }
                }
                PlaceElem::Downcast(name, vidx) => {
                    e.set("k", J::s("downcast"));
                    match name {
                        Some(n) => e.set("v", J::s(n.as_str())),
                        None => e.set("v", J::n(vidx.as_usize() as i128)),
                    }
                }
                PlaceElem::Index(l) => {
                    e.set("k", J::s("index"));
                    e.set("l", J::n(l.as_usize() as i128));
                }
                PlaceElem::ConstantIndex { offset, min_length, from_end } => {
                    e.set("k", J::s("cindex"));
                    e.set("off", J::n(offset as i128));
                    e.set("min", J::n(min_length as i128));
                    e.set("from_end", J::b(from_end));
                }
                PlaceElem::Subslice { from, to, from_end } => {
                    e.set("k", J::s("subslice"));
                    e.set("from", J::n(from as i128));
                    e.set("to", J::n(to as i128));
                    e.set("from_end", J::b(from_end));
                }
                PlaceElem::OpaqueCast(t) => {
                    e.set("k", J::s("opaquecast"));
                    e.set("ty", J::s(&ty_s(t)));
                }
                PlaceElem::UnwrapUnsafeBinder(t) => {
                    e.set("k", J::s("unwrapbinder"));
                    e.set("ty", J::s(&ty_s(t)));
                }
            }
            pty = pty.projection_ty(tcx, elem);
            pj.push(e);
        }
        o.set("p", J::Arr(pj));
        o.set("ty", J::s(&ty_s(pty.ty)));
    }
    o
}

fn const_j<'tcx>(tcx: TyCtxt<'tcx>, owner: DefId, c: &Const<'tcx>) -> J {
    let mut o = J::obj();
    o.set("k", J::s("const"));
    let ty = c.ty();
    o.set("ty", J::s(&ty_s(ty)));
    match ty.kind() {
        ty::FnDef(did, args) => {
            o.set("fn", J::s(&path_s(tcx, *did)));
            if !args.is_empty() {
                o.set(
                    "generic",
                    J::s(&pp!(format!("{:?}", args))),
                );
            }
            return o;
        }
        _ => {}
    }
    if let Const::Unevaluated(uv, _) = c {
        o.set("path", J::s(&path_s(tcx, uv.def)));
        if let Some(p) = uv.promoted {
            o.set("promoted", J::n(p.as_usize() as i128));
            // named constants the promoted body refers to (e.g. `&CLOEXEC_MSG_FOOTER`)
            if uv.def.is_local() {
                let bodies = tcx.promoted_mir(uv.def);
                if p.as_usize() < bodies.len() {
                    let mut c = ConstCollector { tcx, out: Vec::new() };
                    use rustc_middle::mir::visit::Visitor;
                    c.visit_body(&bodies[p]);
                    o.set("refs", J::Arr(c.out.iter().map(|x| J::s(x)).collect()));
                }
            }
        }
    }
    let env = ty::TypingEnv::post_analysis(tcx, owner);
    if let Ok(v) = c.eval(tcx, env, rustc_span::DUMMY_SP) {
        match v {
            ConstValue::Scalar(s) => {
                o.set("value", scalar_j(s, ty));
            }
            ConstValue::ZeroSized => {
                o.set("value", J::s("zst"));
            }
            ConstValue::Slice { .. } => {
                if let Some(bytes) = v.try_get_slice_bytes_for_diagnostics(tcx) {
                    o.set("bytes", J::Arr(bytes.iter().map(|b| J::n(*b as i128)).collect()));
                }
            }
            ConstValue::Indirect { alloc_id, offset } => {
                o.set("value", J::s("indirect"));
                if let Some(b) = alloc_bytes(tcx, alloc_id, offset.bytes()) {
                    o.set("mem", b);
                }
            }
        }
        if let ConstValue::Scalar(rustc_middle::mir::interpret::Scalar::Ptr(ptr, _)) = v {
            let (prov, off) = ptr.prov_and_relative_offset();
            if let Some(b) = alloc_bytes(tcx, prov.alloc_id(), off.bytes()) {
                o.set("mem", b);
            }
            // pointers stored inside the pointed-to memory (e.g. a promoted `&&str`): one level of pointee bytes
            if let Some(rustc_middle::mir::interpret::GlobalAlloc::Memory(a)) = tcx.try_get_global_alloc(prov.alloc_id()) {
                let mut ptrs = Vec::new();
                for (poff, pprov) in a.inner().provenance().ptrs().iter() {
                    if poff.bytes() < off.bytes() || ptrs.len() >= 8 {
                        continue;
                    }
                    // the stored address = base of the target allocation + the offset written in the bytes
                    let lo = poff.bytes() as usize;
                    let raw = a.inner().inspect_with_uninit_and_ptr_outside_interpreter(lo..lo + 8);
                    let mut rel = 0u64;
                    for (i, b) in raw.iter().enumerate() {
                        rel |= (*b as u64) << (8 * i);
                    }
                    if let Some(b) = alloc_bytes_n(tcx, pprov.alloc_id(), rel, 128) {
                        let mut e = J::obj();
                        e.set("off", J::n((poff.bytes() - off.bytes()) as i128));
                        e.set("mem", b);
                        ptrs.push(e);
                    }
                }
                if !ptrs.is_empty() {
                    o.set("ptrs", J::Arr(ptrs));
                }
            }
            // address of a static / function
            match tcx.try_get_global_alloc(prov.alloc_id()) {
                Some(rustc_middle::mir::interpret::GlobalAlloc::Static(did)) => {
                    o.set("static", J::s(&path_s(tcx, did)));
                }
                Some(rustc_middle::mir::interpret::GlobalAlloc::Function { instance }) => {
                    o.set("fnaddr", J::s(&path_s(tcx, instance.def_id())));
                }
                _ => {}
            }
        }
    }
    o
}

/// Raw bytes of a constant allocation (diagnostic read, max 64 bytes), for `Indirect` constants and pointers to memory.
fn alloc_bytes<'tcx>(
    tcx: TyCtxt<'tcx>,
    alloc_id: rustc_middle::mir::interpret::AllocId,
    offset: u64,
) -> Option<J> {
    alloc_bytes_n(tcx, alloc_id, offset, 64)
}

fn alloc_bytes_n<'tcx>(
    tcx: TyCtxt<'tcx>,
    alloc_id: rustc_middle::mir::interpret::AllocId,
    offset: u64,
    max: u64,
) -> Option<J> {
    match tcx.try_get_global_alloc(alloc_id) {
        Some(rustc_middle::mir::interpret::GlobalAlloc::Memory(a)) => {
            let a = a.inner();
            let size = a.size().bytes();
            if offset > size {
                return None;
            }
            let end = core::cmp::min(size, offset + max);
            let bytes = a.inspect_with_uninit_and_ptr_outside_interpreter(offset as usize..end as usize);
            Some(J::Arr(bytes.iter().map(|b| J::n(*b as i128)).collect()))
        }
        _ => None,
    }
}

struct ConstCollector<'tcx> {
    tcx: TyCtxt<'tcx>,
    out: Vec<String>,
}

impl<'tcx> rustc_middle::mir::visit::Visitor<'tcx> for ConstCollector<'tcx> {
    fn visit_const_operand(
        &mut self,
        c: &rustc_middle::mir::ConstOperand<'tcx>,
        _loc: rustc_middle::mir::Location,
    ) {
        if let Const::Unevaluated(uv, _) = c.const_ {
            if uv.promoted.is_none() {
                self.out.push(path_s(self.tcx, uv.def));
            }
        }
    }
}

fn operand_j<'tcx>(tcx: TyCtxt<'tcx>, body: &Body<'tcx>, owner: DefId, op: &Operand<'tcx>) -> J {
    match op {
        Operand::Copy(p) => {
            let mut o = J::obj();
            o.set("k", J::s("copy"));
            o.set("p", place_j(tcx, body, p));
            o
        }
        Operand::Move(p) => {
            let mut o = J::obj();
            o.set("k", J::s("move"));
            o.set("p", place_j(tcx, body, p));
            o
        }
        Operand::Constant(c) => const_j(tcx, owner, &c.const_),
        #[allow(unreachable_patterns)]
        other => {
            let mut o = J::obj();
            o.set("k", J::s("unknown"));
            o.set("dbg", J::s(&format!("{:?}", other)));
            o
        }
    }
}

fn rvalue_j<'tcx>(tcx: TyCtxt<'tcx>, body: &Body<'tcx>, owner: DefId, rv: &Rvalue<'tcx>) -> J {
    let mut o = J::obj();
    match rv {
        Rvalue::Use(op, ..) => {
            o.set("k", J::s("use"));
            o.set("a", operand_j(tcx, body, owner, op));
        }
        Rvalue::Repeat(op, n) => {
            o.set("k", J::s("repeat"));
            o.set("a", operand_j(tcx, body, owner, op));
            o.set("n", J::s(&format!("{}", n)));
        }
        Rvalue::Ref(_, bk, p) => {
            o.set("k", J::s("ref"));
            o.set("m", J::b(!matches!(bk, rustc_middle::mir::BorrowKind::Shared | rustc_middle::mir::BorrowKind::Fake(_))));
            o.set("p", place_j(tcx, body, p));
        }
        Rvalue::RawPtr(kind, p) => {
            o.set("k", J::s("rawptr"));
            o.set("m", J::s(&format!("{:?}", kind)));
            o.set("p", place_j(tcx, body, p));
        }
        Rvalue::Cast(kind, op, ty) => {
            o.set("k", J::s("cast"));
            let ks = match kind {
                CastKind::Transmute => "transmute".to_string(),
                other => format!("{:?}", other),
            };
            o.set("ck", J::s(&ks));
            o.set("a", operand_j(tcx, body, owner, op));
            o.set("ty", J::s(&ty_s(*ty)));
        }
        Rvalue::BinaryOp(bop, ab) => {
            o.set("k", J::s("binop"));
            o.set("op", J::s(&format!("{:?}", bop)));
            o.set("a", operand_j(tcx, body, owner, &ab.0));
            o.set("b", operand_j(tcx, body, owner, &ab.1));
        }
        Rvalue::UnaryOp(uop, a) => {
            o.set("k", J::s("unop"));
            o.set("op", J::s(&format!("{:?}", uop)));
            o.set("a", operand_j(tcx, body, owner, a));
        }
        Rvalue::Discriminant(p) => {
            o.set("k", J::s("discr"));
            o.set("p", place_j(tcx, body, p));
        }
        Rvalue::Aggregate(kind, ops) => {
            o.set("k", J::s("agg"));
            match &**kind {
                AggregateKind::Array(t) => {
                    o.set("ak", J::s("array"));
                    o.set("ty", J::s(&ty_s(*t)));
                }
                AggregateKind::Tuple => {
                    o.set("ak", J::s("tuple"));
                }
                AggregateKind::Adt(did, vidx, _args, _, active) => {
                    o.set("ak", J::s("adt"));
                    o.set("adt", J::s(&path_s(tcx, *did)));
                    let adt = tcx.adt_def(*did);
                    let v = adt.variant(*vidx);
                    o.set("variant", J::s(v.name.as_str()));
                    let mut fns = Vec::new();
                    if let Some(a) = active {
                        fns.push(J::s(v.fields[*a].name.as_str()));
                    } else {
                        for f in v.fields.iter() {
                            fns.push(J::s(f.name.as_str()));
                        }
                    }
                    o.set("fields", J::Arr(fns));
                }
                AggregateKind::Closure(did, _) => {
                    o.set("ak", J::s("closure"));
                    o.set("closure", J::s(&path_s(tcx, *did)));
                }
                AggregateKind::RawPtr(t, m) => {
                    o.set("ak", J::s("rawptr"));
                    o.set("ty", J::s(&ty_s(*t)));
                    o.set("m", J::s(&format!("{:?}", m)));
                }
                other => {
                    o.set("ak", J::s("other"));
                    o.set("dbg", J::s(&format!("{:?}", other)));
                }
            }
            let mut v = Vec::new();
            for op in ops.iter() {
                v.push(operand_j(tcx, body, owner, op));
            }
            o.set("ops", J::Arr(v));
        }
        Rvalue::CopyForDeref(p) => {
            o.set("k", J::s("use"));
            let mut c = J::obj();
            c.set("k", J::s("copy"));
            c.set("p", place_j(tcx, body, p));
            o.set("a", c);
        }
        Rvalue::ThreadLocalRef(did) => {
            o.set("k", J::s("tlsref"));
            o.set("path", J::s(&path_s(tcx, *did)));
        }
        other => {
            o.set("k", J::s("unknown"));
            o.set("dbg", J::s(&format!("{:?}", other)));
        }
    }
    o
}

fn block_j<'tcx>(
    tcx: TyCtxt<'tcx>,
    body: &Body<'tcx>,
    owner: DefId,
    id: usize,
    data: &BasicBlockData<'tcx>,
) -> J {
    let mut b = J::obj();
    b.set("id", J::n(id as i128));
    if data.is_cleanup {
        b.set("cleanup", J::b(true));
    }
    let mut stmts = Vec::new();
    for st in data.statements.iter() {
        match &st.kind {
            StatementKind::Assign(bx) => {
                let (p, rv) = &**bx;
                let mut s = J::obj();
                s.set("k", J::s("assign"));
                s.set("dst", place_j(tcx, body, p));
                s.set("rv", rvalue_j(tcx, body, owner, rv));
                s.set("sp", span_j(tcx, st.source_info.span));
                stmts.push(s);
            }
            StatementKind::SetDiscriminant { place, variant_index } => {
                let mut s = J::obj();
                s.set("k", J::s("setdiscr"));
                s.set("dst", place_j(tcx, body, place));
                s.set("v", J::n(variant_index.as_usize() as i128));
                s.set("sp", span_j(tcx, st.source_info.span));
                stmts.push(s);
            }
            StatementKind::Intrinsic(i) => {
                let mut s = J::obj();
                s.set("k", J::s("intrinsic"));
                match &**i {
                    rustc_middle::mir::NonDivergingIntrinsic::Assume(op) => {
                        s.set("name", J::s("assume"));
                        s.set("a", operand_j(tcx, body, owner, op));
                    }
                    rustc_middle::mir::NonDivergingIntrinsic::CopyNonOverlapping(c) => {
                        s.set("name", J::s("copy_nonoverlapping"));
                        s.set("src", operand_j(tcx, body, owner, &c.src));
                        s.set("dst", operand_j(tcx, body, owner, &c.dst));
                        s.set("count", operand_j(tcx, body, owner, &c.count));
                    }
                }
                s.set("sp", span_j(tcx, st.source_info.span));
                stmts.push(s);
            }
            StatementKind::StorageLive(_)
            | StatementKind::StorageDead(_)
            | StatementKind::Nop
            | StatementKind::FakeRead(..)
            | StatementKind::PlaceMention(..)
            | StatementKind::AscribeUserType(..)
            | StatementKind::Coverage(..)
            | StatementKind::ConstEvalCounter
            | StatementKind::BackwardIncompatibleDropHint { .. } => {}
            other => {
                let mut s = J::obj();
                s.set("k", J::s("unknown"));
                s.set("dbg", J::s(&format!("{:?}", other)));
                stmts.push(s);
            }
        }
    }
    b.set("stmts", J::Arr(stmts));
    let term = data.terminator();
    let mut t = J::obj();
    t.set("sp", span_j(tcx, term.source_info.span));
    match &term.kind {
        TerminatorKind::Goto { target } => {
            t.set("k", J::s("goto"));
            t.set("t", J::n(target.as_usize() as i128));
        }
        TerminatorKind::SwitchInt { discr, targets } => {
            t.set("k", J::s("switch"));
            t.set("discr", operand_j(tcx, body, owner, discr));
            let mut ts = Vec::new();
            for (v, bb) in targets.iter() {
                let vj = if v <= i128::MAX as u128 { J::n(v as i128) } else { J::s(&format!("{}", v)) };
                ts.push(J::Arr(vec![vj, J::n(bb.as_usize() as i128)]));
            }
            t.set("targets", J::Arr(ts));
            t.set("otherwise", J::n(targets.otherwise().as_usize() as i128));
            // is otherwise unreachable? (the engine checks the target block)
        }
        TerminatorKind::Return => {
            t.set("k", J::s("return"));
        }
        TerminatorKind::Unreachable => {
            t.set("k", J::s("unreachable"));
        }
        TerminatorKind::UnwindResume => {
            t.set("k", J::s("resume"));
        }
        TerminatorKind::UnwindTerminate(_) => {
            t.set("k", J::s("abort"));
        }
        TerminatorKind::Drop { place, target, unwind, .. } => {
            t.set("k", J::s("drop"));
            t.set("p", place_j(tcx, body, place));
            let pty = place.ty(body, tcx).ty;
            t.set("ty", J::s(&ty_s(pty)));
            t.set("t", J::n(target.as_usize() as i128));
            if let rustc_middle::mir::UnwindAction::Cleanup(c) = unwind {
                t.set("unwind", J::n(c.as_usize() as i128));
            }
        }
        TerminatorKind::Call { func, args, destination, target, unwind, .. } => {
            t.set("k", J::s("call"));
            call_common(tcx, body, owner, &mut t, func, args);
            t.set("dst", place_j(tcx, body, destination));
            match target {
                Some(bb) => t.set("t", J::n(bb.as_usize() as i128)),
                None => t.set("t", J::Null),
            }
            if let rustc_middle::mir::UnwindAction::Cleanup(c) = unwind {
                t.set("unwind", J::n(c.as_usize() as i128));
            }
        }
        TerminatorKind::TailCall { func, args, .. } => {
            t.set("k", J::s("tailcall"));
            call_common(tcx, body, owner, &mut t, func, args);
        }
        TerminatorKind::Assert { cond, expected, msg, target, unwind } => {
            t.set("k", J::s("assert"));
            t.set("cond", operand_j(tcx, body, owner, cond));
            t.set("expected", J::b(*expected));
            use rustc_middle::mir::AssertKind;
            let (mk, extra): (&str, Vec<J>) = match &**msg {
                AssertKind::BoundsCheck { len, index } => (
                    "bounds",
                    vec![operand_j(tcx, body, owner, len), operand_j(tcx, body, owner, index)],
                ),
                AssertKind::Overflow(op, a, bb) => (
                    match op {
                        rustc_middle::mir::BinOp::Add => "overflow_add",
                        rustc_middle::mir::BinOp::Sub => "overflow_sub",
                        rustc_middle::mir::BinOp::Mul => "overflow_mul",
                        rustc_middle::mir::BinOp::Shl => "overflow_shl",
                        rustc_middle::mir::BinOp::Shr => "overflow_shr",
                        _ => "overflow_other",
                    },
                    vec![operand_j(tcx, body, owner, a), operand_j(tcx, body, owner, bb)],
                ),
                AssertKind::OverflowNeg(a) => ("overflow_neg", vec![operand_j(tcx, body, owner, a)]),
                AssertKind::DivisionByZero(a) => ("div_zero", vec![operand_j(tcx, body, owner, a)]),
                AssertKind::RemainderByZero(a) => ("rem_zero", vec![operand_j(tcx, body, owner, a)]),
                AssertKind::MisalignedPointerDereference { .. } => ("misaligned", vec![]),
                AssertKind::NullPointerDereference => ("nullptr", vec![]),
                AssertKind::InvalidEnumConstruction(_) => ("invalid_enum", vec![]),
                _ => ("other", vec![]),
            };
            t.set("msg", J::s(mk));
            t.set("ops", J::Arr(extra));
            t.set("t", J::n(target.as_usize() as i128));
            if let rustc_middle::mir::UnwindAction::Cleanup(c) = unwind {
                t.set("unwind", J::n(c.as_usize() as i128));
            }
        }
        TerminatorKind::InlineAsm { template, operands, options, targets, .. } => {
            t.set("k", J::s("asm"));
            let mut s = String::new();
            for p in template.iter() {
                match p {
                    rustc_ast::InlineAsmTemplatePiece::String(x) => s.push_str(x),
                    rustc_ast::InlineAsmTemplatePiece::Placeholder { operand_idx, .. } => {
                        let _ = write!(s, "{{{}}}", operand_idx);
                    }
                }
            }
            t.set("template", J::s(&s));
            t.set("options", J::s(&format!("{:?}", options)));
            let mut ops = Vec::new();
            for op in operands.iter() {
                use rustc_middle::mir::InlineAsmOperand as IO;
                let mut oo = J::obj();
                match op {
                    IO::In { reg, value } => {
                        oo.set("dir", J::s("in"));
                        oo.set("reg", J::s(&format!("{:?}", reg)));
                        oo.set("value", operand_j(tcx, body, owner, value));
                    }
                    IO::Out { reg, late, place } => {
                        oo.set("dir", J::s(if *late { "lateout" } else { "out" }));
                        oo.set("reg", J::s(&format!("{:?}", reg)));
                        if let Some(p) = place {
                            oo.set("place", place_j(tcx, body, p));
                        }
                    }
                    IO::InOut { reg, late, in_value, out_place } => {
                        oo.set("dir", J::s(if *late { "inlateout" } else { "inout" }));
                        oo.set("reg", J::s(&format!("{:?}", reg)));
                        oo.set("value", operand_j(tcx, body, owner, in_value));
                        if let Some(p) = out_place {
                            oo.set("place", place_j(tcx, body, p));
                        }
                    }
                    IO::Const { value } => {
                        oo.set("dir", J::s("const"));
                        oo.set("value", const_j(tcx, owner, &value.const_));
                    }
                    IO::SymFn { value } => {
                        oo.set("dir", J::s("symfn"));
                        oo.set("value", const_j(tcx, owner, &value.const_));
                    }
                    IO::SymStatic { def_id } => {
                        oo.set("dir", J::s("symstatic"));
                        oo.set("path", J::s(&path_s(tcx, *def_id)));
                    }
                    IO::Label { target_index } => {
                        oo.set("dir", J::s("label"));
                        oo.set("i", J::n(*target_index as i128));
                    }
                }
                ops.push(oo);
            }
            t.set("operands", J::Arr(ops));
            t.set(
                "targets",
                J::Arr(targets.iter().map(|b| J::n(b.as_usize() as i128)).collect()),
            );
        }
        other => {
            t.set("k", J::s("unknown"));
            t.set("dbg", J::s(&format!("{:?}", other)));
        }
    }
    b.set("term", t);
    b
}

fn call_common<'tcx>(
    tcx: TyCtxt<'tcx>,
    body: &Body<'tcx>,
    owner: DefId,
    t: &mut J,
    func: &Operand<'tcx>,
    args: &[rustc_span::Spanned<Operand<'tcx>>],
) {
    let mut resolved = false;
    if let Operand::Constant(c) = func {
        if let ty::FnDef(did, gargs) = c.const_.ty().kind() {
            t.set("callee", J::s(&path_s(tcx, *did)));
            if !gargs.is_empty() {
                t.set(
                    "generic",
                    J::s(&pp!(format!("{:?}", gargs))),
                );
            }
            // trait method resolution
            let env = ty::TypingEnv::post_analysis(tcx, owner);
            if tcx.trait_of_assoc(*did).is_some() {
                t.set("trait_method", J::b(true));
                if let Ok(Some(inst)) = ty::Instance::try_resolve(tcx, env, *did, gargs) {
                    let rd = inst.def_id();
                    t.set("resolved", J::s(&path_s(tcx, rd)));
                    t.set("resolved_kind", J::s(instance_kind(&inst)));
                }
            }
            // size_of::<T>() / align_of::<T>() with a concrete T: record the value
            let cname = path_s(tcx, *did);
            if (cname == "core::mem::size_of" || cname == "core::mem::align_of") && gargs.len() == 1 {
                if let Some(t0) = gargs[0].as_type() {
                    if !t0.has_param() {
                        let env2 = ty::TypingEnv::post_analysis(tcx, owner);
                        if let Ok(layout) = tcx.layout_of(env2.as_query_input(t0)) {
                            let v = if cname.ends_with("size_of") { layout.size.bytes() } else { layout.align.abi.bytes() };
                            t.set("const_result", J::n(v as i128));
                        }
                    }
                }
            }
            // how the callee is inlined (a function that is not #[inline(always)] is a real call in an unoptimised build)
            if matches!(tcx.def_kind(*did), DefKind::Fn | DefKind::AssocFn) {
                let mut target = *did;
                if tcx.trait_of_assoc(*did).is_some() {
                    if let Ok(Some(inst)) = ty::Instance::try_resolve(tcx, env, *did, gargs) {
                        if matches!(tcx.def_kind(inst.def_id()), DefKind::Fn | DefKind::AssocFn) {
                            target = inst.def_id();
                        }
                    }
                }
                if tcx.intrinsic(target).is_some() {
                    t.set("callee_inline", J::s("Intrinsic"));
                } else {
                    t.set("callee_inline", J::s(&format!("{:?}", tcx.codegen_fn_attrs(target).inline)));
                }
            }
            // does the callee diverge?
            let sig = tcx.fn_sig(*did).instantiate_identity().skip_norm_wip();
            if sig.output().skip_binder().is_never() {
                t.set("diverges", J::b(true));
            }
            resolved = true;
        }
    }
    if !resolved {
        t.set("callee", J::Null);
        t.set("func", operand_j(tcx, body, owner, func));
        let fty = func.ty(body, tcx);
        t.set("func_ty", J::s(&ty_s(fty)));
    }
    let mut v = Vec::new();
    for a in args.iter() {
        v.push(operand_j(tcx, body, owner, &a.node));
    }
    t.set("args", J::Arr(v));
}

fn instance_kind<'tcx>(i: &ty::Instance<'tcx>) -> &'static str {
    match i.def {
        ty::InstanceKind::Item(_) => "item",
        ty::InstanceKind::Intrinsic(_) => "intrinsic",
        ty::InstanceKind::Virtual(..) => "virtual",
        ty::InstanceKind::FnPtrShim(..) => "fnptrshim",
        ty::InstanceKind::ClosureOnceShim { .. } => "closureonce",
        ty::InstanceKind::DropGlue(..) => "dropglue",
        ty::InstanceKind::CloneShim(..) => "cloneshim",
        _ => "other",
    }
}
