"""K1: whole-program call graph over resolved static callees."""
from collections import defaultdict, deque


def _operands_in_stmt(s):
    rv = s.get("rv")
    if not rv:
        return
    for k in ("a", "b"):
        if k in rv and isinstance(rv[k], dict):
            yield rv[k]
    for o in rv.get("ops", []):
        yield o


class CallGraph:
    def __init__(self, prog):
        self.prog = prog
        self.callees = defaultdict(set)     # fn path -> set of callee paths (declared and resolved)
        self.callers = defaultdict(set)
        self.sites = defaultdict(list)      # (caller, callee) -> [(bb, term)]
        self.unresolved = defaultdict(list)  # caller -> [(bb, term)] indirect / generic trait calls
        for path, fn in prog.fns.items():
            for b in fn["blocks"]:
                if b.get("cleanup"):
                    continue
                for s in b["stmts"]:
                    if s["k"] != "assign":
                        continue
                    rv = s["rv"]
                    if rv["k"] == "agg" and rv.get("ak") == "closure":
                        self._edge(path, rv["closure"], b["id"], None)
                    for o in _operands_in_stmt(s):
                        if o.get("k") == "const" and "fn" in o:
                            self._edge(path, o["fn"], b["id"], None)
                t = b["term"]
                if t["k"] in ("call", "tailcall"):
                    c = t.get("callee")
                    r = t.get("resolved")
                    if c is None:
                        self.unresolved[path].append((b["id"], t))
                    else:
                        self._edge(path, c, b["id"], t)
                        if r and r != c:
                            self._edge(path, r, b["id"], t)
                        if t.get("trait_method") and not r:
                            self.unresolved[path].append((b["id"], t))
                    for a in t["args"]:
                        if a.get("k") == "const" and "fn" in a:
                            self._edge(path, a["fn"], b["id"], None)
                elif t["k"] == "drop":
                    # drop glue: edge to Drop::drop impl of the type if it is a local ADT
                    ty = t.get("ty", "")
                    self._drop_edges(path, ty, b["id"], t)

    def _edge(self, a, b, bb, t):
        self.callees[a].add(b)
        self.callers[b].add(a)
        self.sites[(a, b)].append((bb, t))

    def _drop_edges(self, caller, ty, bb, t):
        base = ty.split("<")[0]
        for p in self.prog.fns:
            if p.startswith("<" + base) and p.endswith(" as core::ops::drop::Drop>::drop"):
                self._edge(caller, p, bb, t)

    def reach(self, roots, stop=None):
        """All functions reachable from roots (inclusive)."""
        seen = set(roots)
        dq = deque(roots)
        while dq:
            f = dq.popleft()
            if stop and f in stop:
                continue
            for c in self.callees.get(f, ()):
                if c not in seen:
                    seen.add(c)
                    dq.append(c)
        return seen

    def path(self, root, pred):
        """Shortest call chain from root to a function satisfying pred."""
        prev = {root: None}
        dq = deque([root])
        while dq:
            f = dq.popleft()
            if pred(f) and f != root:
                chain = []
                while f is not None:
                    chain.append(f)
                    f = prev[f]
                return list(reversed(chain))
            for c in sorted(self.callees.get(f, ())):
                if c not in prev:
                    prev[c] = f
                    dq.append(c)
        return None

    def all_callers(self, f):
        """Transitive callers of f."""
        seen = set()
        dq = deque([f])
        while dq:
            x = dq.popleft()
            for c in self.callers.get(x, ()):
                if c not in seen:
                    seen.add(c)
                    dq.append(c)
        return seen
