"""K9: decision tables of small acyclic functions, and canonical rendering of expressions."""
from .prov import strip_casts


def canon(e, depth=0):
    """Canonical string: constants by value, parameters as p<n>, call sites without block ids."""
    if not isinstance(e, tuple) or depth > 12:
        return str(e)
    k = e[0]
    if k == "const":
        return str(e[1])
    if k == "param":
        return f"p{e[1]}"
    if k == "cast":
        return canon(e[2], depth + 1)
    if k == "bin":
        return f"({canon(e[2], depth+1)} {e[1]} {canon(e[3], depth+1)})"
    if k == "un":
        return f"{e[1]}({canon(e[2], depth+1)})"
    if k == "call":
        return f"{(e[1] or '?').split('::')[-1]}({','.join(canon(a, depth+1) for a in e[2])})"
    if k == "ref":
        return canon(e[2], depth + 1)
    if k == "field":
        return f"{canon(e[1], depth+1)}.{e[2]}"
    if k == "deref":
        return f"*{canon(e[1], depth+1)}"
    if k == "downcast":
        return f"{canon(e[1], depth+1)}@{e[2]}"
    if k == "var":
        return f"var:{e[2]}" if e[2] else f"var{e[1]}"
    if k == "agg":
        return f"{str(e[1]).split('::')[-1]}::{e[2]}({','.join(canon(a, depth+1) for a in e[3])})"
    if k == "discr":
        return f"discr({canon(e[1], depth+1)})"
    if k == "place":
        return f"place:{e[2] or e[3]}"
    return str(e)[:80]


def fact_atom(f):
    if f[0] == "cmp":
        return f"({canon(f[2])} {f[1]} {canon(f[3])})"
    if f[0] == "truth":
        return ("" if f[2] else "!") + canon(f[1])
    if f[0] == "variant":
        return f"{canon(f[1])} is {f[2]}"
    if f[0] == "notvariant":
        return f"{canon(f[1])} isnot {f[2]}"
    return str(f)


def enumerate_paths(ctx, max_paths=4000):
    """Acyclic paths (lists of Edge) from entry to each return block."""
    cfg = ctx.cfg
    rets = set(cfg.return_blocks())
    out = []

    def dfs(b, edges, onpath):
        if len(out) >= max_paths:
            return
        if b in rets:
            out.append(list(edges))
            return
        for e in cfg.succ[b]:
            if e.dst in onpath or e.dst in cfg.unreachable_blocks:
                continue
            edges.append(e)
            onpath.add(e.dst)
            dfs(e.dst, edges, onpath)
            onpath.discard(e.dst)
            edges.pop()
    dfs(0, [], {0})
    return out


def path_return_value(ctx, edges):
    """Expression assigned to _0 last along the path."""
    blocks = [0] + [e.dst for e in edges]
    val = None
    for b in blocks:
        blk = ctx.cfg.block(b)
        for i, s in enumerate(blk["stmts"]):
            if s["k"] == "assign" and s["dst"]["l"] == 0 and not s["dst"].get("p"):
                val = ctx.prov.rvalue(s["rv"], (b, i))
        t = blk["term"]
        if t["k"] == "call" and t["dst"]["l"] == 0 and not t["dst"].get("p"):
            from .prov import call_name
            val = ("call", call_name(t), tuple(ctx.args(b)), b)
    return val


def path_local_value(ctx, edges, local):
    """Expression last assigned to `local` (whole-local assignment) along the path."""
    blocks = [0] + [e.dst for e in edges]
    val = None
    for b in blocks:
        blk = ctx.cfg.block(b)
        for i, s in enumerate(blk["stmts"]):
            if s["k"] == "assign" and s["dst"]["l"] == local and not s["dst"].get("p"):
                val = ctx.prov.rvalue(s["rv"], (b, i))
        t = blk["term"]
        if t["k"] == "call" and t["dst"]["l"] == local and not t["dst"].get("p"):
            from .prov import call_name
            val = ("call", call_name(t), tuple(ctx.args(b)), b)
    return val


def decision_table(ctx):
    """[(frozenset(atoms), result_string)] over all acyclic paths."""
    rows = []
    for edges in enumerate_paths(ctx):
        atoms = []
        for e in edges:
            if e.kind == "sw":
                for f in ctx.edge_facts(e):
                    atoms.append(fact_atom(f))
        v = path_return_value(ctx, edges)
        rows.append((frozenset(atoms), v))
    return rows


def true_rows(ctx):
    """Conjunctions (frozensets of atoms) under which a bool function returns true."""
    out = []
    for atoms, v in decision_table(ctx):
        v = strip_casts(v) if v is not None else None
        if isinstance(v, tuple) and v[0] == "const":
            if v[1] in (1, True):
                out.append(atoms)
            continue
        if isinstance(v, tuple) and v[0] == "un" and v[1] == "Not":
            out.append(atoms | {"!" + canon(v[2])})
            continue
        if v is not None:
            out.append(atoms | {canon(v)})
    return out
